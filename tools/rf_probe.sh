#!/bin/bash
# usage: rf_probe.sh <refactor dir> <checks...>
sd="$1"; shift
id="$(basename "$sd")"; scr="/tmp/rfp/$id"; rm -rf "$scr"; mkdir -p "$scr/aldy"
cp /repo/aldy/*.py "$scr/aldy/"
(cd "$scr" && patch -p1 -s < "$sd/patch.diff") || { echo "$id: patch failed"; exit; }
out=""
for c in "$@"; do
  o="$(cd /verif && ALDY_REPO="$scr" VERIF_NOEVIDENCE=1 ./check "$c" 2>&1)"; rc=$?
  [ $rc -ne 0 ] && out="$out $c[rc=$rc: $(echo "$o" | grep -E 'ANALYSIS-ERROR|^aldy/' | head -2 | cut -c1-160 | tr '\n' '|')]"
done
echo "$id:${out:- silent}"
rm -rf "$scr"
