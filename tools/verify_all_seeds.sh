#!/bin/bash
# verify every seed under /verif/seeded that has no verified.txt verdict yet (sequentially)
cd /verif
for s in seeded/*/; do
  s="${s%/}"
  if [ -f "$s/verified.txt" ] && grep -qE "^(CONFIRMED|NOT-CONFIRMED)" "$s/verified.txt"; then continue; fi
  tools/verify_seed.sh "$s" "${1:-5}" 2>&1 | tail -1 | sed "s|^|$s: |"
done
