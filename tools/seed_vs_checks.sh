#!/bin/bash
# usage: seed_vs_checks.sh <seed_dir>...   -- run every check against a scratch copy of /repo/aldy with the patch applied
for sd in "$@"; do
  id="$(basename "$sd")"; scr="/tmp/svc/$id"; rm -rf "$scr"; mkdir -p "$scr/aldy"
  cp /repo/aldy/*.py "$scr/aldy/"
  abs="$(cd "$sd" && pwd)"
  (cd "$scr" && patch -p1 -s < "$abs/patch.diff") || { echo "$id: patch failed"; continue; }
  hits=""
  for f in /verif/checks/c*.py; do
    c="$(basename "$f" .py | tr a-z A-Z)"
    o="$(cd /verif && ALDY_REPO="$scr" VERIF_NOEVIDENCE=1 ./check "$c" 2>&1)"; rc=$?
    if [ $rc -eq 1 ]; then
      rules="$(echo "$o" | grep -oE '  C[0-9]+\.R[0-9]+  ' | sort -u | tr -d ' ' | paste -sd, -)"
      hits="$hits $c[$rules]"
    fi
    if [ $rc -eq 2 ]; then hits="$hits $c[ANALYSIS-ERROR]"; fi
  done
  if [ -z "$hits" ]; then hits=" (no check fires)"; fi
  echo "$id:$hits"
  rm -rf "$scr"
done
