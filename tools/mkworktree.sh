#!/bin/sh
# usage: mkworktree.sh <dir>   -- scratch worktree of /repo HEAD incl. the untracked compiled indelpost modules
set -e
d="$1"
git -C /repo worktree add --detach "$d" HEAD >/dev/null 2>&1
cp /repo/aldy/indelpost/*.so "$d/aldy/indelpost/" 2>/dev/null || true
echo "$d"
