#!/venv/bin/python
"""Mutation-sensitivity probe: generate small syntactic mutants inside the code ranges a property is anchored in, run that
property's check (quick tier) on each, and list the survivors for manual review (a survivor is either behaviour-preserving /
outside the statement, or a gap of the check).

usage: automutate.py <property id> [--max N] [--jobs J] [--seed S] [--out FILE]
Nothing is written under /repo or /verif/evidence; scratch copies live under /tmp/automut and are removed.
"""
import argparse
import ast
import copy
import json
import os
import random
import re
import shutil
import subprocess
import sys
from concurrent.futures import ThreadPoolExecutor

VERIF = os.path.dirname(os.path.dirname(os.path.abspath(__file__)))


def ranges_of(pid):
    out = {}
    for line in open(os.path.join(VERIF, "properties.jsonl")):
        d = json.loads(line)
        if d["id"] != pid:
            continue
        for m in d["anchors"].get("mechanism", []) + d["anchors"].get("state", []):
            for part in m.get("where", "").split(";"):
                mm = re.match(r"\s*(aldy/\S+\.py):([\d,\-\s]+)", part)
                if not mm:
                    continue
                for r in mm.group(2).split(","):
                    r = r.strip()
                    if not r:
                        continue
                    a, _, b = r.partition("-")
                    out.setdefault(mm.group(1), []).append((int(a), int(b or a)))
    return out


CMP = {ast.Lt: ast.LtE, ast.LtE: ast.Lt, ast.Gt: ast.GtE, ast.GtE: ast.Gt, ast.Eq: ast.NotEq, ast.NotEq: ast.Eq, ast.In: ast.NotIn, ast.NotIn: ast.In}
BIN = {ast.Add: ast.Sub, ast.Sub: ast.Add, ast.Mult: ast.Div, ast.Div: ast.Mult}


class Site:
    def __init__(self, kind, lineno, describe, apply):
        self.kind, self.lineno, self.describe, self.apply = kind, lineno, describe, apply


def sites(tree, in_range):
    out = []
    for node in ast.walk(tree):
        ln = getattr(node, "lineno", None)
        if ln is None or not in_range(ln):
            continue
        if isinstance(node, ast.Compare) and len(node.ops) == 1 and type(node.ops[0]) in CMP:
            def ap(n=node):
                n.ops = [CMP[type(n.ops[0])]()]
            out.append(Site("cmp", ln, f"{type(node.ops[0]).__name__}->{CMP[type(node.ops[0])].__name__}", ap))
        if isinstance(node, ast.BinOp) and type(node.op) in BIN and not isinstance(node.left, ast.Constant) or \
                isinstance(node, ast.BinOp) and type(node.op) in BIN and not isinstance(getattr(node.left, "value", 0), str):
            if isinstance(node, ast.BinOp) and type(node.op) in BIN:
                def ap(n=node):
                    n.op = BIN[type(n.op)]()
                out.append(Site("arith", ln, f"{type(node.op).__name__}->{BIN[type(node.op)].__name__}", ap))
        if isinstance(node, ast.BoolOp):
            def ap(n=node):
                n.op = ast.Or() if isinstance(n.op, ast.And) else ast.And()
            out.append(Site("bool", ln, "and<->or", ap))
        if isinstance(node, ast.Constant) and isinstance(node.value, (int, float)) and not isinstance(node.value, bool):
            def ap(n=node):
                n.value = n.value + 1 if n.value != 1 else 0
            out.append(Site("const", ln, f"{node.value}->{node.value + 1 if node.value != 1 else 0}", ap))
        if isinstance(node, ast.UnaryOp) and isinstance(node.op, ast.Not):
            def ap(n=node):
                n.op = ast.UAdd()  # `not x` -> `+x` is wrong for non-numbers; replaced below by the operand itself
            # replace by operand: handled through parent rewrite below
        if isinstance(node, (ast.If, ast.While)) and not isinstance(node.test, ast.Constant):
            def ap(n=node):
                n.test = ast.UnaryOp(op=ast.Not(), operand=n.test)
            out.append(Site("negate", ln, "condition negated", ap))
        if isinstance(node, (ast.Continue, ast.Break)):
            def ap(n=node):
                n.__class__ = ast.Pass
            out.append(Site("flow", ln, f"{type(node).__name__.lower()} removed", ap))
        if isinstance(node, ast.Expr) and isinstance(node.value, ast.Call):
            txt = ast.unparse(node.value.func)
            if not txt.startswith("log.") and txt not in ("print",):
                def ap(n=node):
                    n.value = ast.Constant(value=None)
                out.append(Site("delcall", ln, f"call {txt}(...) removed", ap))
        if isinstance(node, ast.AugAssign):
            def ap(n=node):
                n.__class__ = ast.Pass
                n._fields = ()
            out.append(Site("delaug", ln, "augmented assignment removed", ap))
    return out


def make_mutant(src, idx, in_range):
    tree = ast.parse(src)
    ss = sites(tree, in_range)
    if idx >= len(ss):
        return None
    s = ss[idx]
    s.apply()
    try:
        new = ast.unparse(ast.fix_missing_locations(tree))
        ast.parse(new)
    except Exception:
        return None
    return s, new


def main():
    ap = argparse.ArgumentParser()
    ap.add_argument("pid")
    ap.add_argument("--max", type=int, default=120)
    ap.add_argument("--jobs", type=int, default=12)
    ap.add_argument("--seed", type=int, default=1)
    ap.add_argument("--out", default=None)
    ap.add_argument("--also", default="", help="comma separated further checks to run on each mutant")
    ap.add_argument("--files", action="store_true", help="mutate anywhere in the files the property lists (not only in the anchored line ranges)")
    ap.add_argument("--cross", action="store_true", help="run every other claimed check on the mutants the property's own check leaves silent")
    a = ap.parse_args()
    rng = ranges_of(a.pid)
    if a.files:
        for line in open(os.path.join(VERIF, "properties.jsonl")):
            d = json.loads(line)
            if d["id"] == a.pid:
                rng = {f: [(1, 10 ** 6)] for f in d["anchors"].get("files", []) if f.endswith(".py") and "/tests/" not in f}
    cand = []
    for path, rs in rng.items():
        src = open(os.path.join("/repo", path)).read()

        def in_range(ln, rs=rs):
            return any(lo - 2 <= ln <= hi + 2 for lo, hi in rs)

        n = len(sites(ast.parse(src), in_range))
        cand += [(path, i) for i in range(n)]
    random.Random(a.seed).shuffle(cand)
    cand = cand[: a.max]
    checks = [a.pid] + [c for c in a.also.split(",") if c]
    base = "/tmp/automut"
    os.makedirs(base, exist_ok=True)

    def run(job, checks=checks):
        k, (path, idx) = job
        rs = rng[path]
        src = open(os.path.join("/repo", path)).read()
        # unparse normalises the whole file: compare against the normalised original so that only the mutation differs
        mm = make_mutant(src, idx, lambda ln: any(lo - 2 <= ln <= hi + 2 for lo, hi in rs))
        if mm is None:
            return None
        site, new = mm
        scr = os.path.join(base, f"{a.pid}_{k}")
        shutil.rmtree(scr, ignore_errors=True)
        os.makedirs(os.path.join(scr, "aldy"))
        for fn in os.listdir("/repo/aldy"):
            if fn.endswith(".py"):
                shutil.copy(os.path.join("/repo/aldy", fn), os.path.join(scr, "aldy", fn))
        open(os.path.join(scr, path), "w").write(new)
        verdict = {}
        for c in checks:
            env = dict(os.environ, ALDY_REPO=scr, VERIF_NOEVIDENCE="1")
            try:
                p = subprocess.run([os.path.join(VERIF, "check"), c], capture_output=True, text=True, env=env, timeout=600, cwd=VERIF)
                verdict[c] = {0: "silent", 1: "VIOLATION", 2: "ERROR"}.get(p.returncode, str(p.returncode))
            except subprocess.TimeoutExpired:
                verdict[c] = "TIMEOUT"
        shutil.rmtree(scr, ignore_errors=True)
        line = src.splitlines()[site.lineno - 1].strip() if site.lineno - 1 < len(src.splitlines()) else ""
        return dict(k=k, path=path, line=site.lineno, kind=site.kind, what=site.describe, source=line[:110], verdict=verdict)

    with ThreadPoolExecutor(a.jobs) as ex:
        results = [r for r in ex.map(run, list(enumerate(cand))) if r]
    killed = [r for r in results if any(v in ("VIOLATION",) for v in r["verdict"].values())]
    errors = [r for r in results if r not in killed and any(v in ("ERROR", "TIMEOUT") for v in r["verdict"].values())]
    surv = [r for r in results if r not in killed and r not in errors]
    killed = [r for r in results if any(v in ("VIOLATION",) for v in r["verdict"].values())]
    errors = [r for r in results if r not in killed and any(v in ("ERROR", "TIMEOUT") for v in r["verdict"].values())]
    surv = [r for r in results if r not in killed and r not in errors]
    if a.cross:
        others = [c["property_id"] for c in json.load(open(os.path.join(VERIF, "MANIFEST.json")))["checks"] if c["property_id"] != a.pid]
        index = {r["k"]: r for r in surv}
        jobs = [(r["k"], cand[r["k"]]) for r in surv]
        with ThreadPoolExecutor(a.jobs) as ex:
            for r2 in ex.map(lambda j: run(j, others), jobs):
                if r2 and r2["k"] in index:
                    index[r2["k"]]["cross"] = [c for c, v in r2["verdict"].items() if v == "VIOLATION"]
    print(f"{a.pid}: {len(results)} mutants in the anchored ranges: {len(killed)} reported as violations, {len(errors)} analysis errors (no verdict), {len(surv)} silent")
    for r in sorted(surv, key=lambda r: (r["path"], r["line"])):
        print(f"  SILENT {r['path']}:{r['line']} [{r['kind']}] {r['what']} :: {r['source']}" + (f"   <- caught by {','.join(r['cross'])}" if r.get("cross") else ""))
    for r in sorted(errors, key=lambda r: (r["path"], r["line"])):
        print(f"  ERROR  {r['path']}:{r['line']} [{r['kind']}] {r['what']} :: {r['source']}")
    if a.out:
        json.dump(results, open(a.out, "w"), indent=1)


if __name__ == "__main__":
    main()
