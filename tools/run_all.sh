#!/bin/bash
# usage: run_all.sh [quick|thorough]  -- run every claimed check against /repo and summarise
cd /verif; tier="${1:-quick}"; rc=0
for f in checks/c*.py; do c="$(basename "$f" .py | tr a-z A-Z)"; o="$(./check "$c" --tier "$tier" 2>&1)"; r=$?; echo "$o" | grep -E "^(RESULT|selftest|CHECKER|ANALYSIS|VIOLATION)"; [ $r -gt $rc ] && rc=$r; done; exit $rc
