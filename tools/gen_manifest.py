#!/venv/bin/python
"""Regenerate MANIFEST.json from the check modules that exist (keeps the manifest valid at all times)."""
import importlib
import json
import os
import sys

HERE = os.path.dirname(os.path.dirname(os.path.abspath(__file__)))
sys.path.insert(0, HERE)

NA = {
    "C01": "end-to-end numerical correctness on simulated reads (alignment parsing x normalisation x three ILP "
           "optima): no clause of its own is visible in code shape; its structural prerequisites are decided under "
           "C02-C08 and C10. A static verdict would be a runtime test wearing a static label.",
    "C13": "equality of solutions and scores across genome builds / strands relates two executions through the "
           "solver; its structural prerequisites (orientation, offsets, inverse maps) are decided under C08, the "
           "remainder is a runtime relation.",
}

TECH = {
    "C02": "whole-function folding of solve_major_model and the lifted solver wrapper class against a recording MILP-library stand-in; with an unbounded gap the routine's own report lists every combination the model admits, compared with an independent enumeration of the statement's admissible combinations and their fit errors; gap reports; _filter_alleles / estimate_major folded whole",
    "C03": "whole-function folding of solve_cn_model and the lifted solver wrapper class against a recording MILP-library stand-in; the extracted model is enumerated exhaustively (own simplex for the continuous part) and compared pointwise with an independent reference of the documented model; report checked clause by clause; routes by folding estimate_cn, _parse_user_solution, the database loader and genotype()",
    "C04": "whole-function folding of solve_minor_model and the lifted solver wrapper against a recording MILP-library stand-in; every assignment the built model admits is obtained through the routine's own read-out (the wrapper instance is given an exhaustive `solutions`), checked against the statement's clauses and compared with an independent enumeration (admitted set, objective incl. read-group disagreement); reports for max_solutions 1 and 3; estimate_minor folded whole (pooling of candidates and considered variants; the per-structure filter applied at once keeps every considered variant)",
    "C05": "the solver wrapper class (abssum, prod, solutions, CBC.*) lifted and run against a recording library on seeded random small models of the shape aldy builds: yields vs exhaustive evaluation (optimum, feasibility, gap, no repetition, order, superset rule), helper exactness; plus truth-table folding of the gadget constraints, typestate of the enumerator, CBC status/read-back table, name escaping",
    "C06": "per-op tables of the CIGAR walkers derived by folding the parser on one tiny read per op vs the SAM consumes-reference/query table; _load_sam folded whole on read stubs (eligibility, index independence, argument order); strict half-open region predicate on an interval grid; quality binning calibrated through the fold; out-of-gene folding; accessor table of the lifted Coverage class; depth conservation end to end (several reads through the lifted parser, coverage construction, Coverage constructor and accessors on a partly mapped gene vs an independent CIGAR interpreter)",
    "C07": "formula of the lifted normalisation routine folded on sample depth tables (monomial, k-fold invariance, self-profile = 2.0 through the profile writer folded whole on synthesised reads, incl. a sparse sample with the neutral region on another chromosome); sibling depth-counter agreement per CIGAR op and per SAM flag class (loaders folded whole); zero-guard; estimate_cn folded whole for the consumer",
    "C08": "lifted coordinate converter folded on generated variants of every kind x strand (sequence-level haplotype equality) plus a syntactic per-kind strand offset table as linear forms over len(); inverse maps and lookup sequence vs an independent reading of the alignment string; stored-notation readers; indel bridge: _realign_indels folded whole on a plain and a repeat-rich reference with brute-force equivalent placements, parser lookups counted semantically; class-level attributes are shared state across the folds of a run",
    "C09": "bounded partial evaluation of the lifted database loader on generated gene databases (two builds, opposite strands, fusions, deletion, duplicates; thorough: seeded random allele tables); loaded catalogue checked clause by clause against an independent reading of the database",
    "C10": "whole-function folding of genotype() and estimate_minor() with recording stubs for every collaborator over fixed and seeded scenarios of stage results; outcome compared with an independent reading of the statement (carried differences, rescaling, relative filter, order, chain, empty-stage error)",
    "C11": "bounded-exhaustive partial evaluation of the lifted arrangement function and name renderers on every multiset of up to 3 (thorough 5) alleles in every order, checked clause by clause against an independent reading",
    "C12": "whole-function folding of the two file writers on sample solutions (rows/records per copy, identical copies, lost and gained variants, two solutions) and of genotype() for the output dispatch; replicated-mutable-cell rule; REF/ALT derivation per kind branch",
    "C14": "interprocedural mutation-effect / alias analysis over the call graph (who may write catalogue and evidence); late-bound closure capture via symtable; hash-order taint; write-only debug store; multi-gene and call-history independence by whole-function folding of genotype() with module helpers and cache decorators modelled",
    "C15": "Coverage typestate dataflow (quality filter before every model read); quality predicate and `filtered` store folded on grids (incl. reference-only low-quality sites); threshold formula on 1260 grid points; both stage closures captured by folding the stages whole (one and two structures, a handed-over novel variant)",
    "C16": "loader/consumer agreement on indel bookkeeping; _load_vcf folded whole on a variant-file stub (21 record kinds incl. padded, other-shape and insertion records, sample index; thorough: generated records vs an independent reading); constructor route (Sample.__init__ folded whole) and indel-table consumer scenarios; genotype() folded whole for the fixed two-copy structure",
    "C17": "positional agreement of pickled / unpickled tuple by role; codec pairs; completeness of dumped state; purity of what runs between loader and dump writer (folded on sample tables); writer -> reader -> coverage construction folded whole; original run vs replay through genotype() folded whole; archive route end to end on a file-system model (main --debug folded whole on an argparse model, Sample.__init__ folded whole, archive members of three genes read back by the lifted detect_genome and _load_dump)",
    "C18": "the Profile class (constructor, typed update, loader, profile writer) lifted with Python calling convention and folded over all parameters x spellings x routes (API, options section, precedence, write/load round trip, history); genotype() and the command-line driver folded whole for the routes; sibling --param parsers",
    "C19": "whole-function folding of genotype() over input kind x structure given/estimated x depth x minimum x output style (error before any stage, closed simple-output line); estimate_cn folded whole over depth tables; empty-neutral-region and diploid-depth guards by CFG dominance and by folding Sample.__init__ whole",
}

BASE = ("cd /repo && /venv/bin/python -m pytest -ra -q -p no:cacheprovider --timeout=900 "
        "--continue-on-collection-errors aldy")


def main():
    from checks import CLAIMED

    checks, na = [], []
    for pid in CLAIMED:
        p = os.path.join(HERE, "checks", pid.lower() + ".py")
        if not os.path.exists(p):
            na.append({"property_id": pid,
                       "reason": "not claimed in this revision: the static check designed in DESIGN.md section 3 "
                                 "is not implemented yet (pending, not a limit of the technique)"})
            continue
        m = importlib.import_module(f"checks.{pid.lower()}")
        checks.append({
            "property_id": pid,
            "quick_cmd": f"./check {pid}",
            "thorough_cmd": f"./check {pid} --tier thorough",
            "evidence_file": f"/verif/evidence/{pid}.json",
            "replay_cmd_template": f"./check {pid} --replay {{path}}",
            "engine": "sa",
            "level_claimed": {
                "category": "other",
                "text": "Static analysis of the current source: AST, statement CFG with dominators and route pruning, reaching "
                        "definitions, effect/alias summaries, linear normal forms of model templates, and partial "
                        "evaluation (folding) of lifted fragments in the checker's own interpreter over enumerated sample "
                        "domains -- nothing of the repository is imported or executed. Every rule instance is an obligation "
                        "discharged on every run. The rules decide a named structural part of the property that is a "
                        "necessary condition of the behaviour: dominance/effect/typestate/template rules hold for every "
                        "input because they do not mention one; folded tables hold on the enumerated domain stated in the "
                        "evidence. Neither decides a solver optimum or the equality of two runs. " + m.EXPLANATION,
                "design_ref": f"DESIGN.md section 3, {pid}",
            },
            "level_note": "Trusted base: Python's ast parser; the rule/spec tables in checks/" + pid.lower() +
                          ".py (each line tied to a clause of the property, confirmed by reading); external libraries "
                          "do not mutate arguments; CBC solves the model it is given. " +
                          " ".join(getattr(m, "ASSUMPTIONS", [])),
            "technique": TECH[pid],
        })
    for pid, r in NA.items():
        na.append({"property_id": pid, "reason": r})
    na.sort(key=lambda x: x["property_id"])
    man = {
        "version": 1,
        "setup_cmd": "/venv/bin/python -c \"import ast, sys; sys.path.insert(0, '/verif'); import sa.loader, sa.cfg, sa.fold\"",
        "hooks": {
            "guard": "ALDY_VERIF",
            "enable": "none: static analysis reads /repo's source as it is on disk; no instrumentation exists (guard name reserved, unused)",
            "baseline_off_cmd": BASE,
            "source_commits": [],
            "add_only": True,
        },
        "engines": [{
            "name": "sa",
            "path": "/verif/sa",
            "serves_properties": [c["property_id"] for c in checks],
            "kind_free_text": "repository-specific static analysis on Python's ast: statement CFG + dominators, "
                              "def-use expansion, linear/monomial normal forms, finite-domain folding of lifted "
                              "fragments, effect/alias summaries over the call graph, agreement tables between sibling sites",
        }],
        "checks": checks,
        "notes": "All checks parse /repo/aldy/*.py on every run (ALDY_REPO overrides the root for scratch copies), "
                 "import nothing from the repository and run no test. Exit 2 + 'ANALYSIS-ERROR' = anchor vanished / "
                 "construct outside a rule's language (no verdict). Known findings: /verif/known_findings.json. "
                 "fix: commits in /repo are recorded there as 'fixed' entries. Thorough tier = quick + arming self-test "
                 "with in-memory breaking/benign edits (reported as CHECKER-WARNING only).",
        "not_applicable": na,
    }
    with open(os.path.join(HERE, "MANIFEST.json"), "w") as f:
        json.dump(man, f, indent=1)
        f.write("\n")
    print(f"MANIFEST.json: {len(checks)} checks, {len(na)} not applicable")


if __name__ == "__main__":
    main()
