#!/bin/bash
# usage: verify_seed.sh <seed_dir> [jobs]   -- confirm a seeded change in a scratch worktree:
#   demo passes on pristine tree, fails with the patch, full suite passes with the patch.
# Writes <seed_dir>/verified.txt. The scratch worktree is removed afterwards.
set -u
sd="$(cd "$1" && pwd)"; jobs="${2:-6}"
id="$(basename "$sd")"
wt="/tmp/vs/$id"
rm -rf "$wt"; mkdir -p /tmp/vs
/verif/tools/mkworktree.sh "$wt" >/dev/null || { echo "worktree failed"; exit 2; }
demo="$(ls "$sd"/demo.py "$sd"/test_demo.py 2>/dev/null | head -1)"
out="$sd/verified.txt"; : > "$out"
cd "$wt"
timeout 600 /venv/bin/python "$demo" >/tmp/vs/$id.pristine.log 2>&1; p=$?
echo "demo on pristine: exit $p" | tee -a "$out"
if ! git apply --check "$sd/patch.diff" 2>/dev/null; then echo "patch does not apply" | tee -a "$out"; fi
git apply "$sd/patch.diff"
timeout 600 /venv/bin/python "$demo" >/tmp/vs/$id.patched.log 2>&1; q=$?
echo "demo with patch: exit $q" | tee -a "$out"
timeout 1800 /venv/bin/python -m pytest -q -p no:cacheprovider --timeout=900 -n "$jobs" aldy >/tmp/vs/$id.suite.log 2>&1
s="$(tail -1 /tmp/vs/$id.suite.log)"
echo "suite with patch: $s" | tee -a "$out"
cd /; git -C /repo worktree remove --force "$wt"
if [ $p -eq 0 ] && [ $q -ne 0 ] && echo "$s" | grep -q "^77 passed"; then echo "CONFIRMED" | tee -a "$out"; else echo "NOT-CONFIRMED" | tee -a "$out"; fi
