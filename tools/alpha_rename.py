#!/venv/bin/python
"""Behaviour-preserving probe: consistently rename every local variable of every function of one module
(parameters, globals, builtins and attribute names are left alone) and write the module to a scratch tree.
usage: alpha_rename.py <module> <scratch-root>"""
import ast
import os
import shutil
import sys


class Renamer(ast.NodeTransformer):
    def __init__(self, names):
        self.names = names

    def visit_Name(self, n):
        if n.id in self.names:
            n.id = n.id + "_r"
        return n

    def visit_FunctionDef(self, n):
        if n.name in self.names:
            n.name = n.name + "_r"
        self.generic_visit(n)
        return n

    def visit_ExceptHandler(self, n):
        if n.name and n.name in self.names:
            n.name = n.name + "_r"
        self.generic_visit(n)
        return n


def locals_of(f):
    a = f.args
    params = {x.arg for x in a.posonlyargs + a.args + a.kwonlyargs}
    if a.vararg:
        params.add(a.vararg.arg)
    if a.kwarg:
        params.add(a.kwarg.arg)
    stored = set()
    inner_params = set()
    for n in ast.walk(f):
        if isinstance(n, ast.Name) and isinstance(n.ctx, (ast.Store, ast.Del)):
            stored.add(n.id)
        elif isinstance(n, (ast.FunctionDef, ast.Lambda)) and n is not f:
            ia = n.args
            inner_params |= {x.arg for x in ia.posonlyargs + ia.args + ia.kwonlyargs}
            if isinstance(n, ast.FunctionDef):
                stored.add(n.name)
        elif isinstance(n, ast.ExceptHandler) and n.name:
            stored.add(n.name)
        elif isinstance(n, (ast.Global, ast.Nonlocal)):
            params |= set(n.names)
    # names used as keyword-argument names or attributes are untouched (they are not Name nodes)
    return stored - params - inner_params - {"_"}


def main():
    mod, root = sys.argv[1], sys.argv[2]
    src = open(f"/repo/aldy/{mod}.py").read()
    tree = ast.parse(src)
    for node in ast.walk(tree):
        if isinstance(node, ast.ClassDef):
            for f in node.body:
                if isinstance(f, ast.FunctionDef):
                    Renamer(locals_of(f)).visit(f) if False else None
    # rename per top-level function / method (nested functions share the enclosing function's renaming)
    def handle(f):
        names = locals_of(f)
        r = Renamer(names)
        for st in f.body:
            r.visit(st)
        for d in f.args.defaults + f.args.kw_defaults:
            pass
    for node in tree.body:
        if isinstance(node, ast.FunctionDef):
            handle(node)
        elif isinstance(node, ast.ClassDef):
            for f in node.body:
                if isinstance(f, ast.FunctionDef):
                    handle(f)
    os.makedirs(f"{root}/aldy", exist_ok=True)
    for fn in os.listdir("/repo/aldy"):
        if fn.endswith(".py"):
            shutil.copy(f"/repo/aldy/{fn}", f"{root}/aldy/{fn}")
    open(f"{root}/aldy/{mod}.py", "w").write(ast.unparse(tree) + "\n")
    compile(open(f"{root}/aldy/{mod}.py").read(), mod, "exec")


if __name__ == "__main__":
    main()
