#!/usr/bin/env python3
"""usage: mkprompt.py <property id> <old suffix> <new suffix>  -- next-round seed prompt from the previous one + summaries of all seeds kept so far"""
import json, glob, os, re, sys
pid, old, new = sys.argv[1:4]
src = open(f"/verif/notes/prompts/{pid}{old}.txt").read()
head = src[:src.index("IMPORTANT — earlier rounds")] if "IMPORTANT — earlier rounds" in src else src[:src.rindex("Name your result directories")]
head = head.replace(f"/tmp/wt/{pid}{old}", f"/tmp/wt/{pid}{new}").replace(f"{pid}_{old}<i>", f"{pid}_{new}<i>") if old else head
intro = re.search(r"IMPORTANT — earlier rounds[^\n]*\n", src)
intro = intro.group(0) if intro else ("IMPORTANT — earlier rounds already produced the following changes for this property; do NOT repeat them or close variants of them; pick DIFFERENT mechanisms, sites or failure modes (prefer: two cooperating sites that each look fine alone; state that leaks between calls; an 'equivalent-looking' refactor that is wrong in a corner case; a changed default or constant that only matters for unusual configurations; a helper extracted into a new function or method with a subtle difference; a change in a module the property's anchors only reach indirectly):\n")
lines = []
for d in sorted(glob.glob(f"/verif/seeded/{pid}_*")):
    try:
        m = json.load(open(os.path.join(d, "meta.json")))
        lines.append("- " + str(m.get("summary", ""))[:330].replace("\n", " "))
    except Exception:
        pass
out = head + intro + "\n".join(lines) + f"\n\nName your result directories {pid}_{new}1, {pid}_{new}2, {pid}_{new}3 (under the worktree's _seeds/ directory).\n"
out = out.replace(f"{pid}_{old}1", f"{pid}_{new}1") if old else out
out = re.sub(rf"/tmp/wt/{pid}[a-z]?\b", f"/tmp/wt/{pid}{new}", out)
out = re.sub(rf"{pid}_[a-z]?<i>", f"{pid}_{new}<i>", out)
open(f"/verif/notes/prompts/{pid}{new}.txt", "w").write(out)
print(pid, new, len(lines), "previous changes listed;", len(out), "chars")
