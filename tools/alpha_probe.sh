#!/bin/bash
# usage: alpha_probe.sh [module...]  -- rename every local of one module (behaviour-preserving), run every check on the copy;
# a VIOLATION here is a false alarm of the checker (a rule that depends on a local name), exit-2 = rule lost its anchor
mods="${@:-cn major minor genotype sam coverage gene diplotype profile solutions common}"
for m in $mods; do
  scr="/tmp/alpha/$m"; rm -rf "$scr"; mkdir -p "$scr"
  /venv/bin/python /verif/tools/alpha_rename.py "$m" "$scr" >/dev/null || { echo "$m: rename failed"; continue; }
  hits=""
  for f in /verif/checks/c*.py; do
    c="$(basename "$f" .py | tr a-z A-Z)"
    o="$(cd /verif && ALDY_REPO="$scr" VERIF_NOEVIDENCE=1 ./check "$c" 2>&1)"; rc=$?
    if [ $rc -eq 1 ]; then hits="$hits $c[VIOLATION:$(echo "$o" | grep -oE '  C[0-9]+\.R[0-9]+  ' | sort -u | tr -d ' ' | paste -sd, -)]"; fi
    if [ $rc -eq 2 ]; then hits="$hits $c[ERR:$(echo "$o" | grep -oE 'ANALYSIS-ERROR property=C[0-9]+ C[0-9]+\.R[0-9]+' | sed 's/.* //' | sort -u | paste -sd, -)]"; fi
  done
  echo "$m:${hits:- silent}"
  rm -rf "$scr"
done
