#!/venv/bin/python
"""False-alarm probe by construction: small *behaviour-preserving* syntactic rewrites at random sites of one module; every
check must stay silent (exit 0) on each of them.

Rewrites (each preserves the evaluation order of sub-expressions with effects, or only touches pure operands):
  cmpflip   a < b  ->  b > a  (also <=, >, >=, ==, !=) when both operands are names / attributes / constants / subscripts of those
  ifelse    if c: A else: B  ->  if not c: B else: A      (only when there is an else branch and no elif chain)
  ternary   x if c else y  ->  y if not c else x
  demorgan  `not (a and b)` <-> `not a or not b` on an `if` / `while` test that is a BoolOp (negation pushed in, wrapped in `not`)
  kwreorder f(..., a=x, b=y)  ->  f(..., b=y, a=x) when every keyword value is pure (name / attribute / constant)
  noop      an unused assignment `_probe_unused_ = 0` inserted before a statement of a function body
  chain     a <= x < b  ->  a <= x and x < b when x is a name

usage: equiv_probe.py <module> [--max N] [--jobs J] [--seed S] [--checks C02,C03,...]
Scratch copies live under /tmp/equivprobe and are removed. Nothing under /repo or /verif is written.
"""
import argparse
import ast
import json
import os
import random
import shutil
import subprocess
import sys
from concurrent.futures import ThreadPoolExecutor

VERIF = os.path.dirname(os.path.dirname(os.path.abspath(__file__)))
FLIP = {ast.Lt: ast.Gt, ast.Gt: ast.Lt, ast.LtE: ast.GtE, ast.GtE: ast.LtE, ast.Eq: ast.Eq, ast.NotEq: ast.NotEq}


def pure(e):
    if isinstance(e, (ast.Name, ast.Constant)):
        return True
    if isinstance(e, ast.Attribute):
        return pure(e.value)
    if isinstance(e, ast.Subscript):
        return pure(e.value) and pure(e.slice)
    if isinstance(e, ast.Tuple):
        return all(pure(x) for x in e.elts)
    if isinstance(e, ast.UnaryOp) and isinstance(e.op, (ast.USub, ast.Not)):
        return pure(e.operand)
    return False


def negate(e):
    return ast.UnaryOp(op=ast.Not(), operand=e)


def sites(tree):
    out = []
    for node in ast.walk(tree):
        if isinstance(node, ast.Compare) and len(node.ops) == 1 and type(node.ops[0]) in FLIP and pure(node.left) and pure(node.comparators[0]):
            def ap(n=node):
                n.left, n.comparators = n.comparators[0], [n.left]
                n.ops = [FLIP[type(n.ops[0])]()]
            out.append(("cmpflip", node.lineno, ap))
        if isinstance(node, ast.Compare) and len(node.ops) == 2 and isinstance(node.comparators[0], ast.Name) and pure(node.left) and pure(node.comparators[1]):
            def ap(n=node):
                a, x, b = n.left, n.comparators[0], n.comparators[1]
                first = ast.Compare(left=a, ops=[n.ops[0]], comparators=[x])
                second = ast.Compare(left=ast.Name(id=x.id, ctx=ast.Load()), ops=[n.ops[1]], comparators=[b])
                n.__class__ = ast.BoolOp
                n._fields = ("op", "values")
                n.op, n.values = ast.And(), [first, second]
            out.append(("chain", node.lineno, ap))
        if isinstance(node, ast.If) and node.orelse and not (len(node.orelse) == 1 and isinstance(node.orelse[0], ast.If)):
            def ap(n=node):
                n.test = negate(n.test)
                n.body, n.orelse = n.orelse, n.body
            out.append(("ifelse", node.lineno, ap))
        if isinstance(node, ast.IfExp):
            def ap(n=node):
                n.test = negate(n.test)
                n.body, n.orelse = n.orelse, n.body
            out.append(("ternary", node.lineno, ap))
        if isinstance(node, (ast.If, ast.While)) and isinstance(node.test, ast.BoolOp) and not isinstance(node, ast.IfExp):
            def ap(n=node):
                t = n.test
                inner = ast.BoolOp(op=ast.Or() if isinstance(t.op, ast.And) else ast.And(), values=[negate(v) for v in t.values])
                n.test = negate(inner)
            out.append(("demorgan", node.lineno, ap))
        if isinstance(node, ast.Call) and len(node.keywords) >= 2 and all(k.arg is not None and pure(k.value) for k in node.keywords):
            def ap(n=node):
                n.keywords = list(reversed(n.keywords))
            out.append(("kwreorder", node.lineno, ap))
        if isinstance(node, (ast.FunctionDef,)) and len(node.body) > 1:
            for i, st in enumerate(node.body[1:], 1):
                if isinstance(st, (ast.Assign, ast.If, ast.For, ast.Expr, ast.Return)):
                    def ap(n=node, i=i):
                        n.body.insert(i, ast.Assign(targets=[ast.Name(id="_probe_unused_", ctx=ast.Store())], value=ast.Constant(value=0), lineno=0))
                    out.append(("noop", st.lineno, ap))
                    break
    return out


def main():
    ap = argparse.ArgumentParser()
    ap.add_argument("module")
    ap.add_argument("--max", type=int, default=40)
    ap.add_argument("--jobs", type=int, default=10)
    ap.add_argument("--seed", type=int, default=1)
    ap.add_argument("--checks", default="")
    a = ap.parse_args()
    path = os.path.join("/repo/aldy", a.module + ".py")
    src = open(path).read()
    n = len(sites(ast.parse(src)))
    idx = list(range(n))
    random.Random(a.seed).shuffle(idx)
    idx = idx[: a.max]
    checks = [c for c in a.checks.split(",") if c] or [c["property_id"] for c in json.load(open(os.path.join(VERIF, "MANIFEST.json")))["checks"]]
    base = "/tmp/equivprobe"
    os.makedirs(base, exist_ok=True)

    def run(i):
        tree = ast.parse(src)
        ss = sites(tree)
        kind, line, apply = ss[i]
        apply()
        try:
            new = ast.unparse(ast.fix_missing_locations(tree))
            ast.parse(new)
        except Exception as e:  # noqa
            return None
        scr = os.path.join(base, f"{a.module}_{i}")
        shutil.rmtree(scr, ignore_errors=True)
        os.makedirs(os.path.join(scr, "aldy"))
        for fn in os.listdir("/repo/aldy"):
            if fn.endswith(".py"):
                shutil.copy(os.path.join("/repo/aldy", fn), os.path.join(scr, "aldy", fn))
        open(os.path.join(scr, "aldy", a.module + ".py"), "w").write(new)
        bad = []
        for c in checks:
            env = dict(os.environ, ALDY_REPO=scr, VERIF_NOEVIDENCE="1")
            try:
                p = subprocess.run([os.path.join(VERIF, "check"), c], capture_output=True, text=True, env=env, timeout=900, cwd=VERIF)
                if p.returncode != 0:
                    first = next((ln for ln in p.stdout.splitlines() if ln.startswith("ANALYSIS-ERROR") or ln.startswith("aldy/")), "")
                    bad.append(f"{c}[rc={p.returncode}: {first[:150]}]")
            except subprocess.TimeoutExpired:
                bad.append(f"{c}[timeout]")
        shutil.rmtree(scr, ignore_errors=True)
        text = src.splitlines()[line - 1].strip()[:90] if 0 < line <= len(src.splitlines()) else ""
        return kind, line, text, bad

    with ThreadPoolExecutor(a.jobs) as ex:
        results = [r for r in ex.map(run, idx) if r]
    noisy = [r for r in results if r[3]]
    print(f"{a.module}: {len(results)} behaviour-preserving rewrites, {len(results) - len(noisy)} silent on {len(checks)} checks, {len(noisy)} with a non-zero exit")
    for kind, line, text, bad in sorted(noisy, key=lambda r: r[1]):
        print(f"  NOISY {a.module}.py:{line} [{kind}] {text} :: {' '.join(bad)}")


if __name__ == "__main__":
    main()
