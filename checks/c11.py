"""
C11 -- the diplotype is a faithful arrangement of the called alleles.

Decided on a bounded domain, exhaustively: the arrangement function `estimate_diplotype` and the
name renderers of MinorSolution are lifted and folded, in the checker's interpreter, on *every*
multiset of 0..3 (thorough: 0..4, plus a seeded sample of 5-copy multisets) major alleles drawn from a 9-name sample catalogue (plain,
lettered, fused names; three common tandems; gene with and without a deletion allele) in *every*
permutation order.  Checked per arrangement: (R1) every copy exactly once, both haplotypes non-empty
from two copies on, deletion placeholders exactly for the missing haplotypes; (R2) names shown =
called major allele with the fusion suffix removed and novel core variants appended; (R3) a common
tandem is adjacent on one haplotype when more than two copies are called; (R4) natural order of
haplotypes and of the units within them; (R5) for one or two copies the string does not depend on
the production order.
Not decided: multisets beyond the bound; catalogues whose names fall outside the sample's shapes.
"""

import ast
import collections
import itertools
import re

from sa.fold import Evaluator, Obj, Raised, Unfoldable
from sa.loader import AnalysisError, walk_local
from sa.report import thorough

PROPERTY = "C11"
EXPLANATION = (
    "Bounded-exhaustive partial evaluation: diplotype::estimate_diplotype, solutions::MinorSolution.get_major_name / "
    "get_major_diplotype / get_minor_name are lifted and folded on every multiset of up to 3 (thorough: 5) alleles from "
    "a 9-name sample catalogue, in every permutation, with and without a deletion allele (natsorted and re.split are "
    "supplied as pure functions). Each arrangement is checked against the clauses of the statement by an independent "
    "reading (partition, non-empty haplotypes, deletion placeholders, tandem adjacency, natural order, order independence)."
)
ASSUMPTIONS = ["natsort's default ordering is modelled as digit/non-digit chunk comparison (the names in the domain are of the "
               "shapes <number>, <number><letters>, <number>#<number>)",
               "the claim is bounded: multisets of at most 3 (quick) / 5 (thorough) copies"]

CATALOGUE = ["1", "2", "4", "4N", "5", "10", "36", "68#2", "13"]  # "5" doubles as the deletion allele when the gene has one
TANDEMS = [("36", "10"), ("68", "4"), ("13", "1")]


def natkey(x):
    if isinstance(x, (list, tuple)):
        return [natkey(y) for y in x]
    return [int(t) if t.isdigit() else t for t in re.split(r"(\d+)", str(x))]


def natsorted(it, key=None):
    return sorted(it, key=(lambda v: natkey(key(v))) if key else natkey)


def number_of(name):
    """Allele number of a shown name ('4N' -> '4', '68' -> '68')."""
    c = re.split(r"(\d+)", name)
    return c[0] if c[0] != "" else c[1]


def shown(m):
    return m.split("#")[0]


def fold_arrangement(f, majors, del_allele):
    sol = [Obj(major=m) for m in majors]
    store = {}

    def name(i):
        return del_allele if i == -1 else shown(sol[i].major)

    def set_diplotype(d):
        # as MinorSolution.set_diplotype: the arrangement is kept on the solution (readable as `solution.diplotype`)
        store["d"] = d
        solution.diplotype = d

    solution = Obj(solution=sol, get_major_name=name, set_diplotype=set_diplotype, diplotype=None)
    gene = Obj(deletion_allele=lambda: del_allele, common_tandems=TANDEMS)
    ev = Evaluator({"gene": gene, "solution": solution}, funcs={"re.split": re.split, "natsorted": natsorted})
    body = [s for s in f.body if not (isinstance(s, ast.Expr) and isinstance(s.value, ast.Constant))]
    kind, val = ev.run(body)
    return kind, val, store.get("d")


def units_sorted(names):
    """Names of one haplotype are in natural order once each adjacent tandem pair is read as one unit."""
    units = []
    i = 0
    while i < len(names):
        if i + 1 < len(names) and (number_of(names[i]), number_of(names[i + 1])) in TANDEMS:
            units.append(names[i])
            i += 2
        else:
            units.append(names[i])
            i += 1
    return all(natkey(units[j]) <= natkey(units[j + 1]) for j in range(len(units) - 1))


def r1345(repo, res):
    f = repo.func("diplotype::estimate_diplotype")
    res.analysed(f)
    import random

    from sa.report import seed

    kmax = 5 if thorough() else 3
    rnd = random.Random(seed())
    n = 0
    bad = collections.OrderedDict()

    def note(rule, msg):
        bad.setdefault(rule, msg)

    try:
        for dela in ("5", None):
            for k in range(0, 6):
                multisets = list(itertools.combinations_with_replacement(CATALOGUE, k))
                if k > kmax:
                    # quick tier: the 4- and 5-copy layers on a sample that always holds the repeated-family multisets (2,2,2,2 / 2,2,2,2,2 ...)
                    same = [ms_ for ms_ in multisets if len(set(ms_)) <= 2]
                    multisets = rnd.sample(same, min(len(same), 25)) + rnd.sample(multisets, 15)
                elif k == 5:
                    multisets = rnd.sample(multisets, 150)  # the 5-copy layer is sampled (seeded), lower layers are exhaustive
                for ms in multisets:
                    outs = set()
                    perms = sorted(set(itertools.permutations(ms)))
                    if k > kmax and len(perms) > 6:
                        perms = rnd.sample(perms, 6)
                    if k == 5 and len(perms) > 20:
                        perms = rnd.sample(perms, 20)
                    for perm in perms:
                        kind, d, stored = fold_arrangement(f, list(perm), dela)
                        n += 1
                        tag = f"alleles {list(perm)} (deletion allele {dela})"
                        if kind != "return" or not isinstance(d, list) or len(d) != 2:
                            note("C11.R1", f"{tag}: {kind} {d}")
                            continue
                        if stored != d:
                            note("C11.R1", f"{tag}: returned {d} but stored {stored}")
                        flat = [i for h in d for i in h]
                        if sorted(i for i in flat if i != -1) != list(range(k)):
                            note("C11.R1", f"{tag}: copies {flat} are not each shown exactly once")
                        if k >= 2 and (not d[0] or not d[1]):
                            note("C11.R1", f"{tag}: a haplotype is empty: {d}")
                        want_del = (2 if k == 0 else 1 if k == 1 else 0) if dela else 0
                        if sum(1 for i in flat if i == -1) != want_del:
                            note("C11.R1", f"{tag}: {sum(1 for i in flat if i == -1)} deletion placeholders, expected {want_del}: {d}")
                        names = tuple(tuple((dela if i == -1 else shown(perm[i])) for i in h) for h in d)
                        outs.add(names)
                        if k > 2:
                            for ta, tb in TANDEMS:
                                na = sum(1 for m in perm if number_of(shown(m)) == ta)
                                nb = sum(1 for m in perm if number_of(shown(m)) == tb)
                                if na and nb:
                                    adj = sum(1 for h in names for a, b in zip(h, h[1:]) if number_of(a) == ta and number_of(b) == tb)
                                    if adj < 1:
                                        note("C11.R3", f"{tag}: tandem *{ta}+*{tb} is not adjacent on one haplotype: {names}")
                        real = [h for h in names if h]
                        if not all(units_sorted(list(h)) for h in real):
                            note("C11.R4", f"{tag}: alleles within a haplotype are not in natural order: {names}")
                        if len(real) == 2 and natkey(list(real[0])) > natkey(list(real[1])):
                            note("C11.R4", f"{tag}: haplotypes are not in natural order: {names}")
                    if k <= 2 and len(outs) > 1:
                        note("C11.R5", f"alleles {list(ms)}: the arrangement depends on the production order: {sorted(outs)}")
    except Unfoldable as e:
        res.err("C11.R1", f"estimate_diplotype outside the folding language: {e}")
        return
    res.count("C11:arrangements folded", n)
    res.floor("C11.R1", "arrangements folded", n, 500)
    clauses = {
        "C11.R1": ("every copy appears exactly once; both haplotypes non-empty from two copies on; the deletion allele is shown exactly for the missing haplotypes",
                   "every copy appears exactly once, both haplotypes are non-empty whenever at least two copies are called, the whole-gene-deletion allele is shown exactly for the missing haplotypes"),
        "C11.R3": ("common tandems are adjacent on one haplotype when more than two copies are called",
                   "alleles listed as a common tandem are placed next to each other on one haplotype when more than two copies are called"),
        "C11.R4": ("haplotypes and the units within them are in natural order", "haplotypes and the alleles within them are in natural order"),
        "C11.R5": ("for one or two copies the arrangement is the same for every production order",
                   "for one or two copies the string does not depend on the order in which the alleles were produced"),
    }
    for rule, (exp, clause) in clauses.items():
        res.ob(rule, f, f, rule not in bad, expected=exp + f" -- on all {n} (multiset, order) pairs up to {kmax} copies",
               found="holds on the whole domain" if rule not in bad else bad[rule], clause=clause, key=rule.split(".")[1] + "-arrangement")


def r2(repo, res):
    gm = repo.func("solutions::MinorSolution.get_major_name")
    gd = repo.func("solutions::MinorSolution.get_major_diplotype")
    gn = repo.func("solutions::MinorSolution.get_minor_name")
    res.analysed(gm, gd, gn)
    Mut = collections.namedtuple("Mutation", ["pos", "op"])
    core, silent = Mut(10, "A>G"), Mut(20, "C>T")
    loose = Mut(30, "G>T")   # function-altering in the database, but part of no allele's definition (the databases' `random` section)
    gene = Obj(deletion_allele=lambda: "5", get_rsid=lambda m, default=True: {core: "rs1", silent: "rs2", loose: "rs3"}[Mut(*m)],
               is_functional=lambda m, infer=True: Mut(*m) in (core, loose), mutations={core: ("P1S",), silent: (None,), loose: ("G9X",)},
               alleles={"4": Obj(func_muts={core}, minors={"4.001": Obj(alt_name="4A")}), "68#2": Obj(func_muts=set(), minors={"68.001#2": Obj(alt_name=None)})})
    sol = [Obj(major="4", minor="4.001", added=[], missing=[silent]), Obj(major="68#2", minor="68.001#2", added=[silent, core], missing=[])]
    me = Obj(solution=sol, major_solution=Obj(cn_solution=Obj(gene=gene)), profile=Obj(display_format=False), diplotype=[[0], [1]])
    body = lambda f: [s for s in f.body if not (isinstance(s, ast.Expr) and isinstance(s.value, ast.Constant))]  # noqa
    try:
        names = []
        for i in (0, 1, -1):
            k, v = Evaluator({"self": me, "i": i}).run(body(gm))
            names.append(v if k == "return" else k)
        ok = names == ["4", "68+rs1", "5"]
        me_l = Obj(solution=[Obj(major="4", minor="4.001", added=[silent, loose], missing=[])], major_solution=Obj(cn_solution=Obj(gene=gene)), profile=Obj(display_format=False))
        k, v = Evaluator({"self": me_l, "i": 0}).run(body(gm))
        if (v if k == "return" else k) != "4+rs3":
            ok = False
            names = names + [f"an added function-altering variant that no allele defines is shown as {v!r}, expected '4+rs3'"]
        # display format (a documented profile parameter): spelling differs, content does not -- a copy without novel core variants
        # is shown by its major name alone, one with novel core variants names the major allele and each of them (not the silent ones)
        me_d = Obj(solution=sol, major_solution=Obj(cn_solution=Obj(gene=gene)), profile=Obj(display_format=True), diplotype=[[0], [1]])
        shown_d = []
        for i in (0, 1):
            k, v = Evaluator({"self": me_d, "i": i}).run(body(gm))
            shown_d.append(v if k == "return" else k)
        okd_ = (shown_d[0] == "4" and isinstance(shown_d[1], str) and re.search(r"(?<![\w.])68(?![\w#.])", shown_d[1]) is not None
                and "rs1" in shown_d[1] and "rs2" not in shown_d[1] and "#" not in shown_d[1])
        if not okd_:
            ok = False
            names = names + [f"display format: copies shown as {shown_d!r}; expected '4' and a name holding 68 and rs1 (not rs2, no fusion suffix)"]
        # fusion suffixes as the shipped databases spell them: digits, digits + letter, sub-allele numbers, generated names
        table = {"4": "4", "68#2": "68", "79#4C": "79", "78#4.021": "78", "13#4.021.ALDY_2": "13", "80#12.002": "80", "4.ALDY_2": "4.ALDY_2", "36#10#2": "36"}
        shown = {}
        for major, want in table.items():
            g2 = Obj(deletion_allele=lambda: "5", get_rsid=gene.get_rsid, is_functional=gene.is_functional, mutations=gene.mutations,
                     alleles={major: Obj(func_muts=set(), minors={})})
            me2 = Obj(solution=[Obj(major=major, minor=major + ".001", added=[], missing=[])], major_solution=Obj(cn_solution=Obj(gene=g2)),
                      profile=Obj(display_format=False))
            k, v = Evaluator({"self": me2, "i": 0}).run(body(gm))
            shown[major] = v if k == "return" else k
        if shown != table:
            ok = False
            names = names + [f"{m} shown as {shown[m]!r}, expected {w!r}" for m, w in table.items() if shown[m] != w]

        def major_name(i):
            return Evaluator({"self": me, "i": i}).run(body(gm))[1]

        me.get_major_name = major_name
        k, dip = Evaluator({"self": me}).run(body(gd))
        me.diplotype = [[-1], [0, 1]]
        k, dip2 = Evaluator({"self": me}).run(body(gd))
        me.diplotype = [[], [0]]
        k, dip3 = Evaluator({"self": me}).run(body(gd))
        okd = dip == "*4 / *68+rs1" and dip2 == "*5 / *4 + *68+rs1" and dip3 == "*4"
        mn = []
        for i, leg in ((0, False), (0, True), (1, False)):
            k, v = Evaluator({"self": me, "i": i, "legacy": leg}).run(body(gn))
            mn.append(v)
        okm = mn == ["4.001 -rs2", "4A -rs2", "68.001#2 +rs1 +rs2"]
    except (Unfoldable, Raised) as e:
        res.err("C11.R2", f"name renderers outside the folding language: {e}")
        return
    res.ob("C11.R2", gm, gm, ok, expected="shown name = called major allele, fusion suffix removed, novel core variants (only those) appended; -1 = the deletion allele",
           found=str(names), clause="the names shown are the called major alleles (fusion suffix removed, novel core variants appended)", key="major-name")
    res.ob("C11.R2", gd, gd, okd, expected="diplotype string: alleles of a haplotype joined by ' + ', haplotypes by ' / ', empty haplotypes omitted",
           found=f"{dip!r}, {dip2!r}, {dip3!r}", key="diplotype-string")
    res.ob("C11.R2", gn, gn, okm, expected="minor name with added (+) and lost (-) variants; legacy notation uses the alternative name",
           found=str(mn), key="minor-name")


def run(repo, res):
    r1345(repo, res)
    r2(repo, res)


MUTANTS = [
    dict(name="R2 fusion suffix stripped only when numeric (seeded C11_b2 shape)", module="solutions", expect="C11.R2",
         edits=[("from typing import List, Dict\n", "import re\nfrom typing import List, Dict\n"),
                ('        n = str(self.solution[i].major).split("#")[0:1]', '        n = [re.sub(r"#\\d+$", "", str(self.solution[i].major))]')]),
    dict(name="benign: fusion suffix stripped with partition", module="solutions", kind="benign",
         old='        n = str(self.solution[i].major).split("#")[0:1]', new='        n = [str(self.solution[i].major).partition("#")[0]]'),
    dict(name="R1 single copy without its deletion partner", module="diplotype", expect="C11.R1",
         old="        elif len(solution.solution) == 1:\n            major_dict[del_allele].append(-1)", new="        elif len(solution.solution) == 1:\n            pass"),
    dict(name="R1 zero copies: early return without deletion placeholders (seed C11_e1)", module="diplotype", expect="C11.R1",
         old="    del_allele = gene.deletion_allele()\n", new="    if not solution.solution:\n        solution.set_diplotype([[], []])\n        return solution.diplotype\n    del_allele = gene.deletion_allele()\n"),
    dict(name="R2 display format drops the novel core variants (automutate survivor)", module="solutions", expect="C11.R2",
         old="        elif len(n) == 1:\n            return n[0]", new="        elif len(n) != 1:\n            return n[0]"),
    dict(name="R1 all copies may stay on one haplotype", module="diplotype", expect="C11.R1",
         old="    if len(diplotype[1]) == 0:\n        if len(diplotype[0]) > 1:", new="    if len(diplotype[1]) == 0 and False:\n        if len(diplotype[0]) > 1:"),
    dict(name="R1 duplicate group drops a copy", module="diplotype", expect="C11.R1",
         old="            diplotype[dc % 2] += items\n            items.clear()\n            dc += 1", new="            diplotype[dc % 2] += items[1:]\n            items.clear()\n            dc += 1"),
    dict(name="R1 deletion placeholder also for two copies", module="diplotype", expect="C11.R1",
         old="        elif len(solution.solution) == 1:\n            major_dict[del_allele].append(-1)", new="        elif len(solution.solution) <= 2:\n            major_dict[del_allele].append(-1)"),
    dict(name="R3 tandem heuristic also for two copies", module="diplotype", expect=["C11.R1", "C11.R5", "C11.R4"],
         old="    if len(solution.solution) > 2:\n        for ta, tb in gene.common_tandems:", new="    if len(solution.solution) >= 2:\n        for ta, tb in gene.common_tandems:"),
    dict(name="R3 tandem heuristic removed", module="diplotype", expect="C11.R3",
         old="    if len(solution.solution) > 2:\n        for ta, tb in gene.common_tandems:", new="    if len(solution.solution) > 99:\n        for ta, tb in gene.common_tandems:"),
    dict(name="R4 final natural sort of haplotypes dropped", module="diplotype", expect=["C11.R4", "C11.R5"],
         old="    diplotype = natsorted(\n        [list(flatten(diplotype[0])), list(flatten(diplotype[1]))],\n        key=lambda x: [solution.get_major_name(y) for y in x],\n    )",
         new="    diplotype = [list(flatten(diplotype[0])), list(flatten(diplotype[1]))]"),
    dict(name="R4 alleles within a haplotype left in production order", module="diplotype", expect=["C11.R4", "C11.R5"],
         old="        for i in natsorted(d, key=key):", new="        for i in d:"),
    dict(name="R2 fusion suffix kept in the shown name", module="solutions", expect="C11.R2",
         old='        n = str(self.solution[i].major).split("#")[0:1]', new='        n = [str(self.solution[i].major)]'),
    dict(name="R2 silent additions appended to the major name", module="solutions", expect="C11.R2",
         old="            if gene.is_functional(m, infer=False):\n                n.append(get_nice_snp_name(m))", new="            if True:\n                n.append(get_nice_snp_name(m))"),
    dict(name="R2 empty haplotype printed", module="solutions", expect="C11.R2",
         old='            " + ".join(f"*{self.get_major_name(i)}" for i in d)\n            for d in self.diplotype\n            if d\n',
         new='            " + ".join(f"*{self.get_major_name(i)}" for i in d)\n            for d in self.diplotype\n'),
    # benign
    dict(name="benign: defaultdict filled with setdefault", module="diplotype", kind="benign",
         old="        major_dict[real].append(ai)", new="        major_dict.setdefault(real, []).append(ai)"),
    dict(name="benign: explicit length test", module="diplotype", kind="benign",
         old="    if len(diplotype[1]) == 0:", new="    if not diplotype[1]:"),
]
