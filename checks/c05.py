"""
C05 -- the ILP layer returns true optima and exact linearisations.

Decided: (R6) the property's quantifier, literally: the wrapper class of /repo (lpinterface.CBC with what it inherits from
Gurobi: abssum, prod, solutions, ...) is run by the analysis' interpreter against a recording stand-in for the MILP
library on seeded random small models of the shape aldy builds; what it yields is compared with the exhaustive evaluation
of the same model (first = optimum, feasible with the reported objective, within the gap, never twice, non-decreasing,
missing within-gap assignments contain a yielded one that scores no worse), `abssum` helpers equal |.| at every yield and
weights (incl. 0) are honoured, `prod` = AND in every feasible point, a non-optimal library status is not handed on, `limit`
bounds the yields, a non-terminating enumeration is reported; (R4) status mapping and typed read-back of CBC, folded with
stubs; (R5) names are escaped/uniquified and solutions are read back through model.varName with prefix tests that select
one family. The fragment rules R1-R3 of the first build (gadget constraints, enumerator typestate on its CFG) were retired
for R6: they fired on behaviour-preserving extractions (seeded refactoring RE_2).
Not decided: global optimality of CBC itself, agreement with other solvers.
"""

import ast
import collections
import itertools

from sa.cfg import cfg_of
from sa.fold import Evaluator, Obj, Raised, Unfoldable, module_consts, single_defs
from sa.guards import exiting_guards, find_calls, fmt_tests, guard_table
from sa.ilp import Model
from sa.linform import Families
from sa.loader import AnalysisError, call_name, calls_in, kwarg, walk_local

PROPERTY = "C05"
EXPLANATION = (
    "The solver wrapper class lifted whole (sa.fold.ClassModel over lpinterface.Gurobi + CBC overrides, module helpers and constants) and run "
    "against sa.lpmodel.Library on 14 (thorough 60) seeded random models: 2-7 binaries, 1-4 free error terms tied by equalities, cardinality and "
    "ordering constraints, an optional product, weighted abssum with explicit zero and fractional weights, gap in {0, .1, .5}; yields compared with "
    "exhaustive enumeration of the model; forced non-optimal statuses; limit. CBC.solve / getValue / is_binary folded with solver stubs over the "
    "status table and variable kinds. Name escaping folded; read-back keyed by varName."
)
ASSUMPTIONS = ["Gurobi is not installed; its wrapper is analysed from source only",
               "ortools' Solver.Solve/VerifySolution/solution_value behave as documented"]


def _body(f):
    return [s for s in f.body if not (isinstance(s, ast.Expr) and isinstance(s.value, ast.Constant))]


class Recorder:
    """Instrumented model stub for gadget folding."""

    def __init__(self, candidates=None, names=None):
        self.cons, self.lbs, self.vals = [], [], []
        self.cand = list(candidates or [])
        self.names = names or {}

    def obj(self):
        me = self

        def addVar(*a, **kw):
            v = me.cand.pop(0)
            me.vals.append(v)
            me.lbs.append(kw.get("lb", 0))
            return v

        def addConstr(c, name=None):
            me.cons.append(bool(c))

        return Obj(addVar=addVar, addConstr=addConstr, update=lambda: None, quicksum=lambda xs: sum(xs),
                   varName=lambda v: me.names.get(v, f"x{v}"))

    def feasible(self):
        return all(self.cons) and all(v >= lb for v, lb in zip(self.vals, self.lbs))


def r4(repo, res):
    f = repo.func("lpinterface::CBC.solve")
    res.analysed(f)
    init = repo.func("lpinterface::CBC.__init__")
    res.analysed(init)

    class SolverStub:
        _fold_ok = True
        OPTIMAL, FEASIBLE, INFEASIBLE, UNBOUNDED, ABNORMAL, NOT_SOLVED = 0, 1, 2, 3, 4, 6
        CBC_MIXED_INTEGER_PROGRAMMING = 77

        def __init__(self, *a):
            self.made = a

        def infinity(self):
            return float("inf")

    S = SolverStub
    # the status table the constructor builds (the constructor folded whole against a stand-in of the library module)
    from sa.fold import Lifted
    try:
        me0 = Obj()
        Lifted(init, funcs={"importlib.import_module": lambda name: Obj(Solver=SolverStub), "collections.defaultdict": collections.defaultdict,
                            "defaultdict": collections.defaultdict, "getattr": getattr})(me0, "M")
        tbl = dict(me0.STATUS) if hasattr(me0, "STATUS") else None
        dflt = me0.STATUS[12345] if tbl is not None else None
    except (Unfoldable, Raised) as e:
        res.err("C05.R4", f"CBC.__init__ outside the folding language: {e}")
        return
    if tbl is None:
        res.err("C05.R4", "CBC status table not found")
        return
    tbl = {k_: v_ for k_, v_ in tbl.items() if k_ != 12345}
    table = collections.defaultdict(lambda: "UNKNOWN", tbl)
    consts = module_consts(repo.mod("lpinterface"))
    rows = []
    ok = True
    for code, ver, want in [(0, True, ("return", "optimal")), (0, False, ("raise", "NoSolutionsError")),
                            (2, True, ("raise", "NoSolutionsError")), (1, True, ("return", "feasible")),
                            (6, True, ("return", "not_solved")), (4, True, ("return", "abnormal"))]:
        from sa.lpmodel import SolverParameters

        model = Obj(Solve=lambda *a_, c=code: c, VerifySolution=lambda *a, v=ver: v, Objective=lambda: Obj(Value=lambda: 7.5))
        me = Obj(model=model, ortools=Obj(Solver=S, MPSolverParameters=SolverParameters), STATUS=table)   # (what parameters do to the answer is decided by R6)
        try:
            k, v = Evaluator({"self": me, "init": None}, consts=consts).run(_body(f))
        except Unfoldable as e:
            res.err("C05.R4", f"CBC.solve outside folding language: {e}")
            return
        got = (k, v[0] if k == "return" else v)
        rows.append(f"status {code}/verified {ver} -> {got}")
        if got != want or (k == "return" and v[1] != 7.5):
            ok = False
    res.ob("C05.R4", f, f, ok, expected="INFEASIBLE or failed verification raise NoSolutionsError; otherwise (lower-cased status name, objective)",
           found="; ".join(rows), clause="every yielded solution is feasible with the objective value reported for it", key="cbc-solve")
    g = repo.func("lpinterface::Gurobi.solve")
    res.analysed(g)
    raises = [n for n in walk_local(g) if isinstance(n, ast.Raise) and "NoSolutionsError" in ast.unparse(n)]
    c = cfg_of(g)
    okg = bool(raises) and any("INFEASIBLE" in ast.unparse(t) and p is True for t, p in c.guards(c.node_of(raises[0]))
                               if isinstance(t, ast.expr))
    res.ob("C05.R4", g, raises[0] if raises else g, okg, expected="Gurobi: INFEASIBLE raises NoSolutionsError", found="ok" if okg else "missing",
           key="gurobi-solve")
    # typed read-back
    gv = repo.func("lpinterface::CBC.getValue")
    ib = repo.func("lpinterface::CBC.is_binary")
    res.analysed(gv, ib)
    consts = dict(module_consts(repo.mod("common")))
    consts.update(module_consts(repo.mod("lpinterface")))

    def var(x, integer, lb=0, ub=1):
        return Obj(solution_value=lambda: x, integer=lambda: integer, lb=lambda: lb, ub=lambda: ub)

    cases = [(var(0.9999999, True), True), (var(1e-9, True), False), (var(1.0, True), True), (var(0.0, True), False),
             (var(2.0000001, True, 0, 5), 2), (var(0.37, False, -1e9, 1e9), 0.37), (var(1.0, False, 0, 1), 1.0)]
    ok = True
    rows = []
    try:
        for v, want in cases:
            k, got = Evaluator({"self": Obj(), "var": v}, consts=consts).run(_body(gv))
            good = k == "return" and got == want and type(got) is type(want)
            rows.append(f"{got!r}")
            ok = ok and good
        for v, want in [(cases[0][0], True), (cases[4][0], False), (cases[5][0], False), (cases[6][0], False)]:
            me = Obj(getValue=lambda x: Evaluator({"self": Obj(), "var": x}, consts=consts).run(_body(gv))[1])
            k, got = Evaluator({"self": me, "v": v}).run(_body(ib))
            ok = ok and k == "return" and got is want
    except (Unfoldable, Raised) as e:
        res.err("C05.R4", f"CBC.getValue / is_binary outside folding language: {e}")
        return
    res.ob("C05.R4", gv, gv, ok,
           expected="0/1 integer variables read back as rounded bool, other integers as rounded int, continuous raw; is_binary iff bool",
           found="read-backs: " + ", ".join(rows), key="typed-readback")


def r5(repo, res):
    f = repo.func("lpinterface::escape_name")
    res.analysed(f)
    try:
        d = collections.defaultdict(int)
        outs = []
        for nm in ["A_1.001_0", "A_1001_0", "N_42126611.C>G", "E_1_REF", "E_1_REF", "K_5_insA_1#2-x"]:
            k, v = Evaluator({"s": nm, "d": d}).run(_body(f))
            outs.append(v)
        ok = len(set(outs)) == len(outs) and all(all(ch not in o for ch in ".>#-") for o in outs)
        k, v = Evaluator({"s": "A_1", "d": None}).run(_body(f))
        ok = ok and v == "A_1"
    except (Unfoldable, Raised) as e:
        res.err("C05.R5", f"escape_name outside folding language: {e}")
        return
    res.ob("C05.R5", f, f, ok, expected="escaped names contain no '.', '>', '#', '-' and are made unique per model",
           found=str(outs), clause="solutions are identified by names", key="escape-unique")
    for cls in ("Gurobi", "CBC"):
        for meth in ("addVar", "addConstr"):
            g = repo.func(f"lpinterface::{cls}.{meth}")
            res.analysed(g)
            cs = [c for c in calls_in(g) if call_name(c) == "escape_name"]
            ok = bool(cs) and all(len(c.args) == 2 and ast.unparse(c.args[1]) == "self.names" for c in cs)
            res.ob("C05.R5", g, cs[0] if cs else g, ok, expected="names go through escape_name(name, self.names)",
                   found=ast.unparse(cs[0]) if cs else "no escape_name call", key=f"escaped:{cls}.{meth}")


def r6(repo, res):
    """The wrapper class folded whole against the recording library on random small models of the shape aldy builds: the solutions
    it yields vs the exhaustive evaluation of the same model; helper exactness (abssum at every optimum, prod in every feasible point)."""
    import random

    from sa.lpmodel import Library, new_model, wrapper_model
    from sa.report import seed as _seed, thorough

    w = wrapper_model(repo)
    prec = module_consts(repo.mod("lpinterface")).get("SOLVER_PRECISON", 1e-5)
    cls = repo.cls("lpinterface::Gurobi")
    res.analysed(repo.func("lpinterface::Gurobi.solutions"), repo.func("lpinterface::Gurobi.abssum"), repo.func("lpinterface::Gurobi.prod"))
    rnd = random.Random(_seed() + 60)
    bad = {}
    n_models = n_points = 0
    try:
        for trial in range(60 if thorough() else 14):
            m, lib = new_model(w, f"m{trial}")
            nb = rnd.randint(2, 7)
            xs = [w.call("addVar", m, [], dict(vtype="B", name=f"x_{i}")) for i in range(nb)]
            es = []
            eqs = []
            for j in range(rnd.randint(1, 4)):
                e = w.call("addVar", m, [], dict(lb=-lib.infinity(), ub=lib.infinity(), name=f"E_{j}"))
                coefs = [rnd.choice([0, 0, 1, 1, 2]) for _ in xs]
                target = rnd.choice([0.0, 0.4, 1.0, 1.3, 2.0, 2.6])
                expr = sum(c_ * x for c_, x in zip(coefs, xs)) + e
                w.call("addConstr", m, [expr <= target], dict(name=f"C_{j}"))
                w.call("addConstr", m, [expr >= target], dict(name=f"C_{j}"))
                es.append(e)
                eqs.append((coefs, target))
            k = rnd.randint(1, min(3, nb))
            card = sum(xs[: rnd.randint(2, nb)])
            w.call("addConstr", m, [card <= k], dict(name="CARD"))
            if rnd.random() < 0.5:
                w.call("addConstr", m, [card >= min(k, 1)], dict(name="CARD"))
            for i in range(1, nb):
                if rnd.random() < 0.3:
                    w.call("addConstr", m, [xs[i] <= xs[i - 1]], dict(name=f"ORD_{i}"))
            weights = {f"E_{j}": rnd.choice([0, 0.5, 2.0, 3]) for j in range(len(es)) if rnd.random() < 0.5}   # explicit zero and fractional weights
            prods = []
            if nb >= 3 and rnd.random() < 0.6:
                r_ = w.call("addVar", m, [], dict(vtype="B", name="P_0"))
                fac = rnd.sample(xs, rnd.randint(1, min(3, nb)))
                w.call("prod", m, [r_, fac], {})
                prods.append((r_, fac))
            lin = [rnd.choice([0.0, 0.1, 0.25, 0.5]) for _ in xs]
            pcost = [rnd.choice([0.2, 0.7]) for _ in prods]
            obj = w.call("abssum", m, [es], dict(coeffs=weights or None)) + sum(c_ * x for c_, x in zip(lin, xs)) \
                + sum(c_ * r_ for c_, (r_, _) in zip(pcost, prods))

            def own_objective(active):
                """The objective of an assignment computed from the model's definition (weights default to 1; 0 is a weight)."""
                xv = [1 if f"x_{i}" in active else 0 for i in range(nb)]
                tot = sum(c_ * v_ for c_, v_ in zip(lin, xv))
                for j, (coefs_, target_) in enumerate(eqs):
                    tot += weights.get(f"E_{j}", 1) * abs(target_ - sum(c_ * v_ for c_, v_ in zip(coefs_, xv)))
                for c_, (r_, fac) in zip(pcost, prods):
                    tot += c_ * int(all(f_.name() in active for f_ in fac))
                return tot
            w.call("setObjective", m, [obj], {})
            gap = rnd.choice([0.0, 0.1, 0.5])
            oracle = lib.enumerate()          # exhaustive evaluation of the model as built (before any cut)
            n_models += 1
            n_points += len(oracle)
            binaries = [v for v in lib.integer_vars()]
            table = {frozenset(v.name() for v in binaries if val[v] == 1): o for o, val in oracle}
            tag = f"model {trial} ({nb} binaries, {len(es)} error terms, {len(prods)} products, gap {gap})"
            # products: in every feasible point the product variable equals the AND of its factors
            for o, val in oracle:
                for r_, fac in prods:
                    if val[r_] != int(all(val[f_] == 1 for f_ in fac)):
                        bad.setdefault("prod", f"{tag}: feasible point with product variable {val[r_]} and factors {[val[f_] for f_ in fac]}")
            got = []
            for status, o, names in w.call("solutions", m, [gap], {}):
                # helper exactness at this optimum: every abssum helper equals the absolute value of its variable
                for v in lib.vars:
                    if v.name().startswith("ABS_"):
                        src = next((u for u in lib.vars if u.name() == v.name()[4:]), None)
                        if src is not None and abs(v.value - abs(src.value)) > 1e-7:
                            bad.setdefault("abssum", f"{tag}: at a yielded solution the helper of {src.name()} is {v.value}, |value| is {abs(src.value)}")
                got.append((frozenset(names), o, status))
                if len(got) > len(table) + 2:
                    bad.setdefault("twice", f"{tag}: more solutions yielded ({len(got)}) than the model has feasible assignments ({len(table)}): the enumeration does not terminate")
                    break
            if not oracle:
                if got:
                    bad.setdefault("feasible", f"{tag}: yields {got[:1]} although the model is infeasible")
                continue
            best = oracle[0][0]
            ub = (1 + gap) * best
            if not got or abs(got[0][1] - best) > 1e-7:
                bad.setdefault("optimum", f"{tag}: first yielded objective {got[0][1] if got else None}, exhaustive optimum {best}")
            for key, o, status in got:
                if key not in table:
                    bad.setdefault("feasible", f"{tag}: yields active binaries {sorted(key)}, which is not a feasible assignment")
                elif abs(table[key] - o) > 1e-7:
                    bad.setdefault("feasible", f"{tag}: yields {sorted(key)} with objective {o}; its objective is {table[key]}")
                elif abs(own_objective(key) - o) > 1e-7:
                    bad.setdefault("abssum", f"{tag}: {sorted(key)} reported with objective {o}; weighted absolute errors + costs = {own_objective(key)} (weights {weights})")
                if o > ub + prec + 1e-9:
                    bad.setdefault("gap", f"{tag}: yields objective {o} beyond (1 + gap) x {best} = {ub}")
            if len({k_ for k_, _, _ in got}) != len(got):
                bad.setdefault("twice", f"{tag}: an assignment is yielded twice")
            if any(got[i][1] > got[i + 1][1] + 1e-9 for i in range(len(got) - 1)):
                bad.setdefault("order", f"{tag}: objectives not non-decreasing: {[round(g_[1], 4) for g_ in got]}")
            yielded = {k_: o for k_, o, _ in got}
            for key, o in table.items():
                if key in yielded or o > ub - prec:
                    continue
                if not any(yk <= key and yo <= o + 1e-9 for yk, yo in yielded.items()):
                    bad.setdefault("complete", f"{tag}: feasible within-gap assignment {sorted(key)} (objective {o}) is not yielded and contains no yielded assignment that scores no worse")
    except Unfoldable as e:
        res.err("C05.R6", f"solver wrapper outside the folding language: {e}")
        return
    except Raised as e:
        res.ob("C05.R6", cls, cls, False, expected="the wrapper builds and enumerates the sample models", found=f"raises {e}", key="models:runs")
        return
    # a solution the library does not report as optimal is not handed on; `limit` bounds the number of yields
    try:
        extra_bad = {}
        for status, label in ((Library.FEASIBLE, "feasible, not proven optimal"), (Library.ABNORMAL, "abnormal"), (Library.NOT_SOLVED, "not solved")):
            m, lib = new_model(w, "status")
            x = w.call("addVar", m, [], dict(vtype="B", name="x_0"))
            y = w.call("addVar", m, [], dict(vtype="B", name="x_1"))
            w.call("addConstr", m, [x + y >= 1], dict(name="C"))
            w.call("setObjective", m, [0.5 * x + 0.7 * y], {})
            lib.force_status = status
            got = list(itertools.islice(w.call("solutions", m, [0.5], {}), 5))
            if got:
                extra_bad.setdefault("status", f"library status '{label}': yields {got[:1]}")
        m, lib = new_model(w, "limit")
        xs = [w.call("addVar", m, [], dict(vtype="B", name=f"x_{i}")) for i in range(4)]
        w.call("addConstr", m, [sum(xs) >= 1], dict(name="C"))
        w.call("addConstr", m, [sum(xs) <= 1], dict(name="C"))
        w.call("setObjective", m, [sum(0.5 * x for x in xs)], {})
        for lim in (1, 2, 3):
            m2, lib2 = new_model(w, "limit")
            xs = [w.call("addVar", m2, [], dict(vtype="B", name=f"x_{i}")) for i in range(4)]
            w.call("addConstr", m2, [sum(xs) >= 1], dict(name="C"))
            w.call("addConstr", m2, [sum(xs) <= 1], dict(name="C"))
            w.call("setObjective", m2, [sum(0.5 * x for x in xs)], {})
            got = list(itertools.islice(w.call("solutions", m2, [0.0], dict(limit=lim)), 10))
            if len(got) != lim:
                extra_bad.setdefault("limit", f"limit={lim} on a model with four tied optima: {len(got)} solutions yielded")
    except Unfoldable as e:
        res.err("C05.R6", f"solver wrapper outside the folding language: {e}")
        return
    except Raised as e:
        extra_bad = {"status": f"raises {e}"}
    # near ties: a runner-up 4e-3 above the cut-off is outside the gap (the solver precision is 1e-5), one 2e-6 above it is a tie
    try:
        for delta, want_n in ((0.004, 1), (0.000002, 2)):
            for gap in (0.0, 0.1):
                m, lib = new_model(w, "near")
                x = w.call("addVar", m, [], dict(vtype="B", name="x_0"))
                y = w.call("addVar", m, [], dict(vtype="B", name="x_1"))
                w.call("addConstr", m, [x + y >= 1], dict(name="C"))
                w.call("addConstr", m, [x + y <= 1], dict(name="C"))
                w.call("setObjective", m, [1.0 * x + ((1 + gap) * 1.0 + delta) * y], {})
                got = list(itertools.islice(w.call("solutions", m, [gap], {}), 5))
                if len(got) != want_n:
                    extra_bad.setdefault("near", f"optimum 1.0, runner-up {(1 + gap) * 1.0 + delta}, gap {gap}: {len(got)} solution(s) yielded, expected {want_n}")
        # one model object used twice: enumerate (limit 1), extend the model with another binary and a new objective, enumerate again
        m, lib = new_model(w, "twice")
        x = w.call("addVar", m, [], dict(vtype="B", name="x_0"))
        y = w.call("addVar", m, [], dict(vtype="B", name="x_1"))
        w.call("addConstr", m, [x + y >= 1], dict(name="C"))
        w.call("setObjective", m, [0.5 * x + 0.7 * y], {})
        first = list(itertools.islice(w.call("solutions", m, [0.0], dict(limit=1)), 3))
        z = w.call("addVar", m, [], dict(vtype="B", name="z_0"))
        w.call("addConstr", m, [z >= 1], dict(name="Z"))
        w.call("setObjective", m, [0.5 * x + 0.7 * y + 0.1 * z], {})
        second = list(itertools.islice(w.call("solutions", m, [0.0], {}), 3))
        if not (len(first) == 1 and second and set(second[0][2]) == {"x_0", "z_0"}):
            extra_bad.setdefault("twice-used", f"after extending the model the enumeration yields {second[:1]}; the optimum sets x_0 and z_0")
        # the absolute-value helper over a sequence that names one error term twice (an error counted for two regions): 2 |E|
        m, lib = new_model(w, "rep")
        x = w.call("addVar", m, [], dict(vtype="B", name="x_0"))
        e = w.call("addVar", m, [], dict(lb=-lib.infinity(), ub=lib.infinity(), name="E_a"))
        f_ = w.call("addVar", m, [], dict(lb=-lib.infinity(), ub=lib.infinity(), name="E_b"))
        for ex_, tg_, nm_ in ((2 * x + e, 0.75, "CA"), (x + f_, 0.5, "CB")):
            w.call("addConstr", m, [ex_ <= tg_], dict(name=nm_))
            w.call("addConstr", m, [ex_ >= tg_], dict(name=nm_))
        w.call("setObjective", m, [w.call("abssum", m, [[e, f_, e]], {}) + 0.1 * x], {})
        got = list(itertools.islice(w.call("solutions", m, [0.0], {}), 3))
        want_rep = min(2 * abs(0.75 - 2 * v_) + abs(0.5 - v_) + 0.1 * v_ for v_ in (0, 1))   # = 2.0 at x = 0
        if not (got and abs(got[0][1] - want_rep) < 1e-7):
            extra_bad.setdefault("repeated", f"abssum([E_a, E_b, E_a]): first yielded objective {got[0][1] if got else None}, exhaustive optimum {want_rep}")
        # a penalised slack created with default bounds is non-negative (the default of both sibling wrappers and of gurobipy: lb = 0)
        m, lib = new_model(w, "slack")
        xs2 = [w.call("addVar", m, [], dict(vtype="B", name=f"x_{i}")) for i in range(3)]
        sl = w.call("addVar", m, [], dict(name="S"))
        w.call("addConstr", m, [xs2[0] + xs2[1] + xs2[2] - sl <= 2], dict(name="CAP"))
        w.call("addConstr", m, [xs2[0] + xs2[1] + xs2[2] >= 1], dict(name="MIN"))
        w.call("setObjective", m, [0.2 * xs2[0] + 0.3 * xs2[1] + 0.4 * xs2[2] + 0.7 * sl], {})
        got = list(itertools.islice(w.call("solutions", m, [0.0], {}), 3))
        if not (got and abs(got[0][1] - 0.2) < 1e-7 and set(got[0][2]) == {"x_0"}):
            extra_bad.setdefault("default-bounds", f"slack with default bounds: first yielded {got[:1]}, the optimum with S >= 0 is 0.2 at x_0 (S = 0)")
    except Unfoldable as e:
        res.err("C05.R6", f"solver wrapper outside the folding language: {e}")
        return
    except Raised as e:
        extra_bad.setdefault("near", f"raises {e}")
    res.ob("C05.R6", cls, cls, "repeated" not in extra_bad, expected="abssum over a sequence that names a variable twice counts its absolute value twice",
           found=extra_bad.get("repeated", "ok"), clause="at any optimum the helper variable equals the sum of absolute values", key="models:repeated-term")
    res.ob("C05.R6", cls, cls, "default-bounds" not in extra_bad, expected="a variable created without bounds is non-negative (lower bound 0, as in the sibling wrapper's library)",
           found=extra_bad.get("default-bounds", "ok"), clause="for every model built through the solver interface, the first yielded solution is a global optimum", key="models:default-bounds")
    res.ob("C05.R6", cls, cls, "near" not in extra_bad, expected="the stop test uses the solver precision (1e-5): a runner-up 4e-3 beyond the cut-off is not yielded, one 2e-6 beyond it is",
           found=extra_bad.get("near", "ok"), clause="every yielded solution is ... within the gap of the optimum", key="models:near-ties")
    res.ob("C05.R6", cls, cls, "twice-used" not in extra_bad, expected="a model enumerated, extended and enumerated again yields the active binaries of the extended model",
           found=extra_bad.get("twice-used", "ok"), clause="for every model built through the solver interface", key="models:used-twice")
    res.ob("C05.R6", cls, cls, "status" not in extra_bad, expected="a solution whose library status is not 'optimal' is not yielded", found=extra_bad.get("status", "ok"),
           clause="the first yielded solution is a global optimum", key="models:status")
    res.ob("C05.R6", cls, cls, "limit" not in extra_bad, expected="`limit` bounds the number of yielded solutions", found=extra_bad.get("limit", "ok"), key="models:limit")
    res.count("C05.R6:models", n_models)
    res.count("C05.R6:feasible points enumerated", n_points)
    clauses = {"optimum": "the first yielded solution is a global optimum", "feasible": "every yielded solution is feasible with the objective value reported for it",
               "gap": "every yielded solution is within the gap of the optimum", "twice": "no binary assignment is yielded twice", "order": "solutions come in non-decreasing objective order",
               "complete": "any feasible within-gap assignment that is not yielded has a superset of the active binaries of some yielded solution with no worse objective",
               "abssum": "at any optimum the helper variable equals the sum of absolute values", "prod": "in every feasible point the product variable equals the logical AND of its factors"}
    for key, clause in clauses.items():
        res.ob("C05.R6", cls, cls, key not in bad, expected=clause, found=f"{n_models} models, {n_points} feasible points agree" if key not in bad else bad[key],
               clause=clause, key=f"models:{key}")


def run(repo, res):
    r6(repo, res)
    r4(repo, res)
    r5(repo, res)


MUTANTS = [
    dict(name="R6 abssum terms keyed by variable name (seeded C05_d3 shape)", module="lpinterface", expect="C05.R6",
         edits=[("        vv = []\n        for i, v in enumerate(vars):", "        vv = {}\n        for i, v in enumerate(vars):"),
                ("            vv.append(coeff * absvar)", "            vv[name] = coeff * absvar"),
                ("        return self.quicksum(vv)\n", "        return self.quicksum(vv.values())\n")]),
    dict(name="R6 default lower bound of a continuous variable is minus infinity (seeded C05_d1 shape)", module="lpinterface", expect="C05.R6",
         old='        lb = kwargs.get("lb", 0)', new='        lb = kwargs.get("lb", -self.INF)'),
    dict(name="R6 solver told to stop within one percent of the bound (seeded C05_c1 shape)", module="lpinterface", expect=["C05.R6"],
         old="        status = self.model.Solve()\n", new="        params = self.ortools.MPSolverParameters()\n        params.SetDoubleParam(params.RELATIVE_MIP_GAP, 0.01)\n        status = self.model.Solve(params)\n"),
    dict(name="benign: solver parameters without a gap", module="lpinterface", kind="benign",
         old="        status = self.model.Solve()\n", new="        params = self.ortools.MPSolverParameters()\n        params.SetIntegerParam(params.PRESOLVE, params.PRESOLVE_ON)\n        status = self.model.Solve(params)\n"),
    dict(name="R6 enumeration stops at an empty selection (seeded C05_c3 shape)", module="lpinterface", expect=["C05.R6"],
         old="            yield status, obj, sorted_tuple(set(vv.keys()))", new="            if not vv:\n                return\n            yield status, obj, sorted_tuple(set(vv.keys()))"),
    dict(name="R1 one abssum bound dropped", module="lpinterface", expect="C05.R6",
         old='            self.addConstr(absvar - v >= 0, name=f"CABSR_{i}")\n', new=""),
    dict(name="R1 abssum sign flipped", module="lpinterface", expect="C05.R6",
         old='            self.addConstr(absvar - v >= 0, name=f"CABSR_{i}")', new='            self.addConstr(absvar + v >= 0, name=f"CABSR_{i}")'),
    dict(name="R1 abssum drops coefficients", module="lpinterface", expect="C05.R6",
         old="            vv.append(coeff * absvar)", new="            vv.append(absvar)"),
    dict(name="R1 abssum zero weight treated as missing (seeded C05_3 shape)", module="lpinterface", expect="C05.R6",
         old="            coeff = 1 if coeffs is None or name not in coeffs else coeffs[name]", new="            coeff = (coeffs or {}).get(name) or 1"),
    dict(name="R2 prod constant changed", module="lpinterface", expect="C05.R6",
         old="self.addConstr(res >= self.quicksum(terms) - (len(terms) - 1), name=\"PROD\")",
         new="self.addConstr(res >= self.quicksum(terms) - len(terms), name=\"PROD\")"),
    dict(name="R2 prod upper bounds dropped", module="lpinterface", expect="C05.R6",
         old="        for v in terms:\n            self.addConstr(res <= v, name=\"PROD\")\n", new=""),
    dict(name="R2 prod upper bound only on first factor", module="lpinterface", expect="C05.R6",
         old="        for v in terms:\n            self.addConstr(res <= v, name=\"PROD\")\n",
         new="        for v in terms[:1]:\n            self.addConstr(res <= v, name=\"PROD\")\n"),
    dict(name="R3 gap test inverted", module="lpinterface", expect="C05.R6",
         old="            if abs(obj - ub) >= SOLVER_PRECISON and obj > ub:", new="            if abs(obj - ub) >= SOLVER_PRECISON and obj < ub:"),
    dict(name="R3 gap test absolute", module="lpinterface", expect="C05.R6",
         old="            ub = (1 + gap) * best_obj", new="            ub = gap + best_obj"),
    dict(name="R3 best objective overwritten each round", module="lpinterface", expect="C05.R6",
         old="            best_obj = obj if best_obj is None else best_obj", new="            best_obj = obj"),
    dict(name="R3 cut omitted", module="lpinterface", expect="C05.R6",
         old="                self.addConstr(self.quicksum(vv.values()) <= len(vv) - 1)\n", new=""),
    dict(name="R3 cut after the recursion", module="lpinterface", expect="C05.R6",
         old="                self.addConstr(self.quicksum(vv.values()) <= len(vv) - 1)\n                yield from self.solutions(gap, best_obj, limit, iteration + 1, init)",
         new="                yield from self.solutions(gap, best_obj, limit, iteration + 1, init)\n                self.addConstr(self.quicksum(vv.values()) <= len(vv) - 1)"),
    dict(name="R3 cut too weak", module="lpinterface", expect="C05.R6",
         old="self.addConstr(self.quicksum(vv.values()) <= len(vv) - 1)", new="self.addConstr(self.quicksum(vv.values()) <= len(vv))"),
    dict(name="R3 cut over all binaries", module="lpinterface", expect="C05.R6",
         old="                if self.is_binary(v) and self.getValue(v) == 1", new="                if self.is_binary(v)"),
    dict(name="R3 non-optimal status accepted", module="lpinterface", expect="C05.R6",
         old='            if status != "optimal":\n                return\n', new=""),
    dict(name="R3 infeasibility propagates", module="lpinterface", expect="C05.R6",
         old="        except NoSolutionsError:\n            return", new="        except NoSolutionsError:\n            raise"),
    dict(name="R4 verification dropped", module="lpinterface", expect="C05.R4",
         old="        if not self.model.VerifySolution(SOLVER_PRECISON, True):\n            raise NoSolutionsError(status)\n", new=""),
    dict(name="R4 infeasible reported as status", module="lpinterface", expect="C05.R4",
         old="        if status == self.ortools.Solver.INFEASIBLE:\n            raise NoSolutionsError(status)\n        if not", new="        if not"),
    dict(name="R4 read-back not rounded", module="lpinterface", expect="C05.R4",
         old="            x = int(round(x))\n            if (", new="            x = int(x)\n            if ("),
    dict(name="R4 every integer is a bool", module="lpinterface", expect="C05.R4",
         old="                and abs(1 - var.ub()) < SOLUTION_PRECISION", new="                and True"),
    dict(name="R5 names not uniquified", module="lpinterface", expect="C05.R5",
         old='        name = escape_name(kwargs.get("name", ""), self.names)', new='        name = escape_name(kwargs.get("name", ""))'),
    # benign
    dict(name="benign: abssum constraints rewritten", module="lpinterface", kind="benign",
         old='            self.addConstr(absvar + v >= 0, name=f"CABSL_{i}")', new='            self.addConstr(absvar >= -v, name=f"CABSL_{i}")'),
    dict(name="benign: prod lower bound rewritten", module="lpinterface", kind="benign",
         old="self.addConstr(res >= self.quicksum(terms) - (len(terms) - 1), name=\"PROD\")",
         new="self.addConstr(res + len(terms) - 1 >= self.quicksum(terms), name=\"PROD\")"),
    dict(name="benign: gap test without the band", module="lpinterface", kind="benign",
         old="            if abs(obj - ub) >= SOLVER_PRECISON and obj > ub:", new="            if obj > ub + SOLVER_PRECISON:"),
]
