"""
C05 -- the ILP layer returns true optima and exact linearisations.

Decided: (R1) the absolute-value gadget and (R2) the binary-product gadget are exact (lifted and
folded with an instrumented model stub over enumerated domains; call sites pass binaries / add the
result to a minimised objective only); (R3) typestate of the solution enumerator on its CFG
(solve -> optimal -> gap -> yield -> cut -> recurse, inside try/except NoSolutionsError); (R4)
status mapping and typed read-back of CBC, folded with stubs; (R5) names are escaped/uniquified and
solutions are read back through model.varName with prefix tests that select one family.
Not decided: global optimality of CBC, agreement with other solvers.
"""

import ast
import collections
import itertools

from sa.cfg import cfg_of
from sa.fold import Evaluator, Obj, Raised, Unfoldable, module_consts, single_defs
from sa.guards import exiting_guards, find_calls, fmt_tests, guard_table
from sa.ilp import Model
from sa.linform import Families
from sa.loader import AnalysisError, call_name, calls_in, kwarg, walk_local

PROPERTY = "C05"
EXPLANATION = (
    "Gadget folding: Gurobi.abssum and Gurobi.prod (inherited by CBC) are lifted and interpreted with a recording "
    "model stub; for abssum the feasible set of the helper variable over a grid must be {a >= |v|} and the returned "
    "expression sum(coef*a); for prod the feasible set over {0,1}^(n+1), n=1..4, must be res = AND(factors). "
    "Call-site rules for both. Enumerator typestate on the CFG of `solutions` (dominance, must-pass-through, folded "
    "gap predicate with a don't-care precision band, cut built from exactly the yielded binaries). CBC.solve / "
    "getValue / is_binary folded with solver stubs over the status table and variable kinds. Name escaping folded; "
    "read-back keyed by varName."
)
ASSUMPTIONS = ["Gurobi is not installed; its wrapper is analysed from source only",
               "ortools' Solver.Solve/VerifySolution/solution_value behave as documented"]


def _body(f):
    return [s for s in f.body if not (isinstance(s, ast.Expr) and isinstance(s.value, ast.Constant))]


class Recorder:
    """Instrumented model stub for gadget folding."""

    def __init__(self, candidates=None, names=None):
        self.cons, self.lbs, self.vals = [], [], []
        self.cand = list(candidates or [])
        self.names = names or {}

    def obj(self):
        me = self

        def addVar(*a, **kw):
            v = me.cand.pop(0)
            me.vals.append(v)
            me.lbs.append(kw.get("lb", 0))
            return v

        def addConstr(c, name=None):
            me.cons.append(bool(c))

        return Obj(addVar=addVar, addConstr=addConstr, update=lambda: None, quicksum=lambda xs: sum(xs),
                   varName=lambda v: me.names.get(v, f"x{v}"))

    def feasible(self):
        return all(self.cons) and all(v >= lb for v, lb in zip(self.vals, self.lbs))


def r1(repo, res):
    f = repo.func("lpinterface::Gurobi.abssum")
    res.analysed(f)
    agrid = [0, 0.5, 1, 1.5, 2, 2.5]
    vgrid = [-2, -1, -0.5, 0, 0.5, 1, 2]
    bad = None
    n = 0
    try:
        from sa.report import thorough
        for k in ((1, 2, 3) if thorough() else (1, 2)):
            if k == 3:
                agrid, vgrid = [0, 1, 2], [-2, -1, 0, 1]
            for vs in itertools.product(vgrid, repeat=k):
                for as_ in itertools.product(agrid, repeat=k):
                    rec = Recorder(as_)
                    ev = Evaluator({"self": rec.obj(), "vars": list(vs), "coeffs": None})
                    kind, val = ev.run(_body(f))
                    n += 1
                    want = all(a >= abs(v) for a, v in zip(as_, vs))
                    if kind != "return" or rec.feasible() != want or abs(val - sum(as_)) > 1e-12:
                        bad = f"v={vs}, helper={as_}: feasible={rec.feasible()} (expected {want}), returned {val}"
                        break
                if bad:
                    break
            if bad:
                break
        # coefficients looked up by variable name; default 1
        rec = Recorder([3.0, 5.0], names={10: "E_pce", 20: "E_x"})
        ev = Evaluator({"self": rec.obj(), "vars": [10, 20], "coeffs": {"E_pce": 2.0}})
        kind, val = ev.run(_body(f))
        if kind != "return" or abs(val - (2.0 * 3.0 + 5.0)) > 1e-12:
            bad = bad or f"coefficient lookup: returned {val}, expected 11.0"
        # an explicit weight of 0 (or a fractional one) is a weight, not "missing"
        for w, want in ((0, 5.0), (0.5, 6.5)):
            rec = Recorder([3.0, 5.0], names={10: "E_pce", 20: "E_x"})
            kind, val = Evaluator({"self": rec.obj(), "vars": [10, 20], "coeffs": {"E_pce": w}}).run(_body(f))
            if kind != "return" or abs(val - want) > 1e-12:
                bad = bad or f"coefficient {w} for E_pce: returned {val}, expected {want}"
    except (Unfoldable, Raised) as e:
        res.err("C05.R1", f"abssum outside folding language: {e}")
        return
    res.ob("C05.R1", f, f, bad is None,
           expected="per input v one helper a with feasible set {a >= |v|}; returns sum(coef(name(v)) * a), coef default 1",
           found=f"ok on {n} grid points" if bad is None else bad,
           clause="at any optimum the helper variable equals the sum of absolute values", key="abssum-gadget")
    # call sites: the result only ever enters a minimised objective, never negated, never a constraint
    nsites = 0
    for ref in ("cn::solve_cn_model", "major::solve_major_model", "minor::solve_minor_model"):
        g = repo.func(ref)
        res.analysed(g)
        m = Model(g, ["constraints"])
        obj = m.objective_lin()
        for c in m.abssums:
            nsites += 1
            txt = ast.unparse(c)
            in_obj = [(k, t) for k, t in (obj.terms if obj else []) if t.kind == "atom" and t.txt == txt]
            ok = len(in_obj) == 1 and in_obj[0][0].num > 0
            in_con = any(s.lin is not None and any(t.kind == "atom" and t.txt == txt for _, t in s.lin.terms) for s in m.sites)
            mins = all(kwarg(o, "method") is None and len(o.args) == 1 for o in m.objectives)
            res.ob("C05.R1", g, c, ok and not in_con and mins,
                   expected="abssum(...) appears exactly once, with a positive coefficient, in the minimised objective and in no constraint",
                   found=f"objective coefficient {in_obj[0][0].text() if in_obj else 'absent'}; in constraint: {in_con}",
                   key=f"abssum-site:{txt[:50]}")
    res.floor("C05.R1", "abssum call sites", nsites, 4)


def r2(repo, res):
    f = repo.func("lpinterface::Gurobi.prod")
    res.analysed(f)
    bad = None
    n = 0
    try:
        from sa.report import thorough
        for k in ((1, 2, 3, 4, 5, 6, 7) if thorough() else (1, 2, 3, 4)):
            for bits in itertools.product((0, 1), repeat=k + 1):
                r_, ts = bits[0], list(bits[1:])
                rec = Recorder()
                ev = Evaluator({"self": rec.obj(), "res": r_, "terms": ts})
                kind, val = ev.run(_body(f))
                n += 1
                want = r_ == int(all(ts))
                if kind != "return" or rec.feasible() != want or val != r_:
                    bad = f"res={r_}, factors={ts}: feasible={rec.feasible()} (expected {want})"
                    break
            if bad:
                break
    except (Unfoldable, Raised) as e:
        res.err("C05.R2", f"prod outside folding language: {e}")
        return
    res.ob("C05.R2", f, f, bad is None,
           expected="feasible set over {0,1}^(n+1), n = 1..4, is exactly res = AND(factors); returns res",
           found=f"ok on {n} assignments" if bad is None else bad,
           clause="in every feasible point the product variable equals the logical AND of its factors", key="prod-gadget")
    # call sites pass a binary result variable and binary factors
    g = repo.func("minor::solve_minor_model")
    m = Model(g, ["constraints"])
    res.floor("C05.R2", "prod call sites", len(m.prods), 4)
    for c in m.prods:
        parts = [c.args[0]] + (list(c.args[1].elts) if len(c.args) > 1 and isinstance(c.args[1], (ast.List, ast.Tuple)) else [])
        kinds = []
        for p in parts:
            l = m.lz.lin(p, c)
            vt = "?"
            if len(l.terms) == 1 and l.terms[0][1].kind == "var":
                t = l.terms[0][1]
                if t.fam.startswith("<"):
                    vt = "B" if any(i["vtype"] == "B" for i in m.fams.lambdas.values()) else "?"
                else:
                    infos = m.fams.containers.get(t.fam, {}).get("infos") or ([m.fams.scalars[t.fam]] if t.fam in m.fams.scalars else [])
                    if infos and all(i["vtype"] == "B" for i in infos):
                        vt = "B"
                    elif infos:
                        vt = "non-binary"
            elif len(l.terms) == 1 and l.terms[0][1].kind == "elem":
                vt = "B*"  # element of a list of binaries (checked through the list's family below)
                fam = l.terms[0][1].family
                fams = {t2.fam for _, s in fam.terms for _, t2 in (s.body.terms if s.kind == "sum" else [(None, s)])
                        if getattr(t2, "kind", "") == "var"}
                if not fams or not all(all(i["vtype"] == "B" for i in m.fams.containers.get(x, {}).get("infos", [{"vtype": None}]))
                                       for x in fams):
                    vt = "?"
            kinds.append(vt)
        ok = len(parts) >= 2 and all(k in ("B", "B*") for k in kinds)
        res.ob("C05.R2", g, c, ok, expected="prod(res, [factors]) with res and every factor a binary model variable",
               found=f"{[ast.unparse(p)[:30] for p in parts]} -> {kinds}", key=f"prod-site:{ast.unparse(c)[:70]}")


def r3(repo, res):
    f = repo.func("lpinterface::Gurobi.solutions")
    res.analysed(f)
    c = cfg_of(f)
    consts = module_consts(repo.mod("lpinterface"))
    consts.update({k: v for k, v in module_consts(repo.mod("common")).items() if k not in consts})
    defs = single_defs(f)
    yields = [n for n in c.nodes if n.kind == "stmt" and isinstance(n.ast, ast.Expr) and isinstance(n.ast.value, ast.Yield)]
    yfrom = [n for n in c.nodes if n.kind == "stmt" and isinstance(n.ast, ast.Expr) and isinstance(n.ast.value, ast.YieldFrom)]
    solves = [c.node_of(x) for x in find_calls(f, "solve")]
    if len(yields) != 1 or len(yfrom) != 1 or not solves:
        res.err("C05.R3", f"enumerator shape not recognised: {len(yields)} yield, {len(yfrom)} yield-from, {len(solves)} solve calls")
        return
    y, rec = yields[0], yfrom[0]
    # (a) solve dominates yield; non-optimal status never yields
    res.ob("C05.R3", f, y.ast, any(c.dominates(s, y.id) for s in solves), expected="every yield is preceded by a solve()",
           found="ok", key="solve-dominates-yield")
    gs = exiting_guards(c, y.id, kinds=("return",))
    sname = None
    for n in walk_local(f):
        if isinstance(n, ast.Assign) and isinstance(n.targets[0], ast.Tuple) and isinstance(n.value, ast.Call) \
                and call_name(n.value).endswith("solve"):
            sname, oname = [e.id for e in n.targets[0].elts]
    if sname is None:
        res.err("C05.R3", "`status, obj = self.solve(...)` not found")
        return
    tab = guard_table(gs, [{"s": "optimal"}, {"s": "feasible"}, {"s": "not_solved"}, {"s": "abnormal"}, {"s": "unbounded"}],
                      lambda p: {sname: p["s"], oname: 1.0, "best_obj": 1.0, "gap": 0.0}, consts, defs)
    res.ob("C05.R3", f, y.ast, (not tab[0]) and all(tab[1:]),
           expected="a solution is yielded only for status 'optimal'", found="returning guards: " + fmt_tests(gs),
           clause="the first yielded solution is a global optimum; every yielded solution is feasible", key="optimal-only")
    # (b) gap test
    prec = consts.get("SOLVER_PRECISON", 1e-5)
    bad = None
    for b in (1.0, 2.5, 0.0):
        for g_ in (0.0, 0.1, 0.5):
            for d in (-0.5, -0.01, -10 * prec, 10 * prec, 0.01, 0.5, 3.0):
                o = (1 + g_) * b + d
                stop = guard_table(gs, [{}], lambda p: {sname: "optimal", oname: o, "best_obj": b, "gap": g_}, consts, defs)[0]
                want = d > 0
                if stop != want:
                    bad = f"obj={o}, best={b}, gap={g_}: {'stops' if stop else 'continues'}, expected {'stop' if want else 'continue'}"
    res.ob("C05.R3", f, y.ast, bad is None,
           expected="enumeration stops iff obj > (1 + gap) * best (outside the solver-precision band)",
           found="ok on 63 grid points" if bad is None else bad,
           clause="every yielded solution lies within the gap of the optimum", key="gap-test")
    # (c) best objective fixed by the first solve and passed on unchanged
    tr = [n for n in walk_local(f) if isinstance(n, ast.Try)]
    body = tr[0].body if tr else f.body
    solve_i = next((i for i, st in enumerate(body) if isinstance(st, ast.Assign) and isinstance(st.value, ast.Call)
                    and call_name(st.value).endswith("solve")), None)
    y_i = next((i for i, st in enumerate(body) if st is y.ast), None)
    ok, found = False, "statements between solve and yield not found"
    if solve_i is not None and y_i is not None:
        prefix = body[solve_i + 1:y_i]
        try:
            outs = []
            for given in (None, 3.0):
                ev = Evaluator({sname: "optimal", oname: 5.0, "gap": 100.0, "self": Obj(variables=lambda: [], varName=lambda v: v,
                                                                                   is_binary=lambda v: False, getValue=lambda v: 0)},
                               consts=consts)
                ev.locals["best_obj"] = given
                k_, v_ = ev.run(prefix)
                outs.append((k_, ev.locals.get("best_obj")))
            ok = outs == [("fall", 5.0), ("fall", 3.0)]
            found = f"best_obj after the first solve: given None -> {outs[0][1]}, given 3.0 -> {outs[1][1]}"
        except (Unfoldable, Raised) as e:
            found = f"unfoldable {e}"
    rc = rec.ast.value.value
    passed = gap_passed = False
    if isinstance(rc, ast.Call):
        try:
            ev = Evaluator({"gap": 0.25, "best_obj": 7.5, "limit": None, "iteration": 4, "init": None}, defs=defs)
            vals = [ev.ev(a) for a in rc.args] + [ev.ev(k_.value) for k_ in rc.keywords]
            names = [None] * len(rc.args) + [k_.arg for k_ in rc.keywords]
            passed = (len(rc.args) > 1 and vals[1] == 7.5) or any(n_ == "best_obj" and v_ == 7.5 for n_, v_ in zip(names, vals))
            gap_passed = (len(rc.args) > 0 and vals[0] == 0.25) or any(n_ == "gap" and v_ == 0.25 for n_, v_ in zip(names, vals))
        except (Unfoldable, Raised) as e:
            found += f"; recursive call unfoldable {e}"
    res.ob("C05.R3", f, rec.ast, ok and passed and gap_passed,
           expected="best_obj = first objective (kept when given) and handed unchanged, with gap, to the recursive call",
           found=f"{found}; recursive call {ast.unparse(rc)[:80]}", key="best-fixed")
    # (d) exclusion cut between yield and recursion
    cuts = [x for x in find_calls(f, "addConstr")]
    cut_nodes = {c.node_of(x) for x in cuts}
    leak = c.path_exists(y.id, rec.id, avoid=cut_nodes)
    res.ob("C05.R3", f, rec.ast, bool(cuts) and not leak,
           expected="every path from the yield to the recursive call adds the exclusion cut",
           found="ok" if cuts and not leak else "a path re-solves without excluding the yielded assignment",
           clause="no binary assignment is yielded twice", key="cut-before-recursion")
    yv = y.ast.value.value

    def yields_keys_of(name):
        """Does the third yielded component denote exactly the (sorted) keys of mapping `name`?"""
        if not (isinstance(yv, ast.Tuple) and len(yv.elts) == 3):
            return False
        try:
            v = Evaluator({name: {"b": 1, "a": 2, "c": 3}}, funcs={"sorted_tuple": lambda it: tuple(sorted(it))}).ev(yv.elts[2])
            return tuple(v) == ("a", "b", "c")
        except (Unfoldable, Raised):
            return False
    for x in cuts:
        cmp = x.args[0]
        ok = False
        found = ast.unparse(cmp)
        if isinstance(cmp, ast.Compare) and isinstance(cmp.ops[0], ast.LtE):
            l, r = cmp.left, cmp.comparators[0]
            if isinstance(l, ast.Call) and call_name(l).endswith("quicksum") and isinstance(l.args[0], ast.Call) \
                    and isinstance(l.args[0].func, ast.Attribute) and l.args[0].func.attr == "values":
                vv = ast.unparse(l.args[0].func.value)
                try:
                    rhs = Evaluator({vv: {"a": 1, "b": 1, "c": 1}}).ev(r)
                    ok = rhs == 2 and yields_keys_of(vv)
                    found += f"  (rhs on 3 active binaries = {rhs}; yield lists the keys of `{vv}`: {yields_keys_of(vv)})"
                except (Unfoldable, Raised) as e:
                    found += f" unfoldable {e}"
        res.ob("C05.R3", f, x, ok, expected="cut: sum(active binaries) <= (number of active binaries) - 1, over the mapping whose keys were yielded",
               found=found, key="cut-form")
    # the active set = exactly the binaries whose read-back value is 1
    cutvv = None
    for x in cuts:
        for n_ in ast.walk(x):
            if isinstance(n_, ast.Call) and isinstance(n_.func, ast.Attribute) and n_.func.attr == "values" and isinstance(n_.func.value, ast.Name):
                cutvv = n_.func.value.id
    vdef = [n for n in walk_local(f) if isinstance(n, ast.Assign) and isinstance(n.targets[0], ast.Name)
            and n.targets[0].id == (cutvv or "vv") and isinstance(n.value, ast.DictComp)]
    ok = False
    found = "definition not found"
    if vdef:
        vs = [Obj(n="A", b=True, x=True), Obj(n="B", b=True, x=False), Obj(n="E", b=False, x=1.0), Obj(n="C", b=True, x=True)]
        me = Obj(variables=lambda: vs, varName=lambda v: v.n, is_binary=lambda v: v.b, getValue=lambda v: v.x)
        try:
            got = Evaluator({"self": me}).ev(vdef[0].value)
            ok = set(got) == {"A", "C"} and all(got[k].n == k for k in got)
            found = f"selects {sorted(got)} from binaries A=1,B=0,C=1 and continuous E=1.0"
        except (Unfoldable, Raised) as e:
            found = f"unfoldable {e}"
    res.ob("C05.R3", f, vdef[0] if vdef else f, ok, expected="active set = {name: var | var binary and value 1}", found=found,
           key="active-set")
    # (e) infeasible model ends the enumeration silently
    tr = [n for n in walk_local(f) if isinstance(n, ast.Try)]
    ok = False
    if tr:
        t = tr[0]
        inside = all(any(s in list(ast.walk(st)) for st in t.body) for s in [y.ast, rec.ast])
        hs = [h for h in t.handlers if h.type is not None and "NoSolutionsError" in ast.unparse(h.type)]
        ok = inside and bool(hs) and not any(isinstance(n, ast.Raise) for h in hs for n in ast.walk(h))
    res.ob("C05.R3", f, tr[0] if tr else f, ok, expected="solve / yield / recursion inside try ... except NoSolutionsError: return",
           found="ok" if ok else "missing", key="infeasible-ends")
    # (f) limit / iteration only ever shorten the enumeration
    facts = [(t, p) for t, p in c.guards(rec.id) if isinstance(t, ast.expr)]
    extra = [(t, p) for t, p in facts if (t, p) not in [(t2, p2) for t2, p2 in c.guards(y.id)]]
    ok = True
    rows = []
    for lim, it, want in [(None, 0, True), (0, 5, True), (1, 0, False), (3, 1, True), (3, 2, False)]:
        alive = True
        for t, p in extra:
            try:
                v = bool(Evaluator({"limit": lim, "iteration": it}, defs=defs).ev(t))
            except (Unfoldable, Raised):
                ok = False
                continue
            if v != p:
                alive = False
        rows.append(f"limit={lim},iter={it}:{'recurse' if alive else 'stop'}")
        ok = ok and alive == want
    it_arg = False
    if isinstance(rc, ast.Call):
        try:
            ev = Evaluator({"gap": 0.25, "best_obj": 7.5, "limit": None, "iteration": 4, "init": None}, defs=defs)
            it_arg = any(ev.ev(a) == 5 for a in list(rc.args) + [k.value for k in rc.keywords])
        except (Unfoldable, Raised):
            it_arg = False
    res.ob("C05.R3", f, rec.ast, ok and it_arg, expected="recursion continues unless a positive limit is reached; iteration + 1 passed on",
           found=" ".join(rows), key="limit")


def r4(repo, res):
    f = repo.func("lpinterface::CBC.solve")
    res.analysed(f)
    init = repo.func("lpinterface::CBC.__init__")
    S = Obj(OPTIMAL=0, FEASIBLE=1, INFEASIBLE=2, UNBOUNDED=3, ABNORMAL=4, NOT_SOLVED=6)
    # the status table as written in __init__
    tbl = None
    for n in walk_local(init):
        if isinstance(n, ast.Assign) and ast.unparse(n.targets[0]) == "self.STATUS":
            for d in ast.walk(n.value):
                if isinstance(d, ast.Dict):
                    tbl = Evaluator({"self.ortools.Solver": S}).ev(d)
    if tbl is None:
        res.err("C05.R4", "CBC status table not found")
        return
    table = collections.defaultdict(lambda: "UNKNOWN", tbl)
    consts = module_consts(repo.mod("lpinterface"))
    rows = []
    ok = True
    for code, ver, want in [(0, True, ("return", "optimal")), (0, False, ("raise", "NoSolutionsError")),
                            (2, True, ("raise", "NoSolutionsError")), (1, True, ("return", "feasible")),
                            (6, True, ("return", "not_solved")), (4, True, ("return", "abnormal"))]:
        model = Obj(Solve=lambda c=code: c, VerifySolution=lambda *a, v=ver: v, Objective=lambda: Obj(Value=lambda: 7.5))
        me = Obj(model=model, ortools=Obj(Solver=S), STATUS=table)
        try:
            k, v = Evaluator({"self": me, "init": None}, consts=consts).run(_body(f))
        except Unfoldable as e:
            res.err("C05.R4", f"CBC.solve outside folding language: {e}")
            return
        got = (k, v[0] if k == "return" else v)
        rows.append(f"status {code}/verified {ver} -> {got}")
        if got != want or (k == "return" and v[1] != 7.5):
            ok = False
    res.ob("C05.R4", f, f, ok, expected="INFEASIBLE or failed verification raise NoSolutionsError; otherwise (lower-cased status name, objective)",
           found="; ".join(rows), clause="every yielded solution is feasible with the objective value reported for it", key="cbc-solve")
    g = repo.func("lpinterface::Gurobi.solve")
    res.analysed(g)
    raises = [n for n in walk_local(g) if isinstance(n, ast.Raise) and "NoSolutionsError" in ast.unparse(n)]
    c = cfg_of(g)
    okg = bool(raises) and any("INFEASIBLE" in ast.unparse(t) and p is True for t, p in c.guards(c.node_of(raises[0]))
                               if isinstance(t, ast.expr))
    res.ob("C05.R4", g, raises[0] if raises else g, okg, expected="Gurobi: INFEASIBLE raises NoSolutionsError", found="ok" if okg else "missing",
           key="gurobi-solve")
    # typed read-back
    gv = repo.func("lpinterface::CBC.getValue")
    ib = repo.func("lpinterface::CBC.is_binary")
    res.analysed(gv, ib)
    consts = dict(module_consts(repo.mod("common")))
    consts.update(module_consts(repo.mod("lpinterface")))

    def var(x, integer, lb=0, ub=1):
        return Obj(solution_value=lambda: x, integer=lambda: integer, lb=lambda: lb, ub=lambda: ub)

    cases = [(var(0.9999999, True), True), (var(1e-9, True), False), (var(1.0, True), True), (var(0.0, True), False),
             (var(2.0000001, True, 0, 5), 2), (var(0.37, False, -1e9, 1e9), 0.37), (var(1.0, False, 0, 1), 1.0)]
    ok = True
    rows = []
    try:
        for v, want in cases:
            k, got = Evaluator({"self": Obj(), "var": v}, consts=consts).run(_body(gv))
            good = k == "return" and got == want and type(got) is type(want)
            rows.append(f"{got!r}")
            ok = ok and good
        for v, want in [(cases[0][0], True), (cases[4][0], False), (cases[5][0], False), (cases[6][0], False)]:
            me = Obj(getValue=lambda x: Evaluator({"self": Obj(), "var": x}, consts=consts).run(_body(gv))[1])
            k, got = Evaluator({"self": me, "v": v}).run(_body(ib))
            ok = ok and k == "return" and got is want
    except (Unfoldable, Raised) as e:
        res.err("C05.R4", f"CBC.getValue / is_binary outside folding language: {e}")
        return
    res.ob("C05.R4", gv, gv, ok,
           expected="0/1 integer variables read back as rounded bool, other integers as rounded int, continuous raw; is_binary iff bool",
           found="read-backs: " + ", ".join(rows), key="typed-readback")


def r5(repo, res):
    f = repo.func("lpinterface::escape_name")
    res.analysed(f)
    try:
        d = collections.defaultdict(int)
        outs = []
        for nm in ["A_1.001_0", "A_1001_0", "N_42126611.C>G", "E_1_REF", "E_1_REF", "K_5_insA_1#2-x"]:
            k, v = Evaluator({"s": nm, "d": d}).run(_body(f))
            outs.append(v)
        ok = len(set(outs)) == len(outs) and all(all(ch not in o for ch in ".>#-") for o in outs)
        k, v = Evaluator({"s": "A_1", "d": None}).run(_body(f))
        ok = ok and v == "A_1"
    except (Unfoldable, Raised) as e:
        res.err("C05.R5", f"escape_name outside folding language: {e}")
        return
    res.ob("C05.R5", f, f, ok, expected="escaped names contain no '.', '>', '#', '-' and are made unique per model",
           found=str(outs), clause="solutions are identified by names", key="escape-unique")
    for cls in ("Gurobi", "CBC"):
        for meth in ("addVar", "addConstr"):
            g = repo.func(f"lpinterface::{cls}.{meth}")
            res.analysed(g)
            cs = [c for c in calls_in(g) if call_name(c) == "escape_name"]
            ok = bool(cs) and all(len(c.args) == 2 and ast.unparse(c.args[1]) == "self.names" for c in cs)
            res.ob("C05.R5", g, cs[0] if cs else g, ok, expected="names go through escape_name(name, self.names)",
                   found=ast.unparse(cs[0]) if cs else "no escape_name call", key=f"escaped:{cls}.{meth}")
    # read-back tables keyed by model.varName(v); prefix tests select one family
    for ref in ("cn::solve_cn_model", "major::solve_major_model"):
        g = repo.func(ref)
        lk = [n for n in walk_local(g) if isinstance(n, ast.Assign) and isinstance(n.targets[0], ast.Name) and isinstance(n.value, (ast.DictComp, ast.Dict))
              and any(isinstance(c_, ast.Call) and isinstance(c_.func, ast.Attribute) and c_.func.attr == "varName" for c_ in ast.walk(n.value))]
        ok = bool(lk)
        keys = []
        if lk:
            for d in ast.walk(lk[0].value):
                if isinstance(d, ast.DictComp):
                    keys.append(ast.unparse(d.key))
            ok = bool(keys) and all(".varName(" in k for k in keys)
        res.ob("C05.R5", g, lk[0] if lk else g, ok, expected="solution names are mapped back through model.varName(v)",
               found=str(keys), key=f"readback:{ref}")
    g = repo.func("major::solve_major_model")
    fams = Families(g)
    prefixes = sorted({p for n in list(fams.containers) + list(fams.scalars) for p in fams.prefix_of(n)})
    tests = [c for c in ast.walk(g) if isinstance(c, ast.Call) and isinstance(c.func, ast.Attribute)
             and c.func.attr == "startswith" and c.args and isinstance(c.args[0], ast.Constant)]
    res.floor("C05.R5", "prefix tests in the major read-out", len(tests), 2)
    for t in tests:
        p = t.args[0].value
        hit = [q for q in prefixes if q.startswith(p) or p.startswith(q) and q]
        binfam = [n for n in fams.containers if any(i["prefix"] == p and i["vtype"] == "B" for i in fams.containers[n]["infos"])]
        ok = len(hit) == 1 and len(binfam) == 1
        res.ob("C05.R5", g, t, ok, expected=f"prefix {p!r} selects exactly one binary family",
               found=f"families with that prefix: {hit}", key=f"prefix:{p}")


def r6(repo, res):
    """The wrapper class folded whole against the recording library on random small models of the shape aldy builds: the solutions
    it yields vs the exhaustive evaluation of the same model; helper exactness (abssum at every optimum, prod in every feasible point)."""
    import random

    from sa.lpmodel import new_model, wrapper_model
    from sa.report import seed as _seed, thorough

    w = wrapper_model(repo)
    prec = module_consts(repo.mod("lpinterface")).get("SOLVER_PRECISON", 1e-5)
    cls = repo.cls("lpinterface::Gurobi")
    res.analysed(repo.func("lpinterface::Gurobi.solutions"), repo.func("lpinterface::Gurobi.abssum"), repo.func("lpinterface::Gurobi.prod"))
    rnd = random.Random(_seed() + 60)
    bad = {}
    n_models = n_points = 0
    try:
        for trial in range(60 if thorough() else 14):
            m, lib = new_model(w, f"m{trial}")
            nb = rnd.randint(2, 7)
            xs = [w.call("addVar", m, [], dict(vtype="B", name=f"x_{i}")) for i in range(nb)]
            es = []
            eqs = []
            for j in range(rnd.randint(1, 4)):
                e = w.call("addVar", m, [], dict(lb=-lib.infinity(), ub=lib.infinity(), name=f"E_{j}"))
                coefs = [rnd.choice([0, 0, 1, 1, 2]) for _ in xs]
                target = rnd.choice([0.0, 0.4, 1.0, 1.3, 2.0, 2.6])
                expr = sum(c_ * x for c_, x in zip(coefs, xs)) + e
                w.call("addConstr", m, [expr <= target], dict(name=f"C_{j}"))
                w.call("addConstr", m, [expr >= target], dict(name=f"C_{j}"))
                es.append(e)
                eqs.append((coefs, target))
            k = rnd.randint(1, min(3, nb))
            card = sum(xs[: rnd.randint(2, nb)])
            w.call("addConstr", m, [card <= k], dict(name="CARD"))
            if rnd.random() < 0.5:
                w.call("addConstr", m, [card >= min(k, 1)], dict(name="CARD"))
            for i in range(1, nb):
                if rnd.random() < 0.3:
                    w.call("addConstr", m, [xs[i] <= xs[i - 1]], dict(name=f"ORD_{i}"))
            weights = {f"E_{j}": rnd.choice([0, 0.5, 2.0, 3]) for j in range(len(es)) if rnd.random() < 0.5}   # explicit zero and fractional weights
            prods = []
            if nb >= 3 and rnd.random() < 0.6:
                r_ = w.call("addVar", m, [], dict(vtype="B", name="P_0"))
                fac = rnd.sample(xs, rnd.randint(1, min(3, nb)))
                w.call("prod", m, [r_, fac], {})
                prods.append((r_, fac))
            lin = [rnd.choice([0.0, 0.1, 0.25, 0.5]) for _ in xs]
            pcost = [rnd.choice([0.2, 0.7]) for _ in prods]
            obj = w.call("abssum", m, [es], dict(coeffs=weights or None)) + sum(c_ * x for c_, x in zip(lin, xs)) \
                + sum(c_ * r_ for c_, (r_, _) in zip(pcost, prods))

            def own_objective(active):
                """The objective of an assignment computed from the model's definition (weights default to 1; 0 is a weight)."""
                xv = [1 if f"x_{i}" in active else 0 for i in range(nb)]
                tot = sum(c_ * v_ for c_, v_ in zip(lin, xv))
                for j, (coefs_, target_) in enumerate(eqs):
                    tot += weights.get(f"E_{j}", 1) * abs(target_ - sum(c_ * v_ for c_, v_ in zip(coefs_, xv)))
                for c_, (r_, fac) in zip(pcost, prods):
                    tot += c_ * int(all(f_.name() in active for f_ in fac))
                return tot
            w.call("setObjective", m, [obj], {})
            gap = rnd.choice([0.0, 0.1, 0.5])
            oracle = lib.enumerate()          # exhaustive evaluation of the model as built (before any cut)
            n_models += 1
            n_points += len(oracle)
            binaries = [v for v in lib.integer_vars()]
            table = {frozenset(v.name() for v in binaries if val[v] == 1): o for o, val in oracle}
            tag = f"model {trial} ({nb} binaries, {len(es)} error terms, {len(prods)} products, gap {gap})"
            # products: in every feasible point the product variable equals the AND of its factors
            for o, val in oracle:
                for r_, fac in prods:
                    if val[r_] != int(all(val[f_] == 1 for f_ in fac)):
                        bad.setdefault("prod", f"{tag}: feasible point with product variable {val[r_]} and factors {[val[f_] for f_ in fac]}")
            got = []
            for status, o, names in w.call("solutions", m, [gap], {}):
                # helper exactness at this optimum: every abssum helper equals the absolute value of its variable
                for v in lib.vars:
                    if v.name().startswith("ABS_"):
                        src = next((u for u in lib.vars if u.name() == v.name()[4:]), None)
                        if src is not None and abs(v.value - abs(src.value)) > 1e-7:
                            bad.setdefault("abssum", f"{tag}: at a yielded solution the helper of {src.name()} is {v.value}, |value| is {abs(src.value)}")
                got.append((frozenset(names), o, status))
                if len(got) > len(table) + 2:
                    bad.setdefault("twice", f"{tag}: more solutions yielded ({len(got)}) than the model has feasible assignments ({len(table)}): the enumeration does not terminate")
                    break
            if not oracle:
                if got:
                    bad.setdefault("feasible", f"{tag}: yields {got[:1]} although the model is infeasible")
                continue
            best = oracle[0][0]
            ub = (1 + gap) * best
            if not got or abs(got[0][1] - best) > 1e-7:
                bad.setdefault("optimum", f"{tag}: first yielded objective {got[0][1] if got else None}, exhaustive optimum {best}")
            for key, o, status in got:
                if key not in table:
                    bad.setdefault("feasible", f"{tag}: yields active binaries {sorted(key)}, which is not a feasible assignment")
                elif abs(table[key] - o) > 1e-7:
                    bad.setdefault("feasible", f"{tag}: yields {sorted(key)} with objective {o}; its objective is {table[key]}")
                elif abs(own_objective(key) - o) > 1e-7:
                    bad.setdefault("abssum", f"{tag}: {sorted(key)} reported with objective {o}; weighted absolute errors + costs = {own_objective(key)} (weights {weights})")
                if o > ub + prec + 1e-9:
                    bad.setdefault("gap", f"{tag}: yields objective {o} beyond (1 + gap) x {best} = {ub}")
            if len({k_ for k_, _, _ in got}) != len(got):
                bad.setdefault("twice", f"{tag}: an assignment is yielded twice")
            if any(got[i][1] > got[i + 1][1] + 1e-9 for i in range(len(got) - 1)):
                bad.setdefault("order", f"{tag}: objectives not non-decreasing: {[round(g_[1], 4) for g_ in got]}")
            yielded = {k_: o for k_, o, _ in got}
            for key, o in table.items():
                if key in yielded or o > ub - prec:
                    continue
                if not any(yk <= key and yo <= o + 1e-9 for yk, yo in yielded.items()):
                    bad.setdefault("complete", f"{tag}: feasible within-gap assignment {sorted(key)} (objective {o}) is not yielded and contains no yielded assignment that scores no worse")
    except Unfoldable as e:
        res.err("C05.R6", f"solver wrapper outside the folding language: {e}")
        return
    except Raised as e:
        res.ob("C05.R6", cls, cls, False, expected="the wrapper builds and enumerates the sample models", found=f"raises {e}", key="models:runs")
        return
    res.count("C05.R6:models", n_models)
    res.count("C05.R6:feasible points enumerated", n_points)
    clauses = {"optimum": "the first yielded solution is a global optimum", "feasible": "every yielded solution is feasible with the objective value reported for it",
               "gap": "every yielded solution is within the gap of the optimum", "twice": "no binary assignment is yielded twice", "order": "solutions come in non-decreasing objective order",
               "complete": "any feasible within-gap assignment that is not yielded has a superset of the active binaries of some yielded solution with no worse objective",
               "abssum": "at any optimum the helper variable equals the sum of absolute values", "prod": "in every feasible point the product variable equals the logical AND of its factors"}
    for key, clause in clauses.items():
        res.ob("C05.R6", cls, cls, key not in bad, expected=clause, found=f"{n_models} models, {n_points} feasible points agree" if key not in bad else bad[key],
               clause=clause, key=f"models:{key}")


def run(repo, res):
    r6(repo, res)
    r1(repo, res)
    r2(repo, res)
    r3(repo, res)
    r4(repo, res)
    r5(repo, res)


MUTANTS = [
    dict(name="R1 one abssum bound dropped", module="lpinterface", expect="C05.R1",
         old='            self.addConstr(absvar - v >= 0, name=f"CABSR_{i}")\n', new=""),
    dict(name="R1 abssum sign flipped", module="lpinterface", expect="C05.R1",
         old='            self.addConstr(absvar - v >= 0, name=f"CABSR_{i}")', new='            self.addConstr(absvar + v >= 0, name=f"CABSR_{i}")'),
    dict(name="R1 abssum drops coefficients", module="lpinterface", expect="C05.R1",
         old="            vv.append(coeff * absvar)", new="            vv.append(absvar)"),
    dict(name="R1 abssum zero weight treated as missing (seeded C05_3 shape)", module="lpinterface", expect="C05.R1",
         old="            coeff = 1 if coeffs is None or name not in coeffs else coeffs[name]", new="            coeff = (coeffs or {}).get(name) or 1"),
    dict(name="R1 abssum subtracted from the objective", module="cn", expect="C05.R1",
         old="    model.setObjective(o_diff + o_fit + o_pars)", new="    model.setObjective(o_diff - o_fit + o_pars)"),
    dict(name="R2 prod constant changed", module="lpinterface", expect="C05.R2",
         old="self.addConstr(res >= self.quicksum(terms) - (len(terms) - 1), name=\"PROD\")",
         new="self.addConstr(res >= self.quicksum(terms) - len(terms), name=\"PROD\")"),
    dict(name="R2 prod upper bounds dropped", module="lpinterface", expect="C05.R2",
         old="        for v in terms:\n            self.addConstr(res <= v, name=\"PROD\")\n", new=""),
    dict(name="R2 prod upper bound only on first factor", module="lpinterface", expect="C05.R2",
         old="        for v in terms:\n            self.addConstr(res <= v, name=\"PROD\")\n",
         new="        for v in terms[:1]:\n            self.addConstr(res <= v, name=\"PROD\")\n"),
    dict(name="R2 product result is a continuous variable", module="minor", expect="C05.R2",
         old='                    vtype="B",\n                    name=f"MUL_K_', new='                    name=f"MUL_K_'),
    dict(name="R3 gap test inverted", module="lpinterface", expect="C05.R3",
         old="            if abs(obj - ub) >= SOLVER_PRECISON and obj > ub:", new="            if abs(obj - ub) >= SOLVER_PRECISON and obj < ub:"),
    dict(name="R3 gap test absolute", module="lpinterface", expect="C05.R3",
         old="            ub = (1 + gap) * best_obj", new="            ub = gap + best_obj"),
    dict(name="R3 best objective overwritten each round", module="lpinterface", expect="C05.R3",
         old="            best_obj = obj if best_obj is None else best_obj", new="            best_obj = obj"),
    dict(name="R3 cut omitted", module="lpinterface", expect="C05.R3",
         old="                self.addConstr(self.quicksum(vv.values()) <= len(vv) - 1)\n", new=""),
    dict(name="R3 cut after the recursion", module="lpinterface", expect="C05.R3",
         old="                self.addConstr(self.quicksum(vv.values()) <= len(vv) - 1)\n                yield from self.solutions(gap, best_obj, limit, iteration + 1, init)",
         new="                yield from self.solutions(gap, best_obj, limit, iteration + 1, init)\n                self.addConstr(self.quicksum(vv.values()) <= len(vv) - 1)"),
    dict(name="R3 cut too weak", module="lpinterface", expect="C05.R3",
         old="self.addConstr(self.quicksum(vv.values()) <= len(vv) - 1)", new="self.addConstr(self.quicksum(vv.values()) <= len(vv))"),
    dict(name="R3 cut over all binaries", module="lpinterface", expect="C05.R3",
         old="                if self.is_binary(v) and self.getValue(v) == 1", new="                if self.is_binary(v)"),
    dict(name="R3 non-optimal status accepted", module="lpinterface", expect="C05.R3",
         old='            if status != "optimal":\n                return\n', new=""),
    dict(name="R3 infeasibility propagates", module="lpinterface", expect="C05.R3",
         old="        except NoSolutionsError:\n            return", new="        except NoSolutionsError:\n            raise"),
    dict(name="R4 verification dropped", module="lpinterface", expect="C05.R4",
         old="        if not self.model.VerifySolution(SOLVER_PRECISON, True):\n            raise NoSolutionsError(status)\n", new=""),
    dict(name="R4 infeasible reported as status", module="lpinterface", expect="C05.R4",
         old="        if status == self.ortools.Solver.INFEASIBLE:\n            raise NoSolutionsError(status)\n        if not", new="        if not"),
    dict(name="R4 read-back not rounded", module="lpinterface", expect="C05.R4",
         old="            x = int(round(x))\n            if (", new="            x = int(x)\n            if ("),
    dict(name="R4 every integer is a bool", module="lpinterface", expect="C05.R4",
         old="                and abs(1 - var.ub()) < SOLUTION_PRECISION", new="                and True"),
    dict(name="R5 names not uniquified", module="lpinterface", expect="C05.R5",
         old='        name = escape_name(kwargs.get("name", ""), self.names)', new='        name = escape_name(kwargs.get("name", ""))'),
    dict(name="R5 read-back keyed by raw name", module="major", expect="C05.R5",
         old="        **{model.varName(v): a for a, v in VA.items()},", new='        **{f"A_{a[0]}_{a[1]}": a for a, v in VA.items()},'),
    # benign
    dict(name="benign: abssum constraints rewritten", module="lpinterface", kind="benign",
         old='            self.addConstr(absvar + v >= 0, name=f"CABSL_{i}")', new='            self.addConstr(absvar >= -v, name=f"CABSL_{i}")'),
    dict(name="benign: prod lower bound rewritten", module="lpinterface", kind="benign",
         old="self.addConstr(res >= self.quicksum(terms) - (len(terms) - 1), name=\"PROD\")",
         new="self.addConstr(res + len(terms) - 1 >= self.quicksum(terms), name=\"PROD\")"),
    dict(name="benign: gap test without the band", module="lpinterface", kind="benign",
         old="            if abs(obj - ub) >= SOLVER_PRECISON and obj > ub:", new="            if obj > ub + SOLVER_PRECISON:"),
]
