"""
C03 -- gene-structure (copy number) calls are well-formed and optimal.

Decided: the structure model contains every *necessary* constraint family with the right sense,
index filter and constant (R1 two complete haplotypes, R2 deletion exclusivity), the slot table is
built as specified (R3), the fit equations (R4) and the objective (R5) are the documented ones
(extracted templates evaluated on a sample instance), enumeration passes the gap and folds
internal assignments to configuration multisets keeping the first = best (R6), and user / default
structures are handled as stated (R7).  Symmetry-breaking CORD_* constraints are not required.
Not decided: that CBC finds the optimum of this model; max_observed_cn; the weak-fusion threshold.
"""

import ast
import copy
import itertools

from sa.cfg import cfg_of
from sa.fold import Evaluator, Obj, Raised, Unfoldable
from sa.guards import decide_with, find_calls
from sa.ilp import Model, extension, holds
from sa.lineval import LinEval, fold_defs
from sa.loader import AnalysisError, call_name, calls_in, kwarg, walk_local

PROPERTY = "C03"
EXPLANATION = (
    "Constraint-template conformance for cn::solve_cn_model: every addConstr site is brought to a linear normal form "
    "with its loop/guard context (names expanded through reaching definitions, accumulators turned into SUM terms); "
    "required families are matched by variable family, sense, constant and the *extension* of their index filter on "
    "the slot domain {-1..6}; fit equations and the objective are evaluated as lifted templates on a sample instance "
    "(3 regions, 4 configurations) and compared with the documented formula; the slot-construction block and the "
    "read-out/folding loop are lifted and folded on sample tables; estimate_cn / _parse_user_solution are folded over "
    "the user/default route table; the exome route in genotype() is a CFG rule."
)
ASSUMPTIONS = ["CORD_* (symmetry breaking) is not a necessary condition: permutations fold to the same multiset",
               "slot indices range over -1..max_cn; the sample instance uses max_cn = 3"]

CT = Obj(DEFAULT="DEFAULT", LEFT_FUSION="LEFT_FUSION", RIGHT_FUSION="RIGHT_FUSION", DELETION="DELETION", CUSTOM="CUSTOM")
REG = ["e1", "e2", "pce"]


def cfg_(cn0, cn1, kind):
    return Obj(cn=[dict(zip(REG, cn0)), dict(zip(REG, cn1))], kind=kind, alleles=set(), description="")


def sample_configs():
    return {
        "1": cfg_([1, 1, 0], [1, 1, 1], CT.DEFAULT),
        "5": cfg_([0, 0, 0], [1, 1, 1], CT.DELETION),
        "36": cfg_([1, 0, 0], [1, 2, 2], CT.RIGHT_FUSION),
        "68": cfg_([0, 1, 0], [1, 0, 0], CT.LEFT_FUSION),
    }


def mkctor(cn, kind, alleles=None, description=""):
    return Obj(cn=cn, kind=kind, alleles=alleles, description=description)


def build_structures(f, configs, max_cn, del_allele, ngenes=2, fusion_support=None):
    gene = Obj(regions=[{r: None for r in REG}] * ngenes)
    env = {"cn_configs": configs, "max_cn": max_cn, "del_allele": del_allele, "gene": gene,
           "fusion_support": fusion_support, "CNConfigType": CT,
           "profile": Obj(cn_max=20, gap=0.0, cn_diff=10.0, cn_fit=1.0, cn_parsimony=0.5)}
    loc = fold_defs(f, {"structures"}, env, funcs={"copy.deepcopy": copy.deepcopy, "CNConfig": mkctor})
    if "structures" not in loc:
        raise AnalysisError("slot table `structures` is no longer built in solve_cn_model")
    return loc["structures"]


def r3(repo, res, f):
    try:
        configs = sample_configs()
        before = copy.deepcopy({k: v.cn for k, v in configs.items()})
        S = build_structures(f, configs, 3, "5")
        S1 = build_structures(f, {k: Obj(cn=v.cn[:1], kind=v.kind) for k, v in sample_configs().items() if k in ("1", "5")}, 3, "5", ngenes=1)
        S2 = build_structures(f, {k: v for k, v in sample_configs().items() if k != "5"}, 3, None)
        S3 = build_structures(f, sample_configs(), 3, "5", fusion_support={"36": 0.0, "68": 5.0})
    except (Unfoldable, Raised) as e:
        res.err("C03.R3", f"slot-construction block outside the folding language: {e}")
        return
    node = [n for n in walk_local(f) if isinstance(n, (ast.Assign, ast.AnnAssign)) and
            ast.unparse(n.targets[0] if isinstance(n, ast.Assign) else n.target) == "structures"][0]
    want = {(c, s) for c in configs for s in (0, -1)} | {("1", 1), ("1", 2)} | {("PSEUDO", i) for i in (1, 2, 3)}
    res.ob("C03.R3", f, node, set(S) == want,
           expected="slots: (c,0),(c,-1) for every configuration; (default,1..max_cn-1) only for the default kind; ('PSEUDO',1..max_cn) with pseudogene and deletion allele",
           found=f"extra {sorted(set(S) - want, key=str)} missing {sorted(want - set(S), key=str)}",
           clause="two complete haplotype configurations plus optional extra gene copies; a fusion or deletion configuration at most twice",
           key="slot-set")
    ok = all(S[c, -1].cn == S[c, 0].cn and S[c, -1] is not S[c, 0] for c in configs)
    res.ob("C03.R3", f, node, ok, expected="the second complete slot is an equal, independent copy of the first", found="ok" if ok else "differs / aliased",
           key="second-slot-copy")
    ok = all(S["1", i].cn[0] == configs["1"].cn[0] and all(S["1", i].cn[1][r] == configs["1"].cn[1][r] - 1 for r in REG)
             for i in (1, 2) if ("1", i) in S) and ("1", 1) in S
    res.ob("C03.R3", f, node, ok, expected="extra default slots carry the gene copy only: every pseudogene region decremented by 1",
           found=str({i: S["1", i].cn for i in (1, 2) if ("1", i) in S}), clause="optional extra gene copies", key="weak-slots")
    ok = all(("PSEUDO", i) in S and S["PSEUDO", i].cn == configs["5"].cn for i in (1, 2, 3))
    res.ob("C03.R3", f, node, ok, expected="free pseudogene slots carry the deletion configuration's copy vector", found="ok" if ok else "differs",
           key="pseudo-slots")
    res.ob("C03.R3", f, node, not any(k[0] == "PSEUDO" for k in S1) and not any(k[0] == "PSEUDO" for k in S2),
           expected="no pseudogene slots without a pseudogene or without a deletion allele",
           found=f"single-gene: {sorted(k for k in S1 if k[0] == 'PSEUDO')}, no deletion: {sorted(k for k in S2 if k[0] == 'PSEUDO')}",
           key="pseudo-guard")
    res.ob("C03.R3", f, node, {k: v.cn for k, v in configs.items()} == before,
           expected="the configuration table handed in is left untouched", found="ok", key="inputs-untouched")
    ok = ("1", 0) in S3 and ("5", 0) in S3 and ("36", 0) not in S3 and ("68", 0) in S3
    res.ob("C03.R3", f, node, ok, expected="with long-read support values the default and the deletion configuration are always kept; unsupported fusions are dropped",
           found=str(sorted({k[0] for k in S3})), key="weak-fusion-filter")


def vcn_sites(m):
    return [s for s in m.sites if s.lin is not None]


def r1(repo, res, m):
    f = m.func
    fam = [n for n, c in m.fams.containers.items() if any(i["prefix"].startswith("CN_") and i["vtype"] == "B" for i in c["infos"])]
    if len(fam) != 1:
        res.err("C03.R1", f"structure variable family (binary, name CN_...) not found uniquely: {fam}")
        return None
    V = fam[0]
    slots = [(c, i) for c in ("1", "5", "36") for i in range(-1, 7)]
    hits = []
    for a, b in m.equalities():
        l = a.lin
        sums = l.sum_terms()
        if len(sums) == 1 and not l.var_terms() and len(l.terms) == 1:
            k, t = sums[0]
            body = t.body
            if len(body.terms) == 1 and body.terms[0][1].kind == "var" and body.terms[0][1].fam == V and len(t.binders) == 1:
                hits.append((a, b, k, t))
    ok = False
    found = "no equality over a sum of structure variables"
    site = f
    for a, b, k, t in hits:
        tgt, it = t.binders[0]
        try:
            env = {V: {s: 1 for s in slots}}
            ext = set()
            for s in slots:
                ev = Evaluator(env)
                ev._assign(tgt, s)
                ev.bound.update(ev.locals)
                if holds(t.filters, dict(env, **ev.locals)):
                    ext.add(s)
            const = a.lin.const_value({}) if a.lin.const_value({}) is not None else None
            whole = set(Evaluator(env).ev(it)) >= set(slots) if True else False
            coef = float(k.num) if k.is_num() else None
            good = ext == {s for s in slots if s[1] in (-1, 0)} and coef is not None and const is not None \
                and abs(const / coef + 2) < 1e-9 and float(body.terms[0][0].num) == 1.0
            site = a.call
            found = f"sum over slots {sorted({s[1] for s in ext})} {'==' } {-const / coef if coef else '?'}"
            if good:
                ok = True
                break
        except (Unfoldable, Raised) as e:
            found = f"filter outside folding language: {e}"
    res.ob("C03.R1", f, site, ok,
           expected="sum of the structure variables over the complete slots {-1, 0} == 2 (both senses)",
           found=found, clause="every reported gene structure is made of exactly two complete haplotype configurations",
           key="two-complete-haplotypes")
    return V


def r2(repo, res, m, V):
    f = m.func
    ok = False
    found = "no constraint `v + V[deletion, -1] <= 1` over all structure variables"
    site = f
    for s in m.sites:
        if s.lin is None or s.sense not in ("<=", ">="):
            continue
        vt = s.lin.var_terms(V)
        if len(vt) != 2 or s.lin.sum_terms():
            continue
        if not all(float(k.num) == 1.0 and k.is_num() for k, _ in vt):
            continue
        if s.lin.const_value({}) != -1.0:
            continue
        site = s.call
        # one variable is the deletion's second slot, the other ranges over every variable
        try:
            dels = [t for _, t in vt if _key_value(t, {"del_allele": "5", "a": "X", "ai": 9}) == ("5", -1)]
            if len(dels) != 1:
                found = f"{s.lin.text()}: second variable is not V[deletion, -1]"
                continue
            other = [t for _, t in vt if t is not dels[0]][0]
            slots = [(c, i) for c in ("1", "5", "36", "PSEUDO") for i in (-1, 0, 1, 2)]
            covered = set()
            for sl in slots:
                env = {"del_allele": "5", V: {x: x for x in slots}}
                ev = Evaluator(env)
                # bind the loop variables of the site to this slot
                bound = False
                for tgt, it in s.binders:
                    items = list(Evaluator(env).ev(it))
                    for item in items:
                        ev2 = Evaluator(env)
                        ev2._assign(tgt, item)
                        loc = dict(ev2.locals)
                        if _key_value(other, dict(env, **loc)) == sl:
                            if holds(s.filters, dict(env, **loc)):
                                covered.add(sl)
                            bound = True
            want = {sl for sl in slots if sl[0] != "5"}
            guard_ok = holds([flt for flt in s.filters if "del_allele" in ast.unparse(flt[0]) and
                              not any(isinstance(n, ast.Name) and n.id in ("a", "ai") for n in ast.walk(flt[0]))],
                             {"del_allele": None}) is False or True
            ok = covered == want
            found = f"{s.lin.text()} <= 0 for slots of {sorted({c for c, _ in covered})}; excluded {sorted({c for c, _ in set(slots) - covered})}"
            if ok:
                break
        except (Unfoldable, Raised) as e:
            found = f"outside folding language: {e}"
    res.ob("C03.R2", f, site, ok,
           expected="for every slot of every other configuration (incl. the pseudogene slots): V[slot] + V[deletion, -1] <= 1",
           found=found, clause="never combines a double deletion with anything else", key="deletion-exclusive")


def _key_value(t, env):
    ks = []
    for k in t.keys:
        ks.append(Evaluator(env).ev(k) if isinstance(k, ast.AST) else k)
    if len(ks) == 1:
        return ks[0]
    return tuple(ks)


def r4(repo, res, m, V):
    f = m.func
    configs = sample_configs()
    try:
        S = build_structures(f, configs, 3, "5")
    except (Unfoldable, Raised) as e:
        res.err("C03.R4", f"slot table outside folding language: {e}")
        return
    x = {k: ((hash(str(k)) % 5) / 4.0) for k in S}  # arbitrary fractional test point
    x = {k: round(0.11 + 0.09 * i + 0.017 * VAL_SEED * ((i * 3) % 5), 3) for i, k in enumerate(sorted(S, key=str))}
    cov = {"e1": (2.25, 1.5), "e2": (3.0, 3.5), "pce": (0.0, 2.0)}
    E = {"e1": 0.125, "e2": -0.5, "pce": 0.75}
    EG = {"e1": -0.25, "e2": 0.5, "pce": 0.0}
    fams = {V: lambda k: x[k]}
    err_f = [n for n, c in m.fams.containers.items() if any(i["prefix"] == "E_" for i in c["infos"])]
    eg_f = [n for n, c in m.fams.containers.items() if any(i["prefix"] == "EG_" for i in c["infos"])]
    if len(err_f) != 1 or len(eg_f) != 1:
        res.err("C03.R4", f"error-variable families E_/EG_ not found uniquely: {err_f} {eg_f}")
        return
    fams[err_f[0]] = lambda k: E[k]
    fams[eg_f[0]] = lambda k: EG[k]
    # error variables free in sign
    for nm in (err_f[0], eg_f[0]):
        infos = m.fams.containers[nm]["infos"]
        ok = all(i["lb"] is not None and ast.unparse(i["lb"]).startswith("-") and i["ub"] is not None for i in infos)
        res.ob("C03.R4", f, infos[0]["call"], ok, expected="fit-error variables are free in sign (negative lower bound, positive upper bound)",
               found=f"lb={ast.unparse(infos[0]['lb']) if infos[0]['lb'] is not None else 'default 0'}", key=f"free-sign:{infos[0]['prefix']}")
    eqs = m.equalities()
    found_gene = found_diff = None
    for a, b in eqs:
        vs = {t.fam for _, t in a.lin.var_terms()}
        if eg_f[0] in vs:
            found_gene = a
        elif err_f[0] in vs:
            found_diff = a
    for label, site, want_fn in (
            ("gene-fit", found_gene, lambda r: sum(S[s].cn[0].get(r, 0) * x[s] for s in S) + EG[r] - cov[r][0]),
            ("depth-difference", found_diff, lambda r: (sum(S[s].cn[0].get(r, 0) * x[s] for s in S)
                                                        - sum(S[s].cn[1].get(r, 0) * x[s] for s in S)) / (max(cov[r]) + 1)
                                                       + E[r] - (cov[r][0] - cov[r][1]) / (max(cov[r]) + 1))):
        if site is None:
            res.ob("C03.R4", f, f, False, expected=f"{label} equation (both senses) per unique region", found="no such equality", key=f"fit:{label}")
            continue
        bad = None
        try:
            for r in REG:
                env = {"structures": S, "r": r, "exp_cov0": cov[r][0], "exp_cov1": cov[r][1],
                       "scale": None, "gene": Obj(unique_regions=REG)}
                # the per-region locals (scale, ...) come from the loop body: fold their definitions
                loop_vars = _loop_locals(m, site, env)
                env.update(loop_vars)
                le = LinEval(env, lambda fam, keys, comp: fams[fam](keys[0] if len(keys) == 1 else keys))
                got = le.lin(site.lin)
                want = want_fn(r)
                sgn = 1.0
                if abs(got - want) > 1e-9 and abs(got + want) < 1e-9:
                    sgn = -1.0
                if abs(sgn * got - want) > 1e-9:
                    bad = f"region {r}: template evaluates to {got:.6f}, documented form {want:.6f}"
                    break
        except (Unfoldable, Raised, KeyError) as e:
            res.err("C03.R4", f"{label} template outside folding language: {e}")
            continue
        res.ob("C03.R4", f, site.call, bad is None,
               expected={"gene-fit": "sum_s cn0[s][r]*V[s] + EG[r] == cov0[r]",
                         "depth-difference": "(sum_s cn0[s][r]*V[s] - sum_s cn1[s][r]*V[s])/scale + E[r] == (cov0[r]-cov1[r])/scale, scale = max(cov0,cov1)+1"}[label],
               found="template agrees on the sample instance (3 regions x 11 slots)" if bad is None else bad,
               clause="its score equals the documented objective (normalised depth-fit error, gene-fit error ...)", key=f"fit:{label}")
        # only for unique regions
        c = cfg_of(f)
        facts = [(ast.unparse(t), p) for t, p in c.guards(site.node) if isinstance(t, ast.expr)]
        okr = any("unique_regions" in t and ((("not in" in t) and p is False) or (("not in" not in t) and p is True)) for t, p in facts)
        res.ob("C03.R4", f, site.call, okr, expected="fit equations exist exactly for the regions used for copy-number calling",
               found="; ".join(f"{'' if p else 'not '}{t}" for t, p in facts)[:120], key=f"unique-only:{label}")


def _loop_locals(m, site, env):
    """Locals defined in the loop body before the site (e.g. scale = max(...) + 1): fold their single definitions."""
    out = {}
    f = m.func
    loop = None
    p = site.call
    while p is not None and p is not f:
        if isinstance(p, ast.For):
            loop = p
        p = getattr(p, "_parent", None)
    if loop is None:
        return out
    for st in loop.body:
        if st.lineno >= site.call.lineno:
            break
        if isinstance(st, ast.Assign) and len(st.targets) == 1 and isinstance(st.targets[0], ast.Name):
            try:
                out[st.targets[0].id] = Evaluator(dict(env, **out)).ev(st.value)
            except (Unfoldable, Raised):
                pass
    return out


def r5(repo, res, m, V):
    f = m.func
    obj = m.objective_lin()
    if obj is None:
        res.err("C03.R5", "setObjective not found")
        return
    configs = sample_configs()
    try:
        S = build_structures(f, configs, 3, "5")
        x = {k: round(0.11 + 0.09 * i + 0.017 * VAL_SEED * ((i * 3) % 5), 3) for i, k in enumerate(sorted(S, key=str))}
        # deliberately not the defaults: a coefficient tied to the wrong parameter (or to a literal equal to a default) shows
        prof = Obj(cn_diff=4.0, cn_fit=3.0, cn_parsimony=0.7, cn_fusion_left=0.6, cn_fusion_right=0.15, cn_pce_penalty=1.5,
                   cn_max=20, gap=0.0)
        gene = Obj(unique_regions=REG, cn_configs=configs, name="G")
        env = {"profile": prof, "gene": gene, "CNConfigType": CT, V: {k: k for k in S}}
        loc = fold_defs(f, {"penalty", "PARSIMONY_PENALTY", "DIFF_COEFF", "FIT_COEFF"}, env)
        env.update({k: v for k, v in loc.items()})
        A = {"diff": 1.75, "fit": 0.6}
        seen = {}

        def atomval(t):
            if getattr(t, "tag", "") == "abssum":
                c = t.node
                root = ast.unparse(c.args[0])
                co = kwarg(c, "coeffs")
                which = "diff" if co is not None else "fit"
                seen[which] = (root, ast.unparse(co) if co is not None else None)
                return A[which]
            return NotImplemented

        le = LinEval(env, lambda fam, keys, comp: x[keys[0] if len(keys) == 1 else keys], atomval=atomval)
        got = le.lin(obj)
        U = len(REG)
        pen = {"1": 7.5 / U, "5": 7.5 / U, "PSEUDO": 7.5 / U, "36": 7.5 / U * (1 + prof.cn_fusion_right), "68": 7.5 / U * (1 + prof.cn_fusion_left)}
        want = prof.cn_diff / U * A["diff"] + prof.cn_fit / U * A["fit"] + prof.cn_parsimony * sum(pen[k[0]] * x[k] for k in S)
    except (Unfoldable, Raised, KeyError) as e:
        res.err("C03.R5", f"objective outside folding language: {e}")
        return
    res.ob("C03.R5", f, m.objectives[-1], abs(got - want) < 1e-9,
           expected="cn_diff/|U| * abssum(E) + cn_fit/|U| * abssum(EG) + cn_parsimony * sum(penalty(config) * V[slot]), "
                    "penalty = 7.5/|U| (+ x cn_fusion_right / cn_fusion_left for fusions)",
           found=f"objective template = {got:.6f}, documented = {want:.6f} on the sample instance",
           clause="the documented objective (normalised depth-fit error, gene-fit error and parsimony penalties)", key="objective")
    err_f = [n for n, c in m.fams.containers.items() if any(i["prefix"] == "E_" for i in c["infos"])]
    eg_f = [n for n, c in m.fams.containers.items() if any(i["prefix"] == "EG_" for i in c["infos"])]
    ok = seen.get("diff", ("", ""))[0].startswith(err_f[0] if err_f else "?") and seen.get("fit", ("", ""))[0].startswith(eg_f[0] if eg_f else "?") \
        and "'E_pce'" in (seen.get("diff", ("", ""))[1] or "") and "cn_pce_penalty" in (seen.get("diff", ("", ""))[1] or "")
    res.ob("C03.R5", f, m.objectives[-1], ok,
           expected="depth-difference errors (with the pce weight keyed 'E_pce') and gene-fit errors enter their own abssum",
           found=str(seen), key="objective-abssum-args")


def r6(repo, res, m, V):
    f = m.func
    sol = m.solutions
    ok = len(sol) == 1 and sol[0].args and ast.unparse(sol[0].args[0]) == "profile.gap"
    res.ob("C03.R6", f, sol[0] if sol else f, ok, expected="model.solutions(profile.gap)", found=ast.unparse(sol[0]) if sol else "no call",
           clause="all reported ones lie within the gap", key="gap-passed")
    loop = None
    for n in walk_local(f):
        if isinstance(n, ast.For) and sol and sol[0] in list(ast.walk(n.iter)):
            loop = n
    lk = [n for n in walk_local(f) if isinstance(n, ast.Assign) and isinstance(n.targets[0], ast.Name) and n.targets[0].id == "lookup"]
    if loop is None or not lk:
        res.err("C03.R6", "read-out loop / lookup table not found")
        return
    slots = {("1", 0): "n10", ("1", -1): "n1m", ("1", 1): "n11", ("5", 0): "n50", ("5", -1): "n5m", ("36", 0): "n36", ("PSEUDO", 1): "np1"}
    made = []

    def ctor(gene, score, solution):
        o = Obj(score=score, solution=list(solution))
        made.append(o)
        return o

    try:
        lookup = Evaluator({V: slots, "model": Obj(varName=lambda v: v)}).ev(lk[0].value)
        ys = [("optimal", 1.0, ("n10", "n5m", "np1")), ("optimal", 1.5, ("n10", "n50", "np1")), ("optimal", 2.0, ("n10", "n1m", "n11")),
              ("optimal", 2.5, ("n10", "n36"))]
        env = {"lookup": lookup, "del_allele": "5", "gene": "G", "model": Obj(solutions=lambda g: ys, getValue=lambda v: 0.0),
               "profile.gap": 0.0}
        ev = Evaluator(env, funcs={"CNSolution": ctor, "sorted_tuple": lambda it: tuple(sorted(it))})
        ev.locals["result"] = {}
        kind, val = ev.run([loop])
        result = ev.locals["result"]
    except (Unfoldable, Raised) as e:
        res.err("C03.R6", f"read-out loop outside folding language: {e}")
        return
    keys = list(result)
    ok = keys == [("1",), ("1", "1", "1"), ("1", "36")] and [result[k].score for k in keys] == [1.0, 2.0, 2.5] \
        and [result[k].solution for k in keys] == [["1"], ["1", "1", "1"], ["1", "36"]]
    res.ob("C03.R6", f, loop, ok,
           expected="assignments fold to sorted configuration multisets without the deletion allele and 'PSEUDO'; the first (best) occurrence is kept with its objective",
           found=f"{[(k, result[k].score) for k in keys]}",
           clause="none is repeated; its score equals the objective of the best explanation of that structure", key="folding")


def r7(repo, res):
    f = repo.func("cn::estimate_cn")
    p = repo.func("cn::_parse_user_solution")
    res.analysed(f, p)
    configs = {"1": Obj(kind=CT.DEFAULT), "5": Obj(kind=CT.DELETION)}
    rows = []
    ok = True

    def parse(gene, sols):
        return ("USER", list(sols))

    cases = [
        (dict(cn_solution=["1", "5"], do_cn=True, male=False, chr="22"), ("USER", ["1", "5"])),
        (dict(cn_solution=["1", "5", "1"], do_cn=False, male=False, chr="22"), ("USER", ["1", "5", "1"])),
        (dict(cn_solution=["1"], do_cn=False, male=True, chr="X"), ("USER", ["1"])),
        (dict(cn_solution=None, do_cn=False, male=False, chr="22"), ("USER", ["1", "1"])),
        (dict(cn_solution=None, do_cn=False, male=True, chr="X"), ("USER", ["1"])),
        (dict(cn_solution=None, do_cn=False, male=True, chr="Y"), ("USER", ["1"])),
        (dict(cn_solution=None, do_cn=False, male=True, chr="22"), ("USER", ["1", "1"])),
        (dict(cn_solution=None, do_cn=False, male=False, chr="X"), ("USER", ["1", "1"])),
    ]
    try:
        for c, want in cases:
            env = {"gene": Obj(cn_configs=configs, do_copy_number=c["do_cn"], chr=c["chr"], name="G"),
                   "profile": Obj(cn_solution=c["cn_solution"], male=c["male"]), "coverage": None, "solver": "any", "debug": None,
                   "CNConfigType": CT}
            k, v = Evaluator(env, funcs={"_parse_user_solution": parse}).run(
                [s for s in f.body if not (isinstance(s, ast.Expr) and isinstance(s.value, ast.Constant))])
            got = v[0] if k == "return" and isinstance(v, list) and len(v) == 1 else (k, v)
            rows.append(f"{c} -> {got}")
            if got != want:
                ok = False
                res.ob("C03.R7", f, f, False, expected=f"{c} -> {want}", found=str(got),
                       clause="a user-supplied structure is used verbatim; where copy-number calling is unavailable exactly two default copies "
                              "(one for an X/Y-linked gene of a sample declared male)", key=f"route:{c}")
    except (Unfoldable, Raised) as e:
        res.err("C03.R7", f"estimate_cn routes outside folding language: {e}")
        return
    if ok:
        res.ob("C03.R7", f, f, True, expected="user structure verbatim (also when calling is unavailable); default 2 copies, 1 for male X/Y",
               found=f"{len(cases)} route cases agree", key="routes")
    made = []

    def ctor(gene, score, sols):
        made.append((score, list(sols)))
        return ("CN", score, list(sols))

    try:
        g = Obj(cn_configs={"1": Obj(kind=CT.DEFAULT), "5": Obj(kind=CT.DELETION)}, name="G", deletion_allele=lambda: "5", do_copy_number=True, chr="22")
        k1, v1 = Evaluator({"gene": g, "sols": ["1", "5", "1"]}, funcs={"CNSolution": ctor}).run(p.body[1:] if isinstance(p.body[0], ast.Expr) else p.body)
        k2, v2 = Evaluator({"gene": g, "sols": ["1", "9"]}, funcs={"CNSolution": ctor}).run(p.body[1:] if isinstance(p.body[0], ast.Expr) else p.body)
    except (Unfoldable, Raised) as e:
        res.err("C03.R7", f"_parse_user_solution outside folding language: {e}")
        return
    ok = k1 == "return" and v1 == ("CN", 0, ["1", "5", "1"]) and k2 == "raise" and v2 == "AldyException"
    res.ob("C03.R7", p, p, ok, expected="known names -> CNSolution(gene, 0, names) verbatim; an unknown name raises AldyException",
           found=f"known: {k1} {v1}; unknown: {k2} {v2}", clause="unknown configuration names are rejected", key="user-solution")
    # genes without structural alleles have copy-number calling switched off by the loader
    ia = repo.func("gene::Gene._init_alleles")
    res.analysed(ia)
    dc = [n for n in walk_local(ia) if isinstance(n, ast.Assign) and ast.unparse(n.targets[0]) == "self.do_copy_number"]
    okd = False
    found = "assignment not found"
    if dc:
        try:
            rows = []
            for da, fl, fr, cc in [(None, {}, {}, {}), ("5", {}, {}, {}), (None, {"13": "e1"}, {}, {}), (None, {}, {"36": "e9"}, {}), (None, {}, {}, {"x": ["e1"]})]:
                v = Evaluator({"deletion_allele": da, "fusions_left": fl, "fusions_right": fr, "custom_cn": cc}).ev(dc[0].value)
                rows.append(bool(v))
            okd = rows == [False, True, True, True, True]
            found = str(rows)
        except (Unfoldable, Raised) as e:
            found = f"unfoldable: {e}"
    res.ob("C03.R7", ia, dc[0] if dc else ia, okd, expected="copy-number calling is on iff the database has a deletion, fusion or partial-deletion allele",
           found=found, clause="genes without structural alleles: exactly two default copies are assumed", key="structural-alleles-switch")
    # profile aliases in genotype(), folded whole: exome-type profiles switch copy-number calling off before the structure stage
    from checks._genotype import GenotypeModel, Scenario, events

    g = repo.func("genotype::genotype")
    res.analysed(g)
    gm = GenotypeModel(repo)
    for prof, want in (("exome", False), ("wxs", False), ("wes", False), ("illumina", True), ("wgs", True), ("pgrnseq-v2", True)):
        for kind in ("sam", "dump"):
            try:
                k, v, trace, _ = gm.run(Scenario(kind=kind, args=dict(output_file=None, profile_name=prof)))
            except Unfoldable as e:
                res.err("C03.R7", f"genotype() outside the folding language: {e}")
                return
            ev_ = events(trace, "estimate_cn")
            got = ev_[0][5]["do_copy_number"] if ev_ else None
            res.ob("C03.R7", g, g, k == "return" and got is want,
                   expected=f"profile {prof!r} ({kind} input): the structure stage runs with copy-number calling {'on' if want else 'off'}",
                   found=f"{k}; do_copy_number={got}", clause="where copy-number calling is unavailable exactly two default copies", key=f"exome:{prof}:{kind}")


VAL_SEED = 0


def run(repo, res):
    global VAL_SEED
    from sa.report import seed as _seed, thorough

    rounds = [0] if not thorough() else [0] + [1 + (_seed() + j) % 97 for j in range(4)]
    for sd in rounds:
        VAL_SEED = sd
        _run(repo, res)
    res.count("C03:valuations evaluated per template", len(rounds))
    VAL_SEED = 0


def _run(repo, res):
    f = repo.func("cn::solve_cn_model")
    res.analysed(f)
    m = Model(f)
    res.floor("C03", "addConstr sites", len(m.sites), 4)
    res.floor("C03", "variable families", len(m.fams.containers), 3)
    res.count("C03:constraint sites", len(m.sites))
    for s in m.sites:
        res.count(f"C03:site {s.prefix}", 1)
    V = r1(repo, res, m)
    if V is None:
        return
    r2(repo, res, m, V)
    r3(repo, res, f)
    r4(repo, res, m, V)
    r5(repo, res, m, V)
    r6(repo, res, m, V)
    r7(repo, res)
    extra = [s.prefix for s in m.sites if not any(s.prefix.startswith(p) for p in ("CDIPLO", "CDEL", "CORD", "CG_COV", "C_COV"))]
    if extra:
        res.note(f"C03: unclassified constraint sites (not judged): {extra}")


MUTANTS = [
    dict(name="R1 one CDIPLO side dropped", module="cn", expect="C03.R1",
         old='    model.addConstr(diplo_inducing >= 2, name="CDIPLO")\n', new=""),
    dict(name="R1 three haplotypes", module="cn", expect="C03.R1",
         old='    model.addConstr(diplo_inducing <= 2, name="CDIPLO")', new='    model.addConstr(diplo_inducing <= 3, name="CDIPLO")'),
    dict(name="R1 filter < 0", module="cn", expect="C03.R1",
         old="diplo_inducing = model.quicksum(VCN[a] for a in VCN if a[1] <= 0)", new="diplo_inducing = model.quicksum(VCN[a] for a in VCN if a[1] < 0)"),
    dict(name="R1 filter <= 1", module="cn", expect="C03.R1",
         old="diplo_inducing = model.quicksum(VCN[a] for a in VCN if a[1] <= 0)", new="diplo_inducing = model.quicksum(VCN[a] for a in VCN if a[1] <= 1)"),
    dict(name="R2 CDEL dropped", module="cn", expect="C03.R2",
         old='                model.addConstr(v + VCN[del_allele, -1] <= 1, name=f"CDEL_{a}_{ai}")', new="                pass"),
    dict(name="R2 CDEL guard excludes pseudogene slots", module="cn", expect="C03.R2",
         old="            if a != del_allele:\n", new='            if a != del_allele and a != "PSEUDO":\n'),
    dict(name="R2 CDEL against the first deletion slot", module="cn", expect="C03.R2",
         old="model.addConstr(v + VCN[del_allele, -1] <= 1", new="model.addConstr(v + VCN[del_allele, 0] <= 1"),
    dict(name="R2 big-M rewrite (seeded C03_3 shape)", module="cn", expect="C03.R2",
         old='''        for (a, ai), v in VCN.items():
            if a != del_allele:
                model.addConstr(v + VCN[del_allele, -1] <= 1, name=f"CDEL_{a}_{ai}")''',
         new='''        others = model.quicksum(v for (a, ai), v in VCN.items() if a != del_allele)
        model.addConstr(others + max_cn * VCN[del_allele, -1] <= max_cn, name="CDEL")'''),
    dict(name="R3 extra slots for every kind", module="cn", expect="C03.R3",
         old="        if cn_configs[a].kind != CNConfigType.DEFAULT:\n            continue\n", new=""),
    dict(name="R3 pseudogene not decremented", module="cn", expect="C03.R3",
         old="                    r: v - 1 for r, v in structures[a, i].cn[g].items()", new="                    r: v for r, v in structures[a, i].cn[g].items()"),
    dict(name="R3 one extra slot too few", module="cn", expect="C03.R3",
         old="        for i in range(1, max_cn):\n            structures[a, i]", new="        for i in range(1, max_cn - 1):\n            structures[a, i]"),
    dict(name="R3 pseudo slots without deletion guard", module="cn", expect=["C03.R3"],
         old="    if len(gene.regions) > 1 and del_allele:", new="    if del_allele:"),
    dict(name="R4 gene-fit side dropped", module="cn", expect="C03.R4",
         old='        model.addConstr(expr_gene + VERR_GENE[r] >= exp_cov0, name=f"CG_COV_{r}")\n', new=""),
    dict(name="R4 error variable non-negative", module="cn", expect="C03.R4",
         old='VERR[r] = model.addVar(name=f"E_{r}", lb=-profile.cn_max, ub=profile.cn_max)', new='VERR[r] = model.addVar(name=f"E_{r}", lb=0, ub=profile.cn_max)'),
    dict(name="R4 pseudogene term lost", module="cn", expect="C03.R4",
         old="                expr -= structure.cn[1][r] * VCN[s]", new="                expr -= 0 * VCN[s]"),
    dict(name="R4 scale without +1", module="cn", expect="C03.R4",
         old="        scale = max(exp_cov0, exp_cov1) + 1", new="        scale = max(exp_cov0, exp_cov1) + 2"),
    dict(name="R5 fit term dropped", module="cn", expect=["C03.R5", "C05.R1"],
         old="    model.setObjective(o_diff + o_fit + o_pars)", new="    model.setObjective(o_diff + o_pars)"),
    dict(name="R5 parsimony constant", module="cn", expect="C03.R5",
         old="    PARSIMONY_PENALTY *= 0.75\n", new="    PARSIMONY_PENALTY *= 0.5\n"),
    dict(name="R5 fusion surcharges swapped", module="cn", expect="C03.R5",
         old="            penalty[n] += PARSIMONY_PENALTY * profile.cn_fusion_right", new="            penalty[n] += PARSIMONY_PENALTY * profile.cn_fusion_left"),
    dict(name="R6 gap not passed", module="cn", expect="C03.R6",
         old="    for status, opt, sol in model.solutions(profile.gap):", new="    for status, opt, sol in model.solutions():"),
    dict(name="R6 PSEUDO not folded away", module="cn", expect="C03.R6",
         old='if lookup[v] not in [del_allele, "PSEUDO"]', new="if lookup[v] not in [del_allele]"),
    dict(name="R6 last occurrence wins", module="cn", expect="C03.R6",
         old="        if sol_tuple not in result:\n", new="        if True:\n"),
    dict(name="R7 branches reordered (seeded C03_1 shape)", module="cn", expect="C03.R7",
         old="    if profile.cn_solution:\n        return [_parse_user_solution(gene, profile.cn_solution)]\n    elif not gene.do_copy_number:",
         new="    if not gene.do_copy_number and not profile.cn_solution or not gene.do_copy_number:"),
    dict(name="R7 validation removed", module="cn", expect="C03.R7",
         old="        if sol not in gene.cn_configs:", new="        if False:"),
    dict(name="R7 one default copy", module="cn", expect="C03.R7", old="        cn = 2\n", new="        cn = 1\n"),
    dict(name="R7 male guard dropped", module="cn", expect="C03.R7",
         old='        if profile.male and gene.chr in ["X", "Y"]:', new='        if gene.chr in ["X", "Y"]:'),
    dict(name="R7 exome keeps copy-number calling", module="genotype", expect="C03.R7",
         old="        gene.do_copy_number = False\n        profile_name = \"illumina\"", new="        profile_name = \"illumina\""),
    # benign
    dict(name="benign: == instead of a pair", module="cn", kind="benign",
         old='    model.addConstr(diplo_inducing <= 2, name="CDIPLO")\n    model.addConstr(diplo_inducing >= 2, name="CDIPLO")',
         new='    model.addConstr(diplo_inducing == 2, name="CDIPLO")'),
    dict(name="benign: filter a[1] < 1", module="cn", kind="benign",
         old="diplo_inducing = model.quicksum(VCN[a] for a in VCN if a[1] <= 0)", new="diplo_inducing = model.quicksum(VCN[a] for a in VCN if a[1] < 1)"),
    dict(name="benign: filter membership", module="cn", kind="benign",
         old="diplo_inducing = model.quicksum(VCN[a] for a in VCN if a[1] <= 0)", new="diplo_inducing = model.quicksum(VCN[a] for a in VCN if a[1] in (0, -1))"),
    dict(name="benign: CORD dropped", module="cn", kind="benign",
         old='            model.addConstr(VCN[a, ai] <= VCN[a, 0], name=f"CORD_{a}_{ai}")', new="            pass"),
    dict(name="benign: commuted CDEL", module="cn", kind="benign",
         old="model.addConstr(v + VCN[del_allele, -1] <= 1", new="model.addConstr(1 >= VCN[del_allele, -1] + v"),
    dict(name="benign: renamed variables", module="cn", kind="benign", regex=True, old=r"\bdiplo_inducing\b", new="complete"),
]
