"""
C03 -- gene-structure (copy number) calls are well-formed and optimal.

Decided by whole-function folding against a recording stand-in for the MILP library (sa.lpmodel): cn.solve_cn_model
and the solver wrapper class of /repo (lpinterface.CBC with its inherited abssum / prod / solutions) are executed by
the analysis' interpreter on sample instances; the model they build is read off the stand-in and compared, by
exhaustive enumeration of its integer variables (continuous part by the analysis' own simplex), with an
independently written reference of the documented model:
(R8) same structure variables; same admissible structures (up to the naming of equivalent slots); the same
     objective on every admissible structure; the configuration table handed in is untouched;
(R9) the reported list satisfies the statement clause by clause (admissible, score = best explanation, best first,
     within the gap, no repetition, missing within-gap structures contain a reported one that scores no worse);
(R7) user / default structures (estimate_cn, _parse_user_solution folded over the route table; profile aliases by
     whole-function folding of genotype()).
The earlier template rules R1-R6 (per-constraint normal forms keyed by local names) were retired for R8/R9.
Not decided: that CBC finds the optimum of the model it is given; max_observed_cn.
"""

import ast
import collections
import copy
import itertools

from sa.cfg import cfg_of
from sa.fold import Evaluator, Obj, Raised, Unfoldable
from sa.guards import decide_with, find_calls, names_assigned_from
from sa.ilp import Model, extension, holds
from sa.lineval import LinEval, fold_defs
from sa.loader import AnalysisError, call_name, calls_in, kwarg, walk_local

PROPERTY = "C03"
EXPLANATION = (
    "Model extraction by whole-function folding: solve_cn_model + lpinterface.CBC/Gurobi (abssum, prod, solutions) of /repo run in the "
    "analysis' interpreter against a recording library stand-in; per sample instance (fixed and seeded random: 2-4 configurations, "
    "1-2 gene parts, max 3-4 copies, planted structure + noise, gap in {0,.1,.3,.6}, non-default coefficients, fusion support values) "
    "the extracted model is enumerated exhaustively and compared pointwise with an independent reference of the documented model; "
    "the reported list is checked clause by clause. Routes (user structure, default copies, aliases) by folding estimate_cn, "
    "_parse_user_solution and genotype()."
)
ASSUMPTIONS = ["CORD_* (symmetry breaking) is not a necessary condition: permutations fold to the same multiset",
               "slot indices range over -1..max_cn; the sample instance uses max_cn = 3"]

CT = Obj(DEFAULT="DEFAULT", LEFT_FUSION="LEFT_FUSION", RIGHT_FUSION="RIGHT_FUSION", DELETION="DELETION", CUSTOM="CUSTOM")
REG = ["e1", "e2", "pce"]


def cfg_(cn0, cn1, kind):
    return Obj(cn=[dict(zip(REG, cn0)), dict(zip(REG, cn1))], kind=kind, alleles=set(), description="")


def sample_configs():
    return {
        "1": cfg_([1, 1, 0], [1, 1, 1], CT.DEFAULT),
        "5": cfg_([0, 0, 0], [1, 1, 1], CT.DELETION),
        "36": cfg_([1, 0, 0], [1, 2, 2], CT.RIGHT_FUSION),
        "68": cfg_([0, 1, 0], [1, 0, 0], CT.LEFT_FUSION),
        "7": cfg_([0, 1, 0], [1, 1, 1], CT.CUSTOM),       # partial deletion of the gene (first region missing)
    }


def r7(repo, res):
    f = repo.func("cn::estimate_cn")
    p = repo.func("cn::_parse_user_solution")
    res.analysed(f, p)
    configs = {"1": Obj(kind=CT.DEFAULT), "5": Obj(kind=CT.DELETION)}
    rows = []
    ok = True

    def parse(gene, sols):
        return ("USER", list(sols))

    cases = [
        (dict(cn_solution=["1", "5"], do_cn=True, male=False, chr="22"), ("USER", ["1", "5"])),
        (dict(cn_solution=["1", "5", "1"], do_cn=False, male=False, chr="22"), ("USER", ["1", "5", "1"])),
        (dict(cn_solution=["1"], do_cn=False, male=True, chr="X"), ("USER", ["1"])),
        (dict(cn_solution=None, do_cn=False, male=False, chr="22"), ("USER", ["1", "1"])),
        (dict(cn_solution=None, do_cn=False, male=True, chr="X"), ("USER", ["1"])),
        (dict(cn_solution=None, do_cn=False, male=True, chr="Y"), ("USER", ["1"])),
        (dict(cn_solution=None, do_cn=False, male=True, chr="22"), ("USER", ["1", "1"])),
        (dict(cn_solution=None, do_cn=False, male=False, chr="X"), ("USER", ["1", "1"])),
    ]
    try:
        for c, want in cases:
            env = {"gene": Obj(cn_configs=configs, do_copy_number=c["do_cn"], chr=c["chr"], name="G"),
                   "profile": Obj(cn_solution=c["cn_solution"], male=c["male"]), "coverage": None, "solver": "any", "debug": None,
                   "CNConfigType": CT}
            k, v = Evaluator(env, funcs={"_parse_user_solution": parse}).run(
                [s for s in f.body if not (isinstance(s, ast.Expr) and isinstance(s.value, ast.Constant))])
            got = v[0] if k == "return" and isinstance(v, list) and len(v) == 1 else (k, v)
            rows.append(f"{c} -> {got}")
            if got != want:
                ok = False
                res.ob("C03.R7", f, f, False, expected=f"{c} -> {want}", found=str(got),
                       clause="a user-supplied structure is used verbatim; where copy-number calling is unavailable exactly two default copies "
                              "(one for an X/Y-linked gene of a sample declared male)", key=f"route:{c}")
    except (Unfoldable, Raised) as e:
        res.err("C03.R7", f"estimate_cn routes outside folding language: {e}")
        return
    if ok:
        res.ob("C03.R7", f, f, True, expected="user structure verbatim (also when calling is unavailable); default 2 copies, 1 for male X/Y",
               found=f"{len(cases)} route cases agree", key="routes")
    made = []

    def ctor(gene, score, sols):
        made.append((score, list(sols)))
        return ("CN", score, list(sols))

    try:
        g = Obj(cn_configs={"1": Obj(kind=CT.DEFAULT), "5": Obj(kind=CT.DELETION)}, name="G", deletion_allele=lambda: "5", do_copy_number=True, chr="22")
        k1, v1 = Evaluator({"gene": g, "sols": ["1", "5", "1"]}, funcs={"CNSolution": ctor}).run(p.body[1:] if isinstance(p.body[0], ast.Expr) else p.body)
        k2, v2 = Evaluator({"gene": g, "sols": ["1", "9"]}, funcs={"CNSolution": ctor}).run(p.body[1:] if isinstance(p.body[0], ast.Expr) else p.body)
    except (Unfoldable, Raised) as e:
        res.err("C03.R7", f"_parse_user_solution outside folding language: {e}")
        return
    ok = k1 == "return" and v1 == ("CN", 0, ["1", "5", "1"]) and k2 == "raise" and v2 == "AldyException"
    res.ob("C03.R7", p, p, ok, expected="known names -> CNSolution(gene, 0, names) verbatim; an unknown name raises AldyException",
           found=f"known: {k1} {v1}; unknown: {k2} {v2}", clause="unknown configuration names are rejected", key="user-solution")
    # genes without structural alleles have copy-number calling switched off by the loader (the loader folded on generated databases)
    import checks.c09 as c09

    ia = repo.func("gene::Gene._init_alleles")
    res.analysed(ia)
    plain = {"G*1": {"mutations": []}, "G*2": {"mutations": [c09.C20]}}
    dbs = {"no structural allele": (plain, False),
           "deletion allele": (dict(plain, **{"G*5": {"mutations": [["G", "deletion"]]}}), True),
           "left fusion": (dict(plain, **{"G*13": {"mutations": [["GP", "e2-"]]}}), True),
           "right fusion": (dict(plain, **{"G*36": {"mutations": [["GP", "e2+"]]}}), True),
           "partial deletion only": (dict(plain, **{"G*7": {"mutations": [["G", "deletion:e1"]]}}), True)}
    rows = {}
    try:
        ld = c09.Loader(repo)
        for label, (alleles, want) in dbs.items():
            rows[label] = ld.load(c09.base_yml(alleles), "hg19").do_copy_number
    except (Unfoldable, Raised) as e:
        res.err("C03.R7", f"gene loader outside the folding language: {e}")
        rows = None
    if rows is not None:
        okd = all(rows[l] is w for l, (_, w) in dbs.items())
        res.ob("C03.R7", ia, ia, okd, expected="copy-number calling is on iff the database has a deletion, fusion or partial-deletion allele",
               found=str(rows), clause="genes without structural alleles: exactly two default copies are assumed", key="structural-alleles-switch")
    # profile aliases in genotype(), folded whole: exome-type profiles switch copy-number calling off before the structure stage
    from checks._genotype import GenotypeModel, Scenario, events

    g = repo.func("genotype::genotype")
    res.analysed(g)
    gm = GenotypeModel(repo)
    for prof, want in (("exome", False), ("wxs", False), ("wes", False), ("illumina", True), ("wgs", True), ("pgrnseq-v2", True)):
        for kind in ("sam", "dump"):
            try:
                k, v, trace, _ = gm.run(Scenario(kind=kind, args=dict(output_file=None, profile_name=prof)))
            except Unfoldable as e:
                res.err("C03.R7", f"genotype() outside the folding language: {e}")
                return
            ev_ = events(trace, "estimate_cn")
            got = ev_[0][5]["do_copy_number"] if ev_ else None
            res.ob("C03.R7", g, g, k == "return" and got is want,
                   expected=f"profile {prof!r} ({kind} input): the structure stage runs with copy-number calling {'on' if want else 'off'}",
                   found=f"{k}; do_copy_number={got}", clause="where copy-number calling is unavailable exactly two default copies", key=f"exome:{prof}:{kind}")

    # the user's structure reaches the structure stage through genotype() (profile construction) unchanged; without one the stage
    # is free (alignment input) or gets the two default copies (VCF input)
    routes = [("sam", ["1", "5", "1"], ["1", "5", "1"]), ("sam", ["36", "1"], ["36", "1"]), ("sam", None, None), ("vcf", None, ["1", "1"])]
    for kind, given, want in routes:
        try:
            k, v, trace, _ = gm.run(Scenario(kind=kind, args=dict(output_file=None, profile_name="illumina", cn_solution=given)))
        except Unfoldable as e:
            res.err("C03.R7", f"genotype() outside the folding language: {e}")
            return
        ev_ = events(trace, "estimate_cn")
        got = ev_[0][5]["profile"].get("cn_solution", "<no attribute>") if ev_ else "<structure stage not reached>"
        got = sorted(got) if isinstance(got, (list, tuple)) else got   # a structure is a multiset of configurations
        want = sorted(want) if want is not None else None
        same = (got == want) if want is not None else (not got and got != "<structure stage not reached>")
        res.ob("C03.R7", g, g, k == "return" and same,
               expected=f"{kind} input, user structure {given}: the structure stage sees cn_solution={want}",
               found=f"{k}; cn_solution={got}", clause="a user-supplied structure is used verbatim; VCF input: exactly two default copies",
               key=f"user-route:{kind}:{given}")


VAL_SEED = 0


def cn_instances():
    """Sample instances of the structure stage: fixed ones and seeded random ones (planted structure + noise)."""
    import random

    from checks._cnmodel import Instance
    from sa.report import seed as _seed, thorough

    rnd = random.Random(_seed() + 30)
    full = sample_configs()
    out = []

    def prof(gap, default=False):
        if default:
            return Obj(cn_max=20, gap=gap, cn_diff=10.0, cn_fit=1.0, cn_parsimony=0.5, cn_fusion_left=0.5, cn_fusion_right=0.25, cn_pce_penalty=2.0)
        return Obj(cn_max=20, gap=gap, cn_diff=rnd.choice([4.0, 10.0, 7.0]), cn_fit=rnd.choice([1.0, 3.0]), cn_parsimony=rnd.choice([0.5, 0.7]),
                   cn_fusion_left=rnd.choice([0.5, 0.6]), cn_fusion_right=rnd.choice([0.25, 0.15]), cn_pce_penalty=rnd.choice([2.0, 1.5]))

    def depth(cfgs, planted, noise, parts, pseudo_extra=0.0):
        cov = {}
        for r in REG:
            g0 = sum(cfgs[c].cn[0][r] for c in planted)
            g1 = (sum(cfgs[c].cn[1][r] for c in planted) + pseudo_extra) if parts > 1 else 0
            cov[r] = (round(max(0.0, g0 + rnd.uniform(-noise, noise)), 2), round(max(0.0, g1 + rnd.uniform(-noise, noise)), 2) if parts > 1 else 0.0)
        return cov

    fixed = [
        (["1", "5", "36", "68"], ["1", "36"], 2, "5", None, 3, 0.3),
        (["1", "5", "36", "68"], ["1", "1", "1"], 2, "5", None, 3, 0.1),
        (["1", "5", "36", "68"], ["5", "5"], 2, "5", None, 3, 0.3),
        (["1", "5", "36", "68"], ["1", "68"], 2, "5", {"36": 0.0, "68": 5.0}, 3, 0.1),
        (["1", "5", "36", "68"], ["1", "36"], 2, "5", {"68": 0.5}, 3, 0.1),            # a fusion the support table does not list
        (["1", "5", "36", "68"], ["1", "36"], 2, "5", {"36": 0.05, "68": 0.2}, 3, 0.1),  # support between 1/(2 cn_max) and 1/(2 max copies)
        (["1", "5", "7"], ["7", "7", "7"], 2, "5", None, 4, 0.3),                     # three copies of a partial-deletion configuration planted
        (["1", "36"], ["1", "1"], 2, None, None, 3, 0.3),
        (["1", "5"], ["1", "5"], 1, "5", None, 4, 0.0),
        (["1", "5", "36", "68", "7"], ["1", "36", "68"], 2, "5", None, 5, 40.0),       # five configurations, four copies, a very wide gap: a long report
    ]
    for names, planted, parts, dele, fs, mx, gap in fixed:
        cfgs = {k: Obj(cn=[dict(pp) for pp in v.cn[:parts]], kind=v.kind, alleles=set(), description="") for k, v in full.items() if k in names}
        out.append(Instance(cfgs, REG, REG, depth(cfgs, planted, 0.3, parts), mx, prof(gap, default=(len(out) == 0)), parts, dele, fs))
    # an extra pseudogene copy (the free pseudogene slot is part of the best explanation), and half a copy of it with a wide gap
    # (the same structure is met twice, with and without the free slot)
    for extra, gap in ((1.0, 0.0), (0.5, 0.6), (2.0, 0.3)):
        cfgs = {k: Obj(cn=[dict(pp) for pp in v.cn], kind=v.kind, alleles=set(), description="") for k, v in full.items() if k in ("1", "5", "36")}
        out.append(Instance(cfgs, REG, REG, depth(cfgs, ["1", "1"], 0.05, 2, pseudo_extra=extra), 3, prof(gap, default=True), 2, "5", None))
    for _ in range(30 if thorough() else 4):
        names = ["1"] + rnd.sample(["5", "36", "68", "7"], rnd.randint(1, 3))
        parts = rnd.choice([2, 2, 1])
        dele = "5" if "5" in names else None
        cfgs = {k: Obj(cn=[dict(pp) for pp in v.cn[:parts]], kind=v.kind, alleles=set(), description="") for k, v in full.items() if k in names}
        planted = [rnd.choice(names) for _ in range(rnd.randint(0, 4))]
        fs = None if rnd.random() < 0.7 else {c: rnd.choice([0.0, 0.05, 0.2, 3.0]) for c in names if c not in ("1", "5") and rnd.random() < 0.8}
        unique = REG if rnd.random() < 0.7 else ["e1", "pce"]
        inst = Instance(cfgs, REG, unique, depth(cfgs, planted, 0.5, parts), rnd.choice([3, 4]), prof(rnd.choice([0.0, 0.1, 0.3])), parts, dele, fs)
        out.append(inst)
    return out


def r8(repo, res):
    """solve_cn_model folded whole against the recording library, per sample instance: (R8) the model it builds admits exactly
    the documented selections of slots with exactly the documented objective; (R9) what it reports is the documented report."""
    from checks._cnmodel import code_points, fold_solve_cn, reference_points, reference_report, reference_slots
    from sa.fold import module_consts
    from sa.lpmodel import wrapper_model

    f = repo.func("cn::solve_cn_model")
    res.analysed(f)
    prec = module_consts(repo.mod("lpinterface")).get("SOLVER_PRECISON", 1e-5)
    try:
        wrapper = wrapper_model(repo)
    except AnalysisError as e:
        res.err("C03.R8", f"solver wrapper class cannot be lifted: {e}")
        return
    bad = {}
    n = points = 0
    for inst in cn_instances():
        try:
            kind, val, lib = fold_solve_cn(repo, inst, wrapper)
            if kind == "raise":
                bad.setdefault("runs", f"{inst.describe()}: raises {val}")
                continue
            (report, untouched) = val
            cp, slots = code_points(lib)
        except Unfoldable as e:
            # no verdict on this instance; what the other instances show is still reported (a violation found there stands)
            res.err("C03.R8", f"solve_cn_model outside the folding language on one instance ({inst.describe()[:80]}): {e}")
            continue
        n += 1
        def canonical(points_):
            """Selections up to the naming of equivalent slots: (configurations taken as complete haplotypes, configurations taken as extra copies)."""
            out_ = {}
            for sel_, obj_ in points_.items():
                key_ = (tuple(sorted(c_ for c_, i_ in sel_ if i_ <= 0)), tuple(sorted(c_ for c_, i_ in sel_ if i_ > 0)))
                if key_ not in out_ or obj_ < out_[key_]:
                    out_[key_] = obj_
            return out_

        rp_raw = reference_points(inst)
        rp, cp = canonical(rp_raw), canonical(cp)
        points += len(rp_raw)
        want_slots = set(reference_slots(inst))
        if slots != want_slots:
            bad.setdefault("slots", f"{inst.describe()}: structure variables for {sorted(slots - want_slots, key=str)} are extra, {sorted(want_slots - slots, key=str)} are missing")
            continue
        only_code = [s_ for s_ in cp if s_ not in rp]
        only_ref = [s_ for s_ in rp if s_ not in cp]
        if only_code:
            w = min(only_code, key=lambda s_: (len(s_), sorted(map(str, s_))))
            bad.setdefault("admissible", f"{inst.describe()}: the model admits complete haplotypes {w[0]} with extra copies {w[1]}, which the statement excludes")
        if only_ref:
            w = min(only_ref, key=lambda s_: (len(s_), sorted(map(str, s_))))
            bad.setdefault("admissible", f"{inst.describe()}: the model excludes the admissible structure: complete haplotypes {w[0]}, extra copies {w[1]}")
        diff = [(s_, cp[s_], rp[s_]) for s_ in cp if s_ in rp and abs(cp[s_] - rp[s_]) > 1e-7]
        if diff:
            s_, a_, b_ = min(diff, key=lambda t: (len(t[0]), sorted(map(str, t[0]))))
            bad.setdefault("objective", f"{inst.describe()}: complete haplotypes {s_[0]} with extra copies {s_[1]} score {a_:.6f} in the model, documented objective {b_:.6f}")
        if not untouched:
            bad.setdefault("inputs", f"{inst.describe()}: the configuration table handed in was modified")
        # the report, clause by clause (the statement leaves room for encodings that report more of the within-gap structures)
        def key_of(sel_):
            return tuple(sorted(c_ for c_, _ in sel_ if c_ != inst.deletion and c_ != "PSEUDO"))

        best_of = {}
        for sel_, obj_ in rp_raw.items():
            k_ = key_of(sel_)
            if k_ not in best_of or obj_ < best_of[k_]:
                best_of[k_] = obj_
        got = [(tuple(sorted(c for c, k_ in sol.items() for _ in range(k_))), sc) for sc, sol in report]
        tag = f"{inst.describe()}: reports {[(g[0], round(g[1], 6)) for g in got]}"
        if not best_of:
            if got:
                bad.setdefault("report-admissible", f"{tag} although no structure is admissible")
            continue
        if not got:
            bad.setdefault("report-best", f"{tag}; admissible structures exist, the best is {min(best_of.items(), key=lambda t: t[1])}")
            continue
        overall = min(best_of.values())
        for k_, sc in got:
            if k_ not in best_of:
                bad.setdefault("report-admissible", f"{tag}; {k_} is not an admissible structure")
            elif abs(sc - best_of[k_]) > 1e-6:
                bad.setdefault("report-score", f"{tag}; the best explanation of {k_} scores {best_of[k_]:.6f}")
        if abs(got[0][1] - overall) > 1e-6 or any(g[1] < got[0][1] - 1e-9 for g in got):
            bad.setdefault("report-best", f"{tag}; the best admissible structure scores {overall:.6f}")
        ub = (1 + inst.profile.gap) * overall
        if any(g[1] > ub + prec + 1e-9 for g in got):
            bad.setdefault("report-gap", f"{tag}; the gap allows scores up to {ub:.6f}")
        if len({g[0] for g in got}) != len(got):
            bad.setdefault("report-repeat", f"{tag}: a structure is repeated")
        rep = dict(got)
        for k_, sc in best_of.items():
            if k_ in rep or sc > ub + prec:
                continue
            ck = collections.Counter(k_)
            if not any(not (collections.Counter(r_) - ck) and rs <= sc + 1e-6 for r_, rs in rep.items()):
                bad.setdefault("report-complete", f"{tag}; the admissible structure {k_} (score {sc:.6f}, within the gap) is not reported and contains no reported structure that scores no worse")
    res.count("C03.R8:instances folded", n)
    res.count("C03.R8:admissible selections compared", points)
    clauses = {
        "runs": ("C03.R8", "the model is built and solved on every sample instance", ""),
        "slots": ("C03.R8", "structure variables = two complete slots per kept configuration, extra gene copies for the default kind only, free pseudogene copies with "
                            "pseudogene and deletion allele (weakly supported fusions dropped when support values are given)",
                  "two complete haplotype configurations plus optional extra gene copies; a fusion or deletion configuration at most twice"),
        "admissible": ("C03.R8", "the selections the model admits are exactly the admissible ones (two complete configurations, ordered extra copies, a double deletion stands alone, "
                                 "fit errors within the copy bound)",
                       "exactly two complete haplotype configurations ... never combines a double deletion with anything else"),
        "objective": ("C03.R8", "every admissible selection scores cn_diff/|U| * sum w_r|E_r| + cn_fit/|U| * sum|EG_r| + cn_parsimony * sum penalty (pointwise)",
                      "its score equals the documented objective (normalised depth-fit error, gene-fit error and parsimony penalties)"),
        "inputs": ("C03.R8", "the configuration table handed in is left untouched", ""),
        "report-admissible": ("C03.R9", "every reported structure is admissible", "every reported gene structure is made of exactly two complete haplotype configurations ..."),
        "report-score": ("C03.R9", "the score of a reported structure is the documented objective of its best explanation", "its score equals the documented objective ... of the best explanation of that structure"),
        "report-best": ("C03.R9", "the first reported structure is the best admissible one, later ones score no lower", "no admissible structure scores lower than the best reported one"),
        "report-gap": ("C03.R9", "every reported structure scores within (1 + gap) x best", "all reported ones lie within the gap"),
        "report-repeat": ("C03.R9", "no structure is reported twice", "none is repeated"),
        "report-complete": ("C03.R9", "a within-gap admissible structure that is missing contains a reported one that scores no worse",
                            "an admissible within-gap structure that is not reported always contains a reported structure that scores no worse"),
    }
    for key, (rule, exp, clause) in clauses.items():
        res.ob(rule, f, f, key not in bad, expected=exp, found=f"{n} instances, {points} admissible selections agree" if key not in bad else bad[key],
               clause=clause, key=f"model:{key}")


def run(repo, res):
    r8(repo, res)
    r7(repo, res)


MUTANTS = [
    dict(name="R5 gene-fit abssum subtracted from the objective", module="cn", expect=["C03.R8", "C03.R9"],
         old="    model.setObjective(o_diff + o_fit + o_pars)", new="    model.setObjective(o_diff - o_fit + o_pars)"),
    dict(name="R1 one CDIPLO side dropped", module="cn", expect=["C03.R8", "C03.R9"],
         old='    model.addConstr(diplo_inducing >= 2, name="CDIPLO")\n', new=""),
    dict(name="R1 three haplotypes", module="cn", expect=["C03.R8", "C03.R9"],
         old='    model.addConstr(diplo_inducing <= 2, name="CDIPLO")', new='    model.addConstr(diplo_inducing <= 3, name="CDIPLO")'),
    dict(name="R1 filter < 0", module="cn", expect=["C03.R8", "C03.R9"],
         old="diplo_inducing = model.quicksum(VCN[a] for a in VCN if a[1] <= 0)", new="diplo_inducing = model.quicksum(VCN[a] for a in VCN if a[1] < 0)"),
    dict(name="R1 filter <= 1", module="cn", expect=["C03.R8", "C03.R9"],
         old="diplo_inducing = model.quicksum(VCN[a] for a in VCN if a[1] <= 0)", new="diplo_inducing = model.quicksum(VCN[a] for a in VCN if a[1] <= 1)"),
    dict(name="R2 CDEL dropped", module="cn", expect=["C03.R8", "C03.R9"],
         old='                model.addConstr(v + VCN[del_allele, -1] <= 1, name=f"CDEL_{a}_{ai}")', new="                pass"),
    dict(name="R2 CDEL guard excludes pseudogene slots", module="cn", expect=["C03.R8", "C03.R9"],
         old="            if a != del_allele:\n", new='            if a != del_allele and a != "PSEUDO":\n'),
    dict(name="R2 CDEL against the first deletion slot", module="cn", expect=["C03.R8", "C03.R9"],
         old="model.addConstr(v + VCN[del_allele, -1] <= 1", new="model.addConstr(v + VCN[del_allele, 0] <= 1"),
    dict(name="R2 big-M rewrite (seeded C03_3 shape)", module="cn", expect=["C03.R8", "C03.R9"],
         old='''        for (a, ai), v in VCN.items():
            if a != del_allele:
                model.addConstr(v + VCN[del_allele, -1] <= 1, name=f"CDEL_{a}_{ai}")''',
         new='''        others = model.quicksum(v for (a, ai), v in VCN.items() if a != del_allele)
        model.addConstr(others + max_cn * VCN[del_allele, -1] <= max_cn, name="CDEL")'''),
    dict(name="R3 extra slots for every kind", module="cn", expect=["C03.R8", "C03.R9"],
         old="        if cn_configs[a].kind != CNConfigType.DEFAULT:\n            continue\n", new=""),
    dict(name="R3 pseudogene not decremented", module="cn", expect=["C03.R8", "C03.R9"],
         old="                    r: v - 1 for r, v in structures[a, i].cn[g].items()", new="                    r: v for r, v in structures[a, i].cn[g].items()"),
    dict(name="R3 one extra slot too few", module="cn", expect=["C03.R8", "C03.R9"],
         old="        for i in range(1, max_cn):\n            structures[a, i]", new="        for i in range(1, max_cn - 1):\n            structures[a, i]"),
    dict(name="R3 pseudo slots without deletion guard", module="cn", expect=["C03.R8", "C03.R9"],
         old="    if len(gene.regions) > 1 and del_allele:", new="    if del_allele:"),
    dict(name="R4 gene-fit side dropped", module="cn", expect=["C03.R8", "C03.R9"],
         old='        model.addConstr(expr_gene + VERR_GENE[r] >= exp_cov0, name=f"CG_COV_{r}")\n', new=""),
    dict(name="R4 error variable non-negative", module="cn", expect=["C03.R8", "C03.R9"],
         old='VERR[r] = model.addVar(name=f"E_{r}", lb=-profile.cn_max, ub=profile.cn_max)', new='VERR[r] = model.addVar(name=f"E_{r}", lb=0, ub=profile.cn_max)'),
    dict(name="R4 pseudogene term lost", module="cn", expect=["C03.R8", "C03.R9"],
         old="                expr -= structure.cn[1][r] * VCN[s]", new="                expr -= 0 * VCN[s]"),
    dict(name="R4 scale without +1", module="cn", expect=["C03.R8", "C03.R9"],
         old="        scale = max(exp_cov0, exp_cov1) + 1", new="        scale = max(exp_cov0, exp_cov1) + 2"),
    dict(name="R5 fit term dropped", module="cn", expect=["C03.R8", "C03.R9"],
         old="    model.setObjective(o_diff + o_fit + o_pars)", new="    model.setObjective(o_diff + o_pars)"),
    dict(name="R5 parsimony constant", module="cn", expect=["C03.R8", "C03.R9"],
         old="    PARSIMONY_PENALTY *= 0.75\n", new="    PARSIMONY_PENALTY *= 0.5\n"),
    dict(name="R5 fusion surcharges swapped", module="cn", expect=["C03.R8", "C03.R9"],
         old="            penalty[n] += PARSIMONY_PENALTY * profile.cn_fusion_right", new="            penalty[n] += PARSIMONY_PENALTY * profile.cn_fusion_left"),
    dict(name="R6 gap not passed", module="cn", expect=["C03.R8", "C03.R9"],
         old="    for status, opt, sol in model.solutions(profile.gap):", new="    for status, opt, sol in model.solutions():"),
    dict(name="R6 PSEUDO not folded away", module="cn", expect=["C03.R8", "C03.R9"],
         old='if lookup[v] not in [del_allele, "PSEUDO"]', new="if lookup[v] not in [del_allele]"),
    dict(name="R6 last occurrence wins", module="cn", expect=["C03.R8", "C03.R9"],
         old="        if sol_tuple not in result:\n", new="        if True:\n"),
    dict(name="R7 branches reordered (seeded C03_1 shape)", module="cn", expect="C03.R7",
         old="    if profile.cn_solution:\n        return [_parse_user_solution(gene, profile.cn_solution)]\n    elif not gene.do_copy_number:",
         new="    if not gene.do_copy_number and not profile.cn_solution or not gene.do_copy_number:"),
    dict(name="R7 validation removed", module="cn", expect="C03.R7",
         old="        if sol not in gene.cn_configs:", new="        if False:"),
    dict(name="R7 one default copy", module="cn", expect="C03.R7", old="        cn = 2\n", new="        cn = 1\n"),
    dict(name="R7 male guard dropped", module="cn", expect="C03.R7",
         old='        if profile.male and gene.chr in ["X", "Y"]:', new='        if gene.chr in ["X", "Y"]:'),
    dict(name="R7 user structure dropped on the way (automutate survivor)", module="genotype", expect="C03.R7",
         old="        if cn_solution:\n", new="        if not cn_solution:\n"),
    dict(name="R7 user structure cut to two copies on the way", module="genotype", expect="C03.R7",
         old='profile = Profile("user_provided", cn_solution=cn_solution, **params)', new='profile = Profile("user_provided", cn_solution=cn_solution[:2], **params)'),
    dict(name="benign: user structure sorted on the way", module="genotype", kind="benign",
         old='profile = Profile("user_provided", cn_solution=cn_solution, **params)', new='profile = Profile("user_provided", cn_solution=sorted(cn_solution), **params)'),
    dict(name="benign: user structure copied on the way", module="genotype", kind="benign",
         old='profile = Profile("user_provided", cn_solution=cn_solution, **params)', new='profile = Profile("user_provided", cn_solution=list(cn_solution), **params)'),
    dict(name="R7 exome keeps copy-number calling", module="genotype", expect="C03.R7",
         old="        gene.do_copy_number = False\n        profile_name = \"illumina\"", new="        profile_name = \"illumina\""),
    # benign
    dict(name="benign: == instead of a pair", module="cn", kind="benign",
         old='    model.addConstr(diplo_inducing <= 2, name="CDIPLO")\n    model.addConstr(diplo_inducing >= 2, name="CDIPLO")',
         new='    model.addConstr(diplo_inducing == 2, name="CDIPLO")'),
    dict(name="benign: filter a[1] < 1", module="cn", kind="benign",
         old="diplo_inducing = model.quicksum(VCN[a] for a in VCN if a[1] <= 0)", new="diplo_inducing = model.quicksum(VCN[a] for a in VCN if a[1] < 1)"),
    dict(name="benign: filter membership", module="cn", kind="benign",
         old="diplo_inducing = model.quicksum(VCN[a] for a in VCN if a[1] <= 0)", new="diplo_inducing = model.quicksum(VCN[a] for a in VCN if a[1] in (0, -1))"),
    dict(name="benign: CORD dropped", module="cn", kind="benign",
         old='            model.addConstr(VCN[a, ai] <= VCN[a, 0], name=f"CORD_{a}_{ai}")', new="            pass"),
    dict(name="benign: commuted CDEL", module="cn", kind="benign",
         old="model.addConstr(v + VCN[del_allele, -1] <= 1", new="model.addConstr(1 >= VCN[del_allele, -1] + v"),
    dict(name="benign: renamed variables", module="cn", kind="benign", regex=True, old=r"\bdiplo_inducing\b", new="complete"),
]
