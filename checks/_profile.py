"""
The Profile class of /repo lifted into the folding language (shared by C18 and the whole-function folds of genotype()).
"""

import collections
import copy
import os.path

from sa.fold import Lifted, Obj, lift_module_helpers

_GR = collections.namedtuple("GRange", ["chr", "start", "end"])


class ProfileModel:
    """The Profile class lifted into the folding language: constructor, typed update, file loader and profile
    writer are the functions of /repo (sa.fold.Lifted, Python calling convention, defaults evaluated once); the file
    system and the YAML library are replaced by an in-memory table of documents."""

    def __init__(self, repo):
        self.files = {}
        model = self

        class P(Obj):
            _fold_ok = True

            def update(me, *a, **k):
                return model.update(me, *a, **k)

        self.P = P
        funcs = {"GRange": _GR, "natsorted": sorted, "defaultdict": collections.defaultdict, "Profile": self.new,
                 "os.path.exists": lambda q: q in self.files, "os.path.isfile": lambda q: q in self.files,
                 "os.path.splitext": os.path.splitext, "open": lambda q, *a: Obj(path=q),
                 "yaml.safe_load": lambda f: copy.deepcopy(self.files[f.path]), "script_path": lambda q: q,
                 "chr_prefix": lambda c, names: ""}
        funcs["os.path.abspath"] = lambda q: "/abs/" + str(q)
        env = {}
        self.state = {}
        lift_module_helpers(repo.mod("profile").tree, funcs, None, env, self.state)
        # class-level tables of Profile (`NAME = {}` in the class body) are process-wide state as well
        import ast as _ast

        cls_tables = self.state.setdefault("globals", {})
        for node in repo.cls("profile::Profile").body:
            tgt = node.targets[0] if isinstance(node, _ast.Assign) and len(node.targets) == 1 else getattr(node, "target", None)
            val = getattr(node, "value", None)
            if isinstance(tgt, _ast.Name) and val is not None:
                fresh = dict if (isinstance(val, _ast.Dict) and not val.keys) or (isinstance(val, _ast.Call) and _ast.unparse(val.func) == "dict" and not val.args) \
                    else list if (isinstance(val, _ast.List) and not val.elts) else set if (isinstance(val, _ast.Call) and _ast.unparse(val.func) == "set" and not val.args) else None
                if fresh is not None:
                    obj = cls_tables.setdefault("Profile." + tgt.id, fresh())
                    for owner in ("Profile", "self", "cls"):
                        env[f"{owner}.{tgt.id}"] = obj
        self.funcs = funcs
        self.init = Lifted(repo.func("profile::Profile.__init__"), funcs, env=env)
        self.update = Lifted(repo.func("profile::Profile.update"), funcs, env=env)
        self.write = Lifted(repo.func("profile::Profile.get_sam_profile_data"), funcs, env=env)
        self.write.funcs = funcs   # shared: a rule may plug in an alignment-file stub ("pysam.AlignmentFile") afterwards
        funcs["Profile.get_sam_profile_data"] = self.write
        self.load = Lifted(repo.func("profile::Profile.load"), funcs, env=env)
        funcs["Profile.load"] = self.load

    def reset_state(self):
        """Forget module-level tables and memo tables: what follows stands for a new process."""
        for k, v in self.state.items():
            if k == "globals":
                for o in v.values():
                    o.clear()
            else:
                v.clear()

    def new(self, *a, **kw):
        me = self.P()
        self.init(me, *a, **kw)
        return me


