"""
C06 -- alignment evidence is a faithful pileup of the eligible reads.

Decided: (R1) the per-op table of every CIGAR walker (derived by folding the lifted walker on
`2M <op x3> 2M` reads) equals the SAM specification's consumes-reference / consumes-query table;
(R2) exactly one non-insertion observation per reference base a read spans, also through the
multi-nucleotide merge; (R3) insertions are kept out of depth by producer and consumers alike; (R4)
eligibility tests dominate parsing and the region test is an interval-overlap predicate; (R5)
observation layout (mapping quality, binned base quality) and monotone binning; (R6) substitutions
outside the RefSeq-mapped part fold into the reference count, inside (both end points) they stay.
Not decided: equality with htslib's pileup on real files; order independence across reads; long-read remapping.
"""

import ast
import collections
import itertools

from checks._reads import (CONSUMES_QUERY, CONSUMES_REF, OPS, START, GeneStub, expected_depth, fn_body, fold_parse_read,
                           fold_load_sam, loop_over, read_stub, sample_read)
from sa.cfg import cfg_of
from sa.fold import Evaluator, Obj, Raised, Unfoldable
from sa.guards import find_calls
from sa.loader import AnalysisError, call_name, calls_in, walk_local

PROPERTY = "C06"
EXPLANATION = (
    "Agreement tables: Sample._parse_read, Sample._get_gene_regions and the read loops of Sample._load_sam are lifted "
    "and folded on enumerated tiny reads (one CIGAR op of each kind between two match runs; a complete and an "
    "incomplete multi-nucleotide substitution; reads at the borders of the RefSeq-mapped interval; ineligible reads) "
    "with recording stubs; the derived per-op tables (depth observations per reference position, cursors, variant keys, "
    "observation tuples) are compared with the SAM specification and with each other. Coverage.total / Coverage.__init__ "
    "are folded for the insertion exclusion; _in_region on an interval grid; bin_quality on 0..60. Depth conservation end to end: "
    "twelve reads (every CIGAR operation, deletions / substitutions inside and outside the RefSeq-mapped part, complete and incomplete "
    "multi-nucleotide substitutions) through the lifted parser, coverage construction, Coverage constructor and accessors on a partly mapped "
    "gene, compared position by position with an independent CIGAR interpreter."
)
ASSUMPTIONS = ["CIGAR op codes follow the SAM specification / pysam: 0 M, 1 I, 2 D, 4 S, 5 H, 7 =, 8 X",
               "secondary / duplicate flags are not excluded by the statement",
               "pysam attribute semantics of the read stub (reference_end exclusive, get_blocks = aligned blocks)"]


def observations(norm, muts):
    """position -> list of (kind, tuple) for every non-insertion observation; insertions separately."""
    per = collections.defaultdict(list)
    ins = []
    for p, lst in norm.items():
        for o in lst:
            per[p].append(("_", o))
    for (p, op), lst in muts.items():
        for o in lst:
            if str(op).startswith("ins"):
                ins.append((p, op, o))
            else:
                per[p].append((op, o))
    return per, ins


def r1_r2_r5(repo, res):
    f = repo.func("sam::Sample._parse_read")
    res.analysed(f)
    # the binning of both quality fields is read off the routine itself (one-base reads, one input varied at a time): the
    # first field must depend on the mapping quality only, the second on the base quality only
    try:
        by_q = [tuple(fold_parse_read(repo, [(0, 1)], "A", [q], mq=17)[2][START][0]) for q in range(0, 61)]
        by_m = [tuple(fold_parse_read(repo, [(0, 1)], "A", [23], mq=m)[2][START][0]) for m in range(0, 61)]
    except (Unfoldable, Raised, IndexError, KeyError, TypeError) as e:
        res.err("C06.R5", f"_parse_read outside folding language on one-base reads: {e}")
        return
    bins = [t[1] for t in by_q]
    mbins = [t[0] for t in by_m]
    fields_ok = len({t[0] for t in by_q}) == 1 and len({t[1] for t in by_m}) == 1 and len(set(bins)) > 1 and len(set(mbins)) > 1
    res.ob("C06.R5", f, f, fields_ok, expected="observation = (value of the mapping quality only, value of the base quality only)",
           found="ok" if fields_ok else f"varying the base quality changes field 0: {len({t[0] for t in by_q}) > 1}; varying the mapping quality changes field 1: {len({t[1] for t in by_m}) > 1}",
           clause="each observation keeps its read's mapping quality and (binned) base quality", key="layout:fields")
    for label, bb in (("base", bins), ("mapping", mbins)):
        mono = all(bb[i] <= bb[i + 1] for i in range(60)) and all(0 <= b <= 60 for b in bb) and len(set(bb)) >= 4
        res.ob("C06.R5", f, f, mono, expected=f"{label} quality binning is monotone non-decreasing with at least four levels",
               found=f"bins {sorted(set(bb))}", clause="each observation keeps its read's (binned) base quality", key=f"bin-monotone:{label}")
    binf = lambda q: bins[min(60, int(q))]  # noqa
    mbinf = lambda q: mbins[min(60, int(q))]  # noqa
    for k, name in OPS.items():
        cigar, seq, qual = sample_read(k)
        try:
            kind, val, norm, muts, me, ev = fold_parse_read(repo, cigar, seq, qual)
        except Unfoldable as e:
            res.err("C06.R1", f"_parse_read outside folding language: {e}")
            return
        if kind == "raise":
            res.ob("C06.R1", f, f, False, expected=f"op {name}: parsed", found=f"raises {val}", key=f"op:{name}")
            continue
        per, ins = observations(norm, muts)
        want_pos, want_cur = expected_depth(k)
        got_pos = sorted(p for p, l in per.items() for _ in l)
        cur = val[0][1] if kind == "return" and val else None
        ok = got_pos == want_pos and cur == want_cur
        res.ob("C06.R1", f, f, ok,
               expected=f"op {name}: one depth observation at each of {want_pos}, reference cursor ends at {want_cur}",
               found=f"observations at {got_pos}, cursor {cur}",
               clause="matches, mismatches and deleted bases each count once; soft clips and insertions consume no reference",
               key=f"cursor-table:{name}")
        # kinds: match bases under '_', read bases differing from the reference under 'A>C', deleted bases under a deletion key
        kinds_ok = True
        detail = ""
        for p in want_pos:
            ks = [x for x, _ in per.get(p, [])]
            if k in (0, 7, 8) and START + 2 <= p < START + 5:
                exp = "A>C"
            elif k == 2 and START + 2 <= p < START + 5:
                exp = "del"
            else:
                exp = "_"
            good = len(ks) == 1 and (ks[0] == exp or (exp == "del" and ks[0] != "_" and ">" not in ks[0]))
            if not good:
                kinds_ok = False
                detail = f"position {p}: {ks}, expected one `{exp}` observation"
                break
        res.ob("C06.R2", f, f, kinds_ok, expected=f"op {name}: every spanned base is recorded once, as reference, substitution or deleted base",
               found="ok" if kinds_ok else detail,
               clause="the count recorded for a substitution equals the number of reads showing that base; does not depend on how a match run is split into CIGAR operations",
               key=f"kinds:{name}")
        if k == 1:
            ok_i = len(ins) == 1 and ins[0][0] == START + 2 and ins[0][1] == "insCCC"
            res.ob("C06.R3", f, f, ok_i, expected="an insertion is one observation under ('ins' + inserted bases) at the next reference position, outside depth",
                   found=str([(p, o) for p, o, _ in ins]), key="insertion-key")
        elif ins:
            res.ob("C06.R3", f, f, False, expected=f"op {name} records no insertion", found=str(ins), key=f"no-insertion:{name}")
        # R5: tuple layout (mapping quality first, base quality second)
        if k in (0, 7, 8):
            lay_ok = True
            qi = 0
            for j, p in enumerate(want_pos):
                o = per[p][0][1] if per.get(p) else None
                want_t = (mbinf(37), binf(qual[j]))
                if o is None or tuple(o) != want_t:
                    lay_ok = False
                    detail = f"position {p}: observation {o}, expected {want_t}"
                    break
            res.ob("C06.R5", f, f, lay_ok, expected="observation = (binned mapping quality, binned base quality of that base)",
                   found="ok" if lay_ok else detail, clause="each observation keeps its read's mapping quality and (binned) base quality",
                   key=f"layout:{name}")
        if k == 2:
            # deleted bases carry the read's mapping quality and the quality of the last base before the deletion
            want_t = (mbinf(37), binf(qual[1]))
            got_t = [tuple(per[p][0][1]) if per.get(p) else None for p in range(START + 2, START + 5)]
            res.ob("C06.R5", f, f, all(t == want_t for t in got_t),
                   expected=f"deleted-base observation = (binned mapping quality, binned quality of the preceding base) = {want_t}",
                   found=str(got_t), clause="each observation keeps its read's mapping quality and (binned) base quality", key="layout:D")
        if k == 1 and ins:
            import statistics

            want_t = (mbinf(37), binf(statistics.mean(qual[2:5])))
            res.ob("C06.R5", f, f, tuple(ins[0][2]) == want_t,
                   expected=f"insertion observation = (binned mapping quality, binned mean quality of the inserted bases) = {want_t}",
                   found=str(tuple(ins[0][2])), key="layout:I")


def r7_phase(repo, res):
    f = repo.func("sam::Sample._parse_read")
    for k, name in OPS.items():
        if k == 5:
            continue
        cigar, seq, qual = sample_read(k)
        want_pos, _ = expected_depth(k)
        ph = {p: i for i, p in enumerate(range(START - 2, START + 12))}
        try:
            kind, val, norm, muts, me, ev = fold_parse_read(repo, cigar, seq, qual, phaseable=ph)
        except Unfoldable as e:
            res.err("C06.R7", f"_parse_read outside folding language: {e}")
            return
        per, ins = observations(norm, muts)
        rec = me.phases.get("r1", {})
        shown = {}
        for p, l in per.items():
            shown.setdefault(p, set()).update(x for x, _ in l)
        for p, o, _ in ins:
            shown.setdefault(p, set()).add(o)
        for (p, o), l in muts.items():
            if str(o).startswith("del") or o == "-":
                pass
        bad = []
        inside_del = set(range(START + 3, START + 5)) if k == 2 else set()
        for p in want_pos:
            if p in inside_del:
                continue
            r_ = rec.get(p)
            ok_p = r_ is not None and (r_ in shown.get(p, set()) or (k == 2 and p == START + 2 and str(r_).startswith("del")))
            if not ok_p:
                bad.append(f"{p}: recorded {r_!r}, read shows {sorted(shown.get(p, set()))}")
        extra = [p for p in rec if p not in want_pos]
        # a sparse set of variant sites: records exactly at the sites the read spans, with an allele it shows there
        sparse = {START + 1: 0, START + 3: 1, START + 4: 2, START + 8: 3}
        try:
            kind2, _, norm2, muts2, me2, _ = fold_parse_read(repo, cigar, seq, qual, phaseable=sparse)
        except Unfoldable as e:
            res.err("C06.R7", f"_parse_read outside folding language: {e}")
            return
        rec2 = me2.phases.get("r1", {})
        want_keys = {p for p in want_pos if p in sparse and p not in inside_del}
        if kind2 == "raise" or set(rec2) != want_keys or any(rec2[p] not in shown.get(p, set()) for p in rec2):
            bad.append(f"variant sites {sorted(sparse)}: records {dict(rec2)}, expected records at {sorted(want_keys)} with alleles the read shows")
        res.ob("C06.R7", f, f, kind != "raise" and not bad and not extra,
               expected=f"op {name}: the fragment's phase record holds, for every variant site the read spans, an allele the read shows there (and nothing elsewhere)",
               found="ok" if not bad and not extra else "; ".join(bad[:3]) + (f"; records outside the read: {extra}" if extra else ""),
               clause="the per-fragment phase record states, for every catalogued variant site a fragment covers, an allele that one of the fragment's reads shows there",
               key=f"phase-record:{name}")


def r2_multi(repo, res):
    f = repo.func("sam::Sample._parse_read")
    # catalogued multi-nucleotide substitution A.A>C.G at START: complete (C?G) and incomplete (C?A) reads
    for label, seq, complete in (("complete", "CAGA", True), ("incomplete", "CAAA", False)):
        try:
            kind, val, norm, muts, me, ev = fold_parse_read(repo, [(0, 4)], seq, [30] * 4, multi={START: "A.A>C.G"})
        except Unfoldable as e:
            res.err("C06.R2", f"multi-nucleotide merge outside folding language: {e}")
            return
        per, ins = observations(norm, muts)
        counts = {p: len(per.get(p, [])) for p in range(START, START + 4)}
        kinds = {p: [x for x, _ in per.get(p, [])] for p in range(START, START + 4)}
        if complete:
            ok = all(c == 1 for c in counts.values()) and kinds[START] == ["A.A>C.G"] and kinds[START + 2] == ["_"]
        else:
            ok = all(c == 1 for c in counts.values()) and kinds[START] == ["A>C"]
        res.ob("C06.R2", f, f, kind != "raise" and ok,
               expected="one observation per position; a complete multi-nucleotide substitution is counted once, under that variant, at its first position",
               found=f"{label} read: {kinds}", clause="a read showing a complete catalogued multi-nucleotide substitution is counted once",
               key=f"multi:{label}")


def r1_regions(repo, res):
    g = repo.func("sam::Sample._get_gene_regions")
    res.analysed(g)
    for k, name in OPS.items():
        if k == 5:
            continue
        cigar, seq, qual = sample_read(k)
        me = Obj(gene=Obj(region_at=lambda p: (0, str(p))))
        try:
            kind, regs = Evaluator({"self": me, "r_start": START, "cigar": cigar}).run(fn_body(g))
        except Unfoldable as e:
            res.err("C06.R1", f"_get_gene_regions outside folding language: {e}")
            return
        got = [(int(r[0][1]), r[1]) for r in regs] if kind == "return" else kind
        # expected (reference position, query index) of every aligned base
        want = []
        rp, qp = START, 0
        for o, n in cigar:
            if o in (0, 7, 8):
                want += [(rp + i, qp + i) for i in range(n)]
            if o in CONSUMES_REF:
                rp += n
            if o in CONSUMES_QUERY:
                qp += n
        res.ob("C06.R1", g, g, got == want, expected=f"op {name}: aligned (reference, query) pairs {want}", found=str(got),
               key=f"region-walker:{name}")


def r1_symbolic(repo, res):
    """Purely syntactic cross-check: per-op cursor increments read off the if/elif chain of every CIGAR walker."""
    from checks._reads import cigar_loops, symbolic_cursor_table

    n = 0
    for ref in ("sam::Sample._parse_read", "sam::Sample._load_cn_region", "sam::Sample._get_gene_regions",
                "profile::Profile.get_sam_profile_data"):
        f = repo.func(ref)
        res.analysed(f)
        loops = cigar_loops(f)
        if not loops:
            res.note(f"C06.R1: {ref} has no `for op, size in <cigar>` loop any more; only its folded table is checked")
            continue
        for loop in loops:
            tab = symbolic_cursor_table(loop)
            if tab is None:
                res.note(f"C06.R1: CIGAR loop of {ref} is not an if/elif chain on the op code; only its folded table is checked")
                continue
            cursors = set().union(*tab.values())
            roles = {}
            for c_ in cursors:
                init = None
                for node in ast.walk(f):
                    if isinstance(node, ast.Assign) and node.lineno < loop.lineno:
                        tg = node.targets[0]
                        if isinstance(tg, ast.Name) and tg.id == c_:
                            init = node.value
                        elif isinstance(tg, ast.Tuple) and isinstance(node.value, ast.Tuple):
                            for t_, v_ in zip(tg.elts, node.value.elts):
                                if isinstance(t_, ast.Name) and t_.id == c_:
                                    init = v_
                roles[c_] = "query" if isinstance(init, ast.Constant) and init.value == 0 else "reference"
            refc = [c_ for c_, r_ in roles.items() if r_ == "reference"]
            qc = [c_ for c_, r_ in roles.items() if r_ == "query"]
            bad = []
            for k in (0, 1, 2, 4, 5, 7, 8):
                adv = tab.get(k, set())
                if refc and ((refc[0] in adv) != (k in CONSUMES_REF)):
                    bad.append(f"{OPS[k]}: reference cursor {'advanced' if refc[0] in adv else 'not advanced'}")
                if qc and ((qc[0] in adv) != (k in CONSUMES_QUERY and k != 5)):
                    bad.append(f"{OPS[k]}: query cursor {'advanced' if qc[0] in adv else 'not advanced'}")
            n += 1
            folded_elsewhere = ref.split("::")[1] in ("Sample._parse_read", "Sample._get_gene_regions")
            if bad and folded_elsewhere:
                # advisory: these two walkers are decided by their folded tables above
                res.note(f"C06.R1: syntactic cursor table of {ref} reads: {'; '.join(bad)} (decided by the folded table)")
                continue
            res.ob("C06.R1", f, loop, not bad and len(refc) == 1,
                   expected="branch table: M/=/X advance both cursors, D the reference cursor, I and S the query cursor, H none",
                   found="agrees with the SAM specification" if not bad else "; ".join(bad),
                   clause="matches, mismatches and deleted bases each count once; soft clips and insertions consume no reference",
                   key=f"symbolic-cursor-table:{ref.split('::')[1]}")
    res.count("C06.R1:walkers with a syntactic cursor table", n)


def r3(repo, res):
    tot = repo.func("coverage::Coverage.total")
    init = repo.func("coverage::Coverage.__init__")
    res.analysed(tot, init)
    table = {10: {"_": [1, 2, 3], "A>C": [4], "insCC": [5, 6], "-": [7]}}
    try:
        me = Obj(_coverage=table, _indels=None)
        k, v = Evaluator({"self": me, "m": 10}, funcs={"Mutation": None}).run(fn_body(tot))
        k2, v2 = Evaluator({"self": me, "m": 11}).run(fn_body(tot))
    except (Unfoldable, Raised) as e:
        res.err("C06.R3", f"Coverage.total outside folding language: {e}")
        return
    res.ob("C06.R3", tot, tot, k == "return" and v == 5 and v2 == 0, expected="depth = all observations at the position except insertion keys ('ins...')",
           found=f"table {{_:3, A>C:1, insCC:2, -:1}} -> {v}; absent position -> {v2}", clause="insertions consume no reference", key="total-excludes-insertions")
    # consumer drops parsed insertions when the indel table exists, keeps everything else
    try:
        me = Obj()
        k, v = Evaluator({"self": me, "gene": "G", "profile": "P", "sam": "S", "coverage": {10: {"_": [1], "insC": [2], "A>C": [3]}},
                          "indel_coverage": {(10, "insC"): (3, 4), (12, "delA"): (5, 0)}, "cnv_coverage": {}}).run(fn_body(init))
        ok = me._coverage == {10: {"_": [1], "A>C": [3]}} and me._indels == {(10, "insC"): (3, 4)}
        me2 = Obj()
        Evaluator({"self": me2, "gene": "G", "profile": "P", "sam": "S", "coverage": {10: {"_": [1], "insC": [2]}},
                   "indel_coverage": None, "cnv_coverage": {}}).run(fn_body(init))
        ok = ok and me2._coverage == {10: {"_": [1], "insC": [2]}} and me2._indels is None
    except (Unfoldable, Raised) as e:
        res.err("C06.R3", f"Coverage.__init__ outside folding language: {e}")
        return
    res.ob("C06.R3", init, init, ok, expected="Coverage keeps every non-insertion observation list as given; parsed insertions are replaced by the indel table when it exists",
           found="ok" if ok else f"{getattr(me, '_coverage', None)} / {getattr(me, '_indels', None)}", key="coverage-init")
    # the accessors every stage reads the evidence through (Coverage class lifted; indel table with and without support)
    from sa.fold import ClassModel

    Mu = collections.namedtuple("Mutation", ["pos", "op"])
    cm = ClassModel(repo.cls("coverage::Coverage"))
    obs = {10: {"_": [1] * 7, "A>C": [1] * 3, "insT": [1] * 2}, 11: {"_": [1] * 5, "delG": [1] * 4}, 12: {"insAA": [1] * 6}}
    bad = None
    try:
        for label, indels in (("no indel table", None), ("indel table", {(10, "insT"): (5, 9), (11, "delG"): (2, 0)})):
            me = cm.instance(_coverage=obs, _indels=indels)
            want = {
                ("coverage", Mu(10, "A>C")): 3, ("coverage", Mu(10, "_")): 7, ("coverage", Mu(13, "A>C")): 0, ("coverage", Mu(10, "G>T")): 0,
                ("coverage", Mu(10, "insT")): 9 if indels else 2, ("coverage", Mu(11, "delG")): 0 if indels else 4, ("coverage", Mu(12, "insAA")): 6,
                ("total", 10): 10.0, ("total", 11): 9.0, ("total", 12): 0.0, ("total", 13): 0, ("total", Mu(10, "A>C")): 10.0,
                ("total", Mu(10, "insT")): 14 if indels else 10.0, ("total", Mu(11, "delG")): 2 if indels else 9.0,
                ("percentage", Mu(10, "A>C")): 30.0, ("percentage", Mu(13, "A>C")): 0, ("__getitem__", Mu(10, "A>C")): 3,
            }
            for (meth, arg), w in want.items():
                got = cm.call(meth, me, [arg], {})
                if abs(got - w) > 1e-9:
                    bad = bad or f"{label}: {meth}({arg}) = {got}, expected {w}"
    except (Unfoldable, Raised) as e:
        res.err("C06.R3", f"Coverage accessors outside folding language: {e}")
        return
    res.ob("C06.R3", init, init, bad is None,
           expected="coverage(m) = number of observations of m (0 if none); a catalogued indel reads its realignment support instead; total(position) = all observations there "
                    "except insertions; total(indel) = its realignment counts; percentage = 100 * coverage / total (0 without depth)",
           found="accessor table agrees (2 x 17 cells)" if bad is None else bad,
           clause="insertions do not count towards depth; the indel support table takes precedence for catalogued indels", key="accessors")


def r4(repo, res):
    f = repo.func("sam::Sample._load_sam")
    res.analysed(f)
    loop = f
    reads = {
        "eligible": read_stub([(0, 4)], seq="ACGT", quals=[30] * 4),
        "unaligned": read_stub(None, seq="ACGT"),
        "supplementary": read_stub([(0, 4)], supplementary=True, seq="ACGT"),
        "hard-clipped": read_stub([(5, 2), (0, 4)], seq="ACGT"),
        "hard-clipped at the 3' end only": read_stub([(0, 4), (5, 2)], seq="ACGT"),
        "hard-clipped at both ends": read_stub([(5, 1), (0, 4), (5, 2)], seq="ACGT"),
        "outside-region": read_stub([(0, 4)], seq="ACGT", name="far"),
        "soft-clipped": read_stub([(4, 2), (0, 2)], seq="ACGT", quals=[30] * 4),
        "barcoded": read_stub([(0, 4)], seq="ACGT", quals=[30] * 4, tags={"BX": "b1", "MI": 7}),
        "secondary": read_stub([(0, 4)], seq="ACGT", quals=[30] * 4, flag=0x100),
    }
    want_parsed = {"eligible", "soft-clipped", "barcoded", "secondary"}  # every hard-clipped shape is skipped
    rows = {}
    try:
        for label, rd in reads.items():
            for indexed in (True, False, None):
                kind, val, me, calls = fold_load_sam(repo, [rd], in_region=lambda region, read, prefix: read.query_name != "far", indexed=indexed)
                if kind != "return":
                    res.ob("C06.R4", f, f, False, expected=f"{label} read (index: {indexed}): the loader completes", found=f"{kind} {val}", key=f"loader:{label}")
                    continue
                if indexed is True:
                    rows[label] = calls
                elif len(calls) != len(rows.get(label, [])):
                    res.ob("C06.R4", f, f, False, expected=f"{label} read: the same reads are parsed with and without an index", found=f"indexed {len(rows.get(label, []))}, not indexed {len(calls)}",
                           key=f"index-independent:{label}")
            calls = rows.get(label, [])
            if label in want_parsed and len(calls) == 1:
                a = calls[0]
                good = (a[1] == rd.reference_start and a[2] == rd.cigartuples and a[3] == rd.query_sequence and a[6] == rd.mapping_quality
                        and a[7] == rd.query_qualities)
                if not good:
                    res.ob("C06.R4", f, loop, False, expected="the read's start, CIGAR, bases, mapping quality and base qualities are handed to the parser in that order",
                           found=str(a[:8]), key=f"parser-args:{label}")
    except (Unfoldable, Raised) as e:
        res.err("C06.R4", f"_load_sam outside folding language: {e}")
        return
    got = {l for l, c in rows.items() if c}
    res.ob("C06.R4", f, loop, got == want_parsed,
           expected="unaligned, supplementary, hard-clipped and out-of-region reads contribute nothing; every other read is parsed exactly once",
           found=f"parsed: {sorted(got)}; skipped: {sorted(set(rows) - got)}",
           clause="reads that are unaligned, supplementary, hard-clipped or outside the gene region contribute nothing", key="eligibility")
    res.ob("C06.R4", f, loop, all(len(c) <= 1 for c in rows.values()), expected="no read is parsed twice", found="ok", key="parsed-once")
    # the region predicate
    g = repo.func("sam::_in_region")
    res.analysed(g)
    Region = collections.namedtuple("GRange", ["chr", "start", "end"])
    bad = None
    try:
        for rs, re_ in itertools.product(range(0, 12), repeat=2):
            if re_ <= rs:
                continue
            rd = Obj(reference_id=0, reference_name="chr22", reference_start=rs, reference_end=re_)
            k, v = Evaluator({"region": Region("22", 4, 8), "read": rd, "prefix": "chr"}).run(fn_body(g))
            overlap = rs < 8 and re_ > 4   # half-open intervals: a read that ends where the region starts has no base in it
            if k != "return" or bool(v) != overlap:
                bad = f"read [{rs},{re_}) vs region [4,8): {v}, expected {overlap}"
                break
        for rd, label in ((Obj(reference_id=-1, reference_name=None, reference_start=5, reference_end=6), "unmapped"),
                          (Obj(reference_id=0, reference_name="chr21", reference_start=5, reference_end=6), "other chromosome"),
                          (Obj(reference_id=0, reference_name="chr122", reference_start=5, reference_end=6), "chromosome whose name ends with the region's"),
                          (Obj(reference_id=0, reference_name="22", reference_start=5, reference_end=6), "contig without the file's prefix"),
                          (Obj(reference_id=0, reference_name="chr22", reference_start=5, reference_end=None), "no end")):
            k, v = Evaluator({"region": Region("22", 4, 8), "read": rd, "prefix": "chr"}).run(fn_body(g))
            if k != "return" or v:
                bad = bad or f"{label} read accepted"
    except (Unfoldable, Raised) as e:
        res.err("C06.R4", f"_in_region outside folding language: {e}")
        return
    res.ob("C06.R4", g, g, bad is None, expected="true exactly for reads with at least one base inside the region [start, end); false for adjacent, separated, unmapped and other-chromosome reads",
           found="ok on the interval grid" if bad is None else bad, key="in-region")


def r4_prefix(repo, res):
    """The contig-prefix helper on unambiguous headers (a header that lists both spellings of the chromosome is ambiguous -- reads may sit on either --
    and is left free)."""
    f = repo.func("common::chr_prefix")
    res.analysed(f)
    params = [a.arg for a in f.args.args]
    rows = {}
    try:
        for names, want in ((["20", "21"], ""), (["chr20", "chr21"], "chr"), (["chr1", "chr20", "chrM"], "chr"), (["1", "2"], ""), ([], "")):
            k, v = Evaluator({params[0]: "20", params[1]: list(names)}).run(fn_body(f))
            rows[tuple(names)] = (v if k == "return" else k, want)
    except (Unfoldable, Raised) as e:
        res.err("C06.R4", f"chr_prefix outside folding language: {e}")
        return
    bad = {n: g for n, (g, w) in rows.items() if g != w}
    res.ob("C06.R4", f, f, not bad, expected="the alignment file's contigs are addressed with the prefix they carry: 'chr' when only the prefixed name of the chromosome is listed, none otherwise",
           found="agrees" if not bad else str(bad), clause="reads ... outside the gene region contribute nothing (and those inside it are fetched)", key="contig-prefix")


def r6(repo, res):
    f = repo.func("sam::Sample._make_coverage")
    res.analysed(f)
    captured = {}

    def cov(gene, profile, sam, table, indels, cnv):
        captured["table"] = table
        return "COV"

    lo, hi = 100, 110
    muts = {(95, "A>C"): [1], (95, "insG"): [2], (lo, "A>C"): [3], (hi, "A>G"): [4], (105, "A>T"): [5], (111, "A>C"): [6], (111, "-"): [7]}
    norm = {95: [8, 9], 105: [10], 111: [], 112: [11]}
    me = Obj(gene=GeneStub(mapped=set(range(lo, hi + 1))), _multi_sites={}, profile="P", _indel_sites={}, _dump_cn={})
    try:
        k, v = Evaluator({"self": me, "norm": norm, "muts": muts}, funcs={"Coverage": cov}).run(fn_body(f))
    except (Unfoldable, Raised) as e:
        res.err("C06.R6", f"_make_coverage outside folding language: {e}")
        return
    t = captured.get("table", {})
    t = {p: {o: sorted(v_) for o, v_ in d.items()} for p, d in t.items() if d}
    want = {95: {"_": [1, 8, 9], "insG": [2]}, lo: {"A>C": [3]}, hi: {"A>G": [4]}, 105: {"_": [10], "A>T": [5]}, 111: {"_": [6, 7]}, 112: {"_": [11]}}
    res.ob("C06.R6", f, f, t == want,
           expected="substitutions/deleted bases outside the RefSeq-mapped interval count as reference; inside it (both end points included) they keep "
                    "their own key; insertions always keep theirs; nothing is lost",
           found="ok" if t == want else f"{t}", clause="within the RefSeq-mapped part the count recorded for a substitution equals the number of eligible reads showing that base",
           key="out-of-gene-folding")


def spec_pileup(cigar, seq, start=START, ref=lambda i: "A"):
    """Independent CIGAR interpreter (reference `ref`, 'A' everywhere by default): (per-position list of kinds, insertions, final cursor)."""
    per = collections.defaultdict(list)
    ins = []
    rp, qp = start, 0
    for op, n in cigar:
        if op in (0, 7, 8):
            for i in range(n):
                b = seq[qp + i]
                per[rp + i].append("_" if b == ref(rp + i) else f"{ref(rp + i)}>{b}")
            rp += n
            qp += n
        elif op == 1:
            ins.append((rp, "ins" + seq[qp:qp + n]))
            qp += n
        elif op == 2:
            for i in range(n):
                per[rp + i].append("-")
            rp += n
        elif op == 4:
            qp += n
    return per, ins, rp


def r8_exhaustive(repo, res):
    """Thorough tier: every CIGAR of up to three runs over {M,=,X,I,D,S} with run lengths 1..3 and seeded read bases,
    folded through the lifted parser and compared with the independent interpreter."""
    import random

    from sa.report import seed, thorough

    if not thorough():
        return
    f = repo.func("sam::Sample._parse_read")
    rnd = random.Random(seed())
    alphabet = [0, 7, 8, 1, 2, 4]
    n = 0
    bad = None
    for k in (1, 2, 3):
        for ops in itertools.product(alphabet, repeat=k):
            if any(a == b for a, b in zip(ops, ops[1:])):
                continue
            if any(o == 4 for o in ops[1:-1]) or (k > 1 and ops[0] in (1, 2)) or ops[-1] in (1, 2) and k > 1:
                continue  # soft clips at the ends only; no leading / trailing indels (not produced by aligners)
            if not any(o in (0, 7, 8) for o in ops):
                continue
            for sizes in itertools.product((1, 2, 3), repeat=k):
                cigar = list(zip(ops, sizes))
                qlen = sum(s_ for o, s_ in cigar if o in CONSUMES_QUERY)
                seq = "".join(rnd.choice("AAACGT") for _ in range(qlen))
                qual = [rnd.randint(2, 41) for _ in range(qlen)]
                try:
                    kind, val, norm, muts, me, ev = fold_parse_read(repo, cigar, seq, qual)
                except Unfoldable as e:
                    res.err("C06.R8", f"_parse_read outside folding language: {e}")
                    return
                n += 1
                per, ins = observations(norm, muts)
                wper, wins, wcur = spec_pileup(cigar, seq)
                got = {p: sorted(("-" if not (x == "_" or ">" in x) else x) for x, _ in l) for p, l in per.items() if l}
                want = {p: sorted(l) for p, l in wper.items()}
                gins = sorted((p, o) for p, o, _ in ins)
                cur = val[0][1] if kind == "return" and val else None
                if kind == "raise" or got != want or gins != sorted(wins) or cur != wcur:
                    bad = bad or (f"CIGAR {''.join(str(s_) + OPS[o] for o, s_ in cigar)} read {seq}: "
                                  f"{'raises ' + str(val) if kind == 'raise' else f'pileup {got} / insertions {gins} / cursor {cur}'}; "
                                  f"specification {want} / {sorted(wins)} / {wcur}")
    res.count("C06.R8:CIGARs enumerated", n)
    res.ob("C06.R8", f, f, bad is None,
           expected="the lifted parser's pileup equals an independent CIGAR interpreter on every CIGAR of up to three runs (lengths 1..3)",
           found=f"{n} reads agree" if bad is None else bad,
           clause="the number of non-insertion observations equals the number of eligible reads whose alignment spans that position",
           key="exhaustive-small-cigars")


def r9_depth_conservation(repo, res):
    """Depth conservation end to end: several reads through the lifted parser into one pair of tables, through the lifted coverage
    construction and Coverage constructor, read back through the lifted accessors -- at every position the depth the stages see
    equals the number of reads whose alignment spans it; inside the RefSeq-mapped part substitution counts are the reads showing
    that base. The gene stub maps only part of the window (with a gap), so reads reach positions outside the mapped part."""
    from sa.fold import ClassModel, Lifted

    mk = repo.func("sam::Sample._make_coverage")
    cov_init = repo.func("coverage::Coverage.__init__")
    pr = repo.func("sam::Sample._parse_read")
    res.analysed(mk, cov_init, pr)
    S = START
    mapped = set(range(S + 4, S + 14)) - {S + 9}
    # a reference that is not uniform (a base read at the wrong position shows in the variant keys)
    def ref(i):
        return "ACGT"[(i * i + i // 3) % 4]

    def alt(i, k=1):
        return "ACGT"[("ACGT".index(ref(i)) + k) % 4]

    class VarGene(GeneStub):
        def __getitem__(self, i):
            if isinstance(i, slice):
                return "".join(self[j] for j in range(i.start, i.stop))
            return ref(i) if self.lo <= i < self.hi else "N"

    def mkseq(start, cigar, subs=None, ins="GGGG"):
        subs, out, rp = subs or {}, [], start
        for op, n in cigar:
            if op in (0, 7, 8):
                out += [alt(rp + i, subs[rp + i]) if rp + i in subs else ref(rp + i) for i in range(n)]
                rp += n
            elif op == 1:
                out.append(ins[:n])
            elif op == 2:
                rp += n
            elif op == 4:
                out.append("T" * n)
        return "".join(out)

    sub = lambda p, k=1: f"{ref(p)}>{alt(p, k)}"  # noqa: E731
    multi = {S + 5: f"{ref(S + 5)}{ref(S + 6)}>{alt(S + 5)}{alt(S + 6)}", S + 10: f"{ref(S + 10)}.{ref(S + 12)}>{alt(S + 10)}.{alt(S + 12)}"}
    plan = [
        ("reference read over the window", S, [(0, 20)], {}),
        ("deletion reaching into the mapped part", S + 2, [(0, 3), (2, 4), (0, 5)], {}),
        ("deletion outside the mapped part", S, [(0, 1), (2, 2), (0, 6)], {}),
        ("complete two-base substitution", S + 3, [(0, 8)], {S + 5: 1, S + 6: 1}),
        ("second read with the complete two-base substitution", S + 4, [(0, 4)], {S + 5: 1, S + 6: 1}),
        ("second half of the two-base substitution only", S + 3, [(0, 8)], {S + 6: 1}),
        ("half of the two-base substitution", S + 3, [(0, 8)], {S + 5: 1}),
        ("another substitution at the first site of the two-base substitution", S + 4, [(0, 3)], {S + 5: 2}),
        ("substitution outside the mapped part", S, [(0, 4)], {S: 1}),
        ("insertion", S + 4, [(0, 2), (1, 2), (0, 3)], {}),
        ("soft clip, = and X runs", S + 6, [(4, 2), (7, 2), (8, 1), (0, 2)], {S + 8: 1}),
        ("complete dotted substitution", S + 9, [(0, 5)], {S + 10: 1, S + 12: 1}),
        ("deletion beyond the mapped part", S + 12, [(0, 2), (2, 3), (0, 2)], {}),
        ("substitution in the gap of the mapping", S + 8, [(0, 3)], {S + 9: 1}),
    ]
    reads = [(label, start, cigar, mkseq(start, cigar, subs)) for label, start, cigar, subs in plan]
    gene = VarGene(lo=S - 5, hi=S + 30, mapped=mapped)
    me = Obj(phases={}, gene=gene, phaseable={}, _indel_sites_eqs={}, _indel_sites={}, _multi_sites=dict(multi), profile="P", _dump_cn={}, coverage=None)
    norm, muts = collections.defaultdict(list), collections.defaultdict(list)
    depth = collections.Counter()
    shows = collections.Counter()

    def table_of(order):
        """The coverage table (position -> key -> number of observations) the pipeline builds from the reads taken in `order`."""
        me_ = Obj(phases={}, gene=gene, phaseable={}, _indel_sites_eqs={}, _indel_sites={}, _multi_sites=dict(multi), profile="P", _dump_cn={}, coverage=None)
        n_, m_ = collections.defaultdict(list), collections.defaultdict(list)
        for label, start, cigar, seq in order:
            kind_, val_, _, _, _, _ = fold_parse_read(repo, cigar, seq, [30] * len(seq), ref_start=start, into=(me_, n_, m_))
            if kind_ == "raise":
                raise Raised(str(val_))
        ci_ = Lifted(cov_init)

        def mk_(*a, **k):
            o = Obj()
            ci_(o, *a, **k)
            return o

        Lifted(mk, funcs={"Coverage": mk_})(me_, n_, m_)
        return {p_: {k_: len(v_) for k_, v_ in ops.items() if v_} for p_, ops in me_.coverage._coverage.items() if any(ops.values())}

    try:
        for label, start, cigar, seq in reads:
            kind, val, _, _, _, _ = fold_parse_read(repo, cigar, seq, [30] * len(seq), ref_start=start, into=(me, norm, muts))
            if kind == "raise":
                res.ob("C06.R9", pr, pr, False, expected=f"{label}: parsed", found=f"raises {val}", key="depth-conservation")
                return
            wper, wins, _ = spec_pileup(cigar, seq, start, ref)
            for p, ks in wper.items():
                depth[p] += len(ks)
                for k in ks:
                    shows[p, k] += 1
        cinit = Lifted(cov_init)

        def make_cov(*a, **k):
            o = Obj()
            cinit(o, *a, **k)
            return o

        Lifted(mk, funcs={"Coverage": make_cov})(me, norm, muts)
        cm = ClassModel(repo.cls("coverage::Coverage"))
        inst = cm.instance(_coverage=me.coverage._coverage, _indels=me.coverage._indels)
        Mu = collections.namedtuple("Mutation", ["pos", "op"])
        bad = []
        for p in range(S - 1, S + 22):
            got = cm.call("total", inst, [p], {})
            if got != depth[p]:
                bad.append(f"position {p}: depth read back {got}, {depth[p]} reads span it")
        # substitutions inside the mapped part; the complete multi-nucleotide reads are counted under their variant at its first position
        complete = {(S + 5, sub(S + 5)): 2, (S + 6, sub(S + 6)): 2, (S + 10, sub(S + 10)): 1, (S + 12, sub(S + 12)): 1}
        for (p, k), n in sorted(shows.items()):
            if k in ("_", "-") or p not in mapped:
                continue
            want = n - complete.get((p, k), 0)
            got = cm.call("coverage", inst, [Mu(p, k)], {})
            if got != want:
                bad.append(f"substitution {k} at {p}: {got} observations, {want} reads show it (outside a complete multi-nucleotide substitution)")
        for (p, k), n in (((S + 5, multi[S + 5]), 2), ((S + 10, multi[S + 10]), 1)):
            got = cm.call("coverage", inst, [Mu(p, k)], {})
            if got != n:
                bad.append(f"multi-nucleotide substitution {k} at {p}: {got} observations, {n} reads show it completely")
        for p in sorted(mapped - {S + 5, S + 6, S + 10, S + 11, S + 12}):
            got = cm.call("coverage", inst, [Mu(p, "_")], {})
            if got != shows[p, "_"]:
                bad.append(f"reference count at {p}: {got}, {shows[p, '_']} reads show the reference base")
        for p in (S, S + 1, S + 2, S + 15):   # outside the mapped part everything that spans the position counts as reference
            got = cm.call("coverage", inst, [Mu(p, "_")], {})
            if got != depth[p]:
                bad.append(f"position {p} outside the mapped part: reference count {got}, {depth[p]} reads span it")
    except Unfoldable as e:
        res.err("C06.R9", f"parser / coverage construction / accessors outside the folding language: {e}")
        return
    except Raised as e:
        res.ob("C06.R9", mk, mk, False, expected="the sample pileup is built", found=f"raises {e}", key="depth-conservation")
        return
    # the table does not depend on the order in which the reads are parsed
    try:
        import random as _random

        fwd = table_of(reads)
        orders = [("reversed", list(reversed(reads)))]
        for sd in (1, 2, 3):
            sh = list(reads)
            _random.Random(sd).shuffle(sh)
            orders.append((f"shuffled (seed {sd})", sh))
        diff = None
        for olabel, order in orders:
            t2 = table_of(order)
            if t2 != fwd and diff is None:
                ks = [p_ for p_ in sorted(set(fwd) | set(t2)) if fwd.get(p_) != t2.get(p_)]
                diff = f"{olabel} order: position {ks[0]} holds {t2.get(ks[0])}, in the listed order {fwd.get(ks[0])}"
    except Unfoldable as e:
        res.err("C06.R9", f"parser / coverage construction outside the folding language: {e}")
        return
    except Raised as e:
        diff = f"raises {e}"
    res.ob("C06.R9", pr, pr, diff is None,
           expected=f"the coverage table built from the {len(reads)} reads is the same for the listed, the reversed and three shuffled read orders",
           found="same" if diff is None else diff, clause="the result does not depend on read order", key="read-order")
    res.ob("C06.R9", mk, mk, not bad,
           expected=f"{len(reads)} reads (every CIGAR operation, deletions and substitutions inside and outside the RefSeq-mapped part, complete and incomplete "
                    "multi-nucleotide substitutions): at each of the 23 window positions the depth read back equals the number of spanning reads; substitution, "
                    "multi-nucleotide and reference counts inside the mapped part equal the reads showing them",
           found="agrees" if not bad else "; ".join(bad[:4]),
           clause="at every position of the gene region the number of non-insertion observations equals the number of eligible reads whose alignment spans that position",
           key="depth-conservation")


def run(repo, res):
    r9_depth_conservation(repo, res)
    r4_prefix(repo, res)
    r8_exhaustive(repo, res)
    r1_r2_r5(repo, res)
    r1_symbolic(repo, res)
    r7_phase(repo, res)
    r2_multi(repo, res)
    r1_regions(repo, res)
    r3(repo, res)
    r4(repo, res)
    r6(repo, res)


MUTANTS = [
    dict(name="R4 contig prefix never applied", module="common", expect="C06.R4",
         old='    if ch not in chrs and "chr" + ch in chrs:\n        return "chr"\n    return ""', new='    return ""'),
    dict(name="benign: prefix preferred when a header lists both spellings (ambiguous header; seeded X9_3 shape)", module="common", kind="benign",
         old='    if ch not in chrs and "chr" + ch in chrs:\n        return "chr"\n    return ""', new='    return "chr" if "chr" + ch in chrs else ""'),
    dict(name="R9 reference base of a substitution read one run-offset too early", module="sam", expect=["C06.R9", "C06.R2"],
         old='                        mut = (start + i, f"{self.gene[start + i]}>{seq[s_start + i]}")', new='                        mut = (start + i, f"{self.gene[start - i]}>{seq[s_start + i]}")'),
    dict(name="R7 variant-site test at the mirrored offset", module="sam", expect=["C06.R7"],
         old="                        if start + i in self.phaseable:\n                            phase[start + i] = mut[1]", new="                        if start - i in self.phaseable:\n                            phase[start + i] = mut[1]"),
    dict(name="R5 insertion quality averaged over one base too many", module="sam", expect="C06.R5",
         old="                q = mean(qual[s_start : s_start + size]) if qual else prev_q", new="                q = mean(qual[s_start : s_start + size + 1]) if qual else prev_q"),
    dict(name="R9 RefSeq membership tested at the run start", module="sam", expect=["C06.R9", "C06.R6", "C06.R2"],
         old="                        start + i in self.gene\n                        and self.gene[start + i] != seq[s_start + i]", new="                        start in self.gene\n                        and self.gene[start + i] != seq[s_start + i]"),
    dict(name="R9 deleted bases outside the mapped part dropped (seeded C06_c2 shape)", module="sam", expect="C06.R9",
         old='                    muts[start + i, "-"].append((bin_quality(mq), bin_quality(prev_q)))',
         new='                    if start + i in self.gene:\n                        muts[start + i, "-"].append((bin_quality(mq), bin_quality(prev_q)))'),
    dict(name="R9 depth by whitelist of single-base keys (seeded C06_c3 shape)", module="coverage", expect="C06.R9",
         old='sum(len(v) for p, v in self._coverage[pos].items() if p[:3] != "ins")',
         new='sum(len(v) for p, v in self._coverage[pos].items() if p in ("_", "-") or p[:3] == "del" or (len(p) == 3 and p[1] == ">"))'),
    dict(name="R9 out-of-region variants dropped instead of folded into reference", module="sam", expect=["C06.R9", "C06.R6"],
         old='                mut = "_"  # ignore mutations outside of the region of interest', new='                continue'),
    dict(name="R9 merged multi-nucleotide read not returned to the later positions", module="sam", expect=["C06.R9", "C06.R2"],
         old="                        if p:  # no idea why...\n                            norm[pos + p].append(items[-1])", new="                        pass"),
    dict(name="benign: depth filter through a helper predicate", module="coverage", kind="benign",
         old='sum(len(v) for p, v in self._coverage[pos].items() if p[:3] != "ins")',
         new='sum(len(v) for p, v in self._coverage[pos].items() if not p.startswith("ins"))'),
    dict(name="R4 original defect (closed-interval overlap test: touching reads accepted)", module="sam", expect="C06.R4",
         old="    return read.reference_start < region.end and region.start < read.reference_end",
         new="    a = (read.reference_start, read.reference_end)\n    b = (region.start, region.end)\n    return a[0] <= b[0] <= a[1] or b[0] <= a[0] <= b[1]"),
    dict(name="R1 deletion does not advance the cursor", module="sam", expect="C06.R1",
         old="                    self._indel_sites[self._indel_sites_eqs[mut]][1] += 1\n                start += size\n            elif op == 1:",
         new="                    self._indel_sites[self._indel_sites_eqs[mut]][1] += 1\n            elif op == 1:"),
    dict(name="R1 soft clip advances the reference", module="sam", expect="C06.R1",
         old="            elif op == 4:  # Soft-clip\n                s_start += size", new="            elif op == 4:  # Soft-clip\n                s_start += size\n                start += size"),
    dict(name="R1 insertion does not consume the query", module="sam", expect=["C06.R1", "C06.R2"],
         old="                    self._indel_sites[self._indel_sites_eqs[mut]][1] += 1\n                s_start += size\n", new="                    self._indel_sites[self._indel_sites_eqs[mut]][1] += 1\n"),
    dict(name="R1 '=' not handled", module="sam", expect="C06.R1",
         old="            elif op in [0, 7, 8]:  # M, X and =", new="            elif op in [0, 8]:  # M, X and ="),
    dict(name="R2 '=' bases never compared (seeded C06_1 shape)", module="sam", expect="C06.R2",
         old="                    if (\n                        start + i in self.gene\n                        and self.gene[start + i] != seq[s_start + i]",
         new="                    if (\n                        op != 7\n                        and start + i in self.gene\n                        and self.gene[start + i] != seq[s_start + i]"),
    dict(name="R2 deleted bases not counted", module="sam", expect=["C06.R1", "C06.R2"],
         old='                for i in range(size):\n                    muts[start + i, "-"].append((bin_quality(mq), bin_quality(prev_q)))\n', new=""),
    dict(name="R2 multi-SNP first base double counted (seeded C06_2 shape)", module="sam", expect="C06.R2",
         old="                        if p:  # no idea why...\n                            norm[pos + p].append(items[-1])", new="                        norm[pos + p].append(items[-1])"),
    dict(name="R3 insertions counted into depth", module="coverage", expect="C06.R3",
         old='            sum(len(v) for p, v in self._coverage[pos].items() if p[:3] != "ins")', new="            sum(len(v) for p, v in self._coverage[pos].items())"),
    dict(name="R3 insertion key without prefix", module="sam", expect=["C06.R3", "C06.R1"],
         old='                mut = (start, "ins" + seq[s_start : s_start + size])', new='                mut = (start, "+" + seq[s_start : s_start + size])'),
    dict(name="R4 supplementary reads parsed", module="sam", expect="C06.R4",
         old="                if read.is_supplementary:  # avoid supplementary alignments\n                    continue\n", new=""),
    dict(name="R4 hard-clipped reads parsed", module="sam", expect="C06.R4",
         old='                if "H" in read.cigarstring:  # avoid hard-clipped reads\n                    continue\n', new=""),
    dict(name="R4 region test dropped", module="sam", expect="C06.R4",
         old="                if not _in_region(self.gene.get_wide_region(), read, self._prefix):\n                    continue\n", new=""),
    dict(name="R4 region predicate one-sided", module="sam", expect="C06.R4",
         old="    return read.reference_start < region.end and region.start < read.reference_end", new="    return read.reference_start < region.end"),
    dict(name="R4 qualities handed over in the wrong slot", module="sam", expect=["C06.R4"],
         old="                    read.mapping_quality,\n                    read.query_qualities,\n                )\n                if self.reads is not None:",
         new="                    read.query_qualities,\n                    read.mapping_quality,\n                )\n                if self.reads is not None:"),
    dict(name="R5 tuple fields swapped", module="sam", expect="C06.R5",
         old="                        norm[start + i].append((bin_quality(mq), bin_quality(q)))", new="                        norm[start + i].append((bin_quality(q), bin_quality(mq)))"),
    dict(name="R5 non-monotone bin", module="sam", expect="C06.R5",
         old="            if q < 20:\n                return 15", new="            if q < 20:\n                return 27"),
    dict(name="R5 base quality of the wrong base", module="sam", expect="C06.R5",
         old="                    q = qual[s_start + i] if qual else prev_q\n                    if (", new="                    q = qual[s_start] if qual else prev_q\n                    if ("),
    dict(name="R6 last mapped position folded away (seeded C06_3 shape)", module="sam", expect="C06.R6",
         old="        bounds = min(self.gene.chr_to_ref), max(self.gene.chr_to_ref)\n        for (pos, mut), cov in muts.items():\n            if pos not in coverage:\n                coverage[pos] = {}\n            if not bounds[0] <= pos <= bounds[1] and mut[:3] != \"ins\":",
         new="        bounds = range(min(self.gene.chr_to_ref), max(self.gene.chr_to_ref))\n        for (pos, mut), cov in muts.items():\n            if pos not in coverage:\n                coverage[pos] = {}\n            if pos not in bounds and mut[:3] != \"ins\":"),
    dict(name="R6 out-of-gene substitutions kept", module="sam", expect="C06.R6",
         old='                mut = "_"  # ignore mutations outside of the region of interest', new="                pass"),
    dict(name="R7 phase record of a mismatch says reference", module="sam", expect="C06.R7",
         old="                        if start + i in self.phaseable:\n                            phase[start + i] = mut[1]\n                    else:",
         new="                        if start + i in self.phaseable:\n                            phase[start + i] = \"_\"\n                    else:"),
    dict(name="R7 phase record keyed by the query index", module="sam", expect="C06.R7",
         old="                        if start + i in self.phaseable:\n                            phase[start + i] = \"_\"", new="                        if start + i in self.phaseable:\n                            phase[s_start + i] = \"_\""),
    dict(name="R4 contig matched by suffix (seeded C19_b2 shape)", module="sam", expect="C06.R4",
         old="    if read.reference_id == -1 or read.reference_name != prefix + region.chr:", new="    if read.reference_id == -1 or not read.reference_name.endswith(region.chr):"),
    dict(name="R4 hard clip tested on the first op only (seeded C06_b1 shape)", module="sam", expect="C06.R4",
         old='                if "H" in read.cigarstring:  # avoid hard-clipped reads', new="                if read.cigartuples[0][0] == 5:  # avoid hard-clipped reads"),
    dict(name="R5 deleted-base tuple swapped (seeded C06_b2 shape)", module="sam", expect="C06.R5",
         old='                    muts[start + i, "-"].append((bin_quality(mq), bin_quality(prev_q)))', new='                    muts[start + i, "-"].append((bin_quality(prev_q), bin_quality(mq)))'),
    dict(name="R7 phase record only for catalogued substitutions (seeded C06_b3 shape)", module="sam", expect="C06.R7",
         old="                        muts[mut].append((bin_quality(mq), bin_quality(q)))\n                        if start + i in self.phaseable:",
         new="                        muts[mut].append((bin_quality(mq), bin_quality(q)))\n                        if mut in self.gene.mutations:"),
    # benign
    dict(name="benign: op chain rewritten", module="sam", kind="benign",
         old="            elif op in [0, 7, 8]:  # M, X and =", new="            elif op == 0 or op == 7 or op == 8:"),
    dict(name="benign: bounds as range incl. last", module="sam", kind="benign",
         old="            if not bounds[0] <= pos <= bounds[1] and mut[:3] != \"ins\":", new="            if pos not in range(bounds[0], bounds[1] + 1) and mut[:3] != \"ins\":"),
    dict(name="benign: eligibility tests merged", module="sam", kind="benign",
         old="                if read.is_supplementary:  # avoid supplementary alignments\n                    continue\n                if \"H\" in read.cigarstring:  # avoid hard-clipped reads\n                    continue\n",
         new="                if read.is_supplementary or \"H\" in read.cigarstring:\n                    continue\n"),
]
