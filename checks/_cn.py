"""
estimate_cn lifted whole (shared by C03, C07, C19): gene, profile and coverage are sample-domain records, the model
builder and the candidate filter are recording stubs.
"""

import collections

from sa.fold import Lifted, Obj, Raised
from sa.loader import AnalysisError

CT = Obj(DEFAULT="DEFAULT", DELETION="DELETION", LEFT_FUSION="LEFT_FUSION", RIGHT_FUSION="RIGHT_FUSION", CUSTOM="CUSTOM")
REGIONS = ["e1", "e2", "pce"]


def sample_gene(parts=2, configs=None, do_cn=True, chrom="22"):
    cfg = configs if configs is not None else {
        "1": Obj(cn=[{r: 1 for r in REGIONS}, {r: 1 for r in REGIONS}][:parts], kind=CT.DEFAULT),
        "5": Obj(cn=[{r: 0 for r in REGIONS}, {r: 1 for r in REGIONS}][:parts], kind=CT.DELETION),
        "36": Obj(cn=[{"e1": 1, "e2": 0, "pce": 0}, {"e1": 1, "e2": 2, "pce": 2}][:parts], kind=CT.RIGHT_FUSION),
    }
    return Obj(name="G", chr=chrom, regions=[{r: None for r in REGIONS}] * parts, unique_regions=list(REGIONS), cn_configs=cfg,
               do_copy_number=do_cn, deletion_allele=lambda: "5")


def fold_estimate_cn(repo, gene, profile, depth, fusion_counter=None):
    """depth: {(gene part, region): normalised depth}. -> (kind, value, calls) ; calls: recorded (callee, args)."""
    f = repo.func("cn::estimate_cn")
    calls = []
    cov = Obj(region_coverage=lambda gi, r: depth[(gi, r)], sam=Obj(_fusion_counter=dict(fusion_counter or {})))

    def solve(*a, **k):
        calls.append(("solve_cn_model", a, k))
        return ["SOLUTIONS"]

    def filt(g, c):
        calls.append(("_filter_configs", (g, c), {}))
        return dict(g.cn_configs)

    def parse(g, sols):
        calls.append(("_parse_user_solution", (g, list(sols)), {}))
        return ("USER", list(sols))

    import math

    fn = Lifted(f, funcs={"solve_cn_model": solve, "_filter_configs": filt, "_parse_user_solution": parse, "_print_coverage": lambda *a: None,
                          "natsorted": sorted, "ceil": math.ceil, "math.ceil": math.ceil}, env={"CNConfigType": CT})
    try:
        return "return", fn(gene, profile, cov if depth is not None else None, "any", None), calls
    except Raised as r:
        return "raise", r.kind, calls
