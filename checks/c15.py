"""
C15 -- calls are backed by high-quality reads; low-quality reads are ignored.

Decided: (R1) Coverage typestate RAW -> QF -> TF: every coverage object handed to a model builder,
used as receiver of the threshold filter, or consulted by the allele-support test has passed the
quality filter first; (R2) the quality predicate and the `filtered` store, folded on grids; the
indel realigner receives both thresholds; (R3) the support threshold formula and both stage
closures. (The former R4 -- novel variants range over positively supported catalogue variants -- is decided by C02.R9 on an instance with unobserved catalogue variants.)
Not decided: metamorphic invariance of solver results.
"""

import ast
import collections
import copy
import itertools

from sa.cfg import cfg_of
from sa.dataflow import reaching
from sa.fold import Evaluator, Obj, Raised, Unfoldable
from sa.guards import find_calls
from sa.loader import AnalysisError, FuncNode, call_name, calls_in, kwarg, walk_local

PROPERTY = "C15"
EXPLANATION = (
    "Typestate dataflow over Coverage-typed values (reaching definitions on the CFG, transitions at "
    ".filtered(F) classified by what F resolves to: Coverage.quality_filter vs. a closure/partial that calls "
    "basic_filter; tuple returns carried into callers; container element states) with sinks at the solve_*_model "
    "calls, at threshold-filter receivers and at the allele-support test. quality_filter, filtered and basic_filter "
    "and the two stage closures are lifted and folded on grids of observations / thresholds / copy numbers."
)
ASSUMPTIONS = [
    "estimate_major / estimate_minor receive the sample's raw Coverage (state RAW)",
    "long-read indel counters and the phase table are not quality-filtered in the source (outside the property's quantifier; noted)",
]

RAW, T0, QF, TF = "RAW", "T0(threshold without quality)", "QF", "TF"
GOOD = (QF, TF)


def join(states):
    states = [s for s in states if s is not None]
    if not states:
        return None
    for bad in (RAW, T0):
        if bad in states:
            return bad
    return QF if QF in states else TF


class TS:
    """Typestate of Coverage-valued expressions in one function."""

    def __init__(self, repo, func, param_states):
        self.repo, self.func = repo, func
        self.params = dict(param_states)
        self.cfg = cfg_of(func)
        self.memo = {}
        self.nested = {n.name: n for n in ast.walk(func)
                       if isinstance(n, (ast.FunctionDef,)) and n is not func}

    # classification of a filter argument
    def filter_kind(self, f, at):
        if isinstance(f, ast.Attribute) and f.attr == "quality_filter":
            return "Q"
        if isinstance(f, ast.Call) and call_name(f) in ("partial", "functools.partial") and f.args:
            return self.filter_kind(f.args[0], at)
        if isinstance(f, ast.Attribute) and f.attr == "basic_filter":
            return "T"
        target = None
        if isinstance(f, ast.Name):
            if f.id in self.nested:
                target = self.nested[f.id]
            else:
                IN, defs = reaching(self.cfg, f.id)
                ds = [defs[d] for d in IN[self.cfg.node_of(at)]]
                kinds = set()
                for d in ds:
                    if isinstance(d, ast.Assign):
                        kinds.add(self.filter_kind(d.value, d))
                    elif isinstance(d, ast.FunctionDef):
                        target = d
                if kinds:
                    return kinds.pop() if len(kinds) == 1 else "?"
                if target is None:
                    # a helper defined at module level (e.g. a former closure bound with functools.partial)
                    mod = getattr(self.func, "_mod", None)
                    if mod is not None:
                        target = next((n for n in mod.tree.body if isinstance(n, ast.FunctionDef) and n.name == f.id), None)
        elif isinstance(f, ast.Lambda):
            target = f
        elif isinstance(f, ast.Call) and isinstance(f.func, ast.Name) and f.func.id in self.nested:
            # factory: closure returned by a nested def
            inner = [n for n in ast.walk(self.nested[f.func.id]) if isinstance(n, ast.FunctionDef)
                     and n is not self.nested[f.func.id]]
            target = inner[0] if inner else self.nested[f.func.id]
        if target is not None:
            calls = {c.func.attr for c in ast.walk(target) if isinstance(c, ast.Call) and isinstance(c.func, ast.Attribute)}
            if "basic_filter" in calls:
                return "T"
            if "quality_filter" in calls:
                return "Q"
        return "?"

    def state(self, e, at=None):
        at = at if at is not None else e
        if isinstance(e, ast.Name):
            key = (e.id, self.cfg.node_of(at))
            if key in self.memo:
                return self.memo[key]
            self.memo[key] = None
            IN, defs = reaching(self.cfg, e.id)
            sts = []
            for d in IN[self.cfg.node_of(at)]:
                sts.append(self.def_state(e.id, d, defs[d]))
            self.memo[key] = join(sts)
            return self.memo[key]
        if isinstance(e, ast.Call) and isinstance(e.func, ast.Attribute) and e.func.attr == "filtered" and e.args:
            base = self.state(e.func.value, at)
            k = self.filter_kind(e.args[0], at)
            if base is None:
                return None
            if k == "Q":
                return QF if base in (RAW, QF) else base
            if k == "T":
                return TF if base in GOOD else T0
            return base
        if isinstance(e, ast.Call) and isinstance(e.func, ast.Attribute) and e.func.attr != "filtered" \
                and self.repo.has_func(f"coverage::Coverage.{e.func.attr}"):
            # a helper method of Coverage that returns a (filtered) coverage: state of its return expressions
            base = self.state(e.func.value, at)
            if base is None:
                return None
            target = self.repo.func(f"coverage::Coverage.{e.func.attr}")
            sub = TS(self.repo, target, {"self": base})
            sts = [sub.state(r.value, r) for r in walk_local(target) if isinstance(r, ast.Return) and r.value is not None]
            return join(sts) if sts and all(x is not None for x in sts) else None
        if isinstance(e, ast.Subscript):
            return self.elem_state(e.value, at)
        if isinstance(e, ast.IfExp):
            return join([self.state(e.body, at), self.state(e.orelse, at)])
        return None

    def elem_state(self, e, at):
        """State of the elements of a container expression."""
        if isinstance(e, ast.Name):
            IN, defs = reaching(self.cfg, e.id)
            sts = []
            for d in IN[self.cfg.node_of(at)]:
                dn = defs[d]
                if isinstance(dn, ast.Assign):
                    sts.append(self.elem_state(dn.value, dn))
            # a container filled piece by piece (`d = {}` ... `d[k] = v`, `l.append(v)`): its elements are what is stored into it anywhere in the function
            for n in walk_local(self.func):
                if isinstance(n, ast.Assign) and any(isinstance(t, ast.Subscript) and isinstance(t.value, ast.Name) and t.value.id == e.id for t in n.targets):
                    sts.append(self.state(n.value, n))
                elif isinstance(n, ast.Expr) and isinstance(n.value, ast.Call) and isinstance(n.value.func, ast.Attribute) \
                        and isinstance(n.value.func.value, ast.Name) and n.value.func.value.id == e.id and n.value.args:
                    if n.value.func.attr in ("append", "add"):
                        sts.append(self.state(n.value.args[0], n))
                    elif n.value.func.attr == "setdefault" and len(n.value.args) == 2:
                        sts.append(self.state(n.value.args[1], n))
            return join(sts)
        if isinstance(e, ast.DictComp):
            return self.state(e.value, e)
        if isinstance(e, (ast.ListComp, ast.SetComp, ast.GeneratorExp)):
            return self.state(e.elt, e)
        if isinstance(e, ast.Dict):
            return join([self.state(v, at) for v in e.values])
        if isinstance(e, (ast.List, ast.Tuple, ast.Set)):
            return join([self.state(v, at) for v in e.elts])
        if isinstance(e, ast.Call) and isinstance(e.func, ast.Attribute) and e.func.attr in ("values", "copy"):
            return self.elem_state(e.func.value, at)
        return None

    def def_state(self, name, did, d):
        if d is self.func:
            return self.params.get(name)
        if isinstance(d, ast.Assign):
            t = d.targets[0]
            if isinstance(t, ast.Name):
                return self.state(d.value, d)
            if isinstance(t, ast.Tuple):
                idx = next((i for i, x in enumerate(t.elts) if isinstance(x, ast.Name) and x.id == name), None)
                if idx is None:
                    return None
                if isinstance(d.value, ast.Tuple) and idx < len(d.value.elts):
                    return self.state(d.value.elts[idx], d)
                if isinstance(d.value, ast.Call):
                    return self.call_ret_state(d.value, idx, d)
            return None
        if isinstance(d, ast.For):
            # loop variable: element of the iterable
            if isinstance(d.target, ast.Name) and d.target.id == name:
                return self.elem_state(d.iter, d)
        return None

    def call_ret_state(self, call, idx, at):
        nm = call_name(call)
        mod = self.func._mod
        target = mod.functions.get(nm)
        if target is None:
            return None
        ps = {}
        for a, v in zip(target.args.args, call.args):
            ps[a.arg] = self.state(v, at)
        sub = TS(self.repo, target, ps)
        sts = []
        for r in walk_local(target):
            if isinstance(r, ast.Return) and isinstance(r.value, ast.Tuple) and idx < len(r.value.elts):
                sts.append(sub.state(r.value.elts[idx], r))
        return join(sts)


def r1(repo, res):
    n_sinks = 0
    plan = [("major::estimate_major", {"coverage": RAW}), ("major::_filter_alleles", {"coverage": RAW}),
            ("minor::estimate_minor", {"coverage": RAW})]
    for ref, ps in plan:
        f = repo.func(ref)
        res.analysed(f)
        ts = TS(repo, f, ps)
        # (a) coverage argument of the model builders
        for call in calls_in(f):
            nm = call_name(call)
            if nm in ("solve_major_model", "solve_minor_model"):
                arg = call.args[1] if len(call.args) > 1 else kwarg(call, "coverage")
                st = ts.state(arg, call) if arg is not None else None
                n_sinks += 1
                res.ob("C15.R1", f, call, st in GOOD,
                       expected="the coverage handed to the model builder has passed Coverage.quality_filter (state QF or TF)",
                       found=f"`{ast.unparse(arg) if arg is not None else '?'}` is {st}",
                       clause="adding, removing or changing reads below either quality threshold never changes the solutions",
                       key=f"model-input:{nm}")
            # (b) receiver of a threshold filter
            if isinstance(call.func, ast.Attribute) and call.func.attr == "filtered" and call.args \
                    and ts.filter_kind(call.args[0], call) == "T":
                st = ts.state(call.func.value, call)
                n_sinks += 1
                res.ob("C15.R1", f, call, st in GOOD,
                       expected="the threshold filter is applied to a quality-filtered coverage (its total() must count qualifying reads only)",
                       found=f"receiver `{ast.unparse(call.func.value)}` is {st}", key=f"threshold-receiver:{ast.unparse(call.func.value)}")
            if isinstance(call.func, ast.Attribute) and call.func.attr == "filtered" and call.args \
                    and ts.filter_kind(call.args[0], call) == "?":
                res.err("C15.R1", f"cannot classify filter argument `{ast.unparse(call.args[0])}` in {ref}")
        # (c) every direct read of evidence in a stage driver (`cov[m]`: the support test that removes candidate alleles) reads the
        #     quality- and threshold-filtered coverage
        seen_reads = set()
        for sub in walk_local(f):
            if isinstance(sub, ast.Subscript) and isinstance(sub.value, ast.Name) and isinstance(sub.ctx, ast.Load):
                stmt = sub
                while stmt is not None and not isinstance(stmt, ast.stmt):
                    stmt = getattr(stmt, "_parent", None)
                if stmt is None or stmt is f or isinstance(stmt, (ast.FunctionDef, ast.AnnAssign)) and stmt is f:
                    continue   # annotations of the signature
                if isinstance(getattr(sub, "_parent", None), ast.AnnAssign) and sub._parent.annotation is sub:
                    continue
                st = ts.state(sub.value, stmt)
                if st is None or ast.unparse(sub) in seen_reads:
                    continue
                seen_reads.add(ast.unparse(sub))
                n_sinks += 1
                res.ob("C15.R1", f, stmt, st == TF,
                       expected="the support test that removes an allele reads the quality- and threshold-filtered coverage",
                       found=f"`{ast.unparse(sub.value)}` is {st}",
                       clause="an allele one of whose core variants has no qualifying support is never called",
                       key=f"support-test:{ast.unparse(sub)}")
    res.floor("C15.R1", "typestate sinks", n_sinks, 5)
    # the model builders read evidence only through their coverage parameter
    for ref in ("major::solve_major_model", "minor::solve_minor_model"):
        f = repo.func(ref)
        res.analysed(f)
        leaks = [n for n in ast.walk(f) if isinstance(n, ast.Attribute) and n.attr == "coverage"
                 and isinstance(n.value, ast.Attribute) and n.value.attr == "sam"]
        leaks += [n for n in ast.walk(f) if isinstance(n, ast.Attribute) and n.attr == "_coverage"
                  and not (isinstance(n.value, ast.Name) and n.value.id == "coverage")]
        res.ob("C15.R1", f, leaks[0] if leaks else f, not leaks,
               expected="no read of the sample's raw coverage inside the model builder",
               found="none" if not leaks else ast.unparse(leaks[0]), key="no-raw-leak")


def r2(repo, res):
    f = repo.func("coverage::Coverage.quality_filter")
    res.analysed(f)
    obs = [(60, 40), (60, 9), (9, 40), (10, 10), (0, 0), (9, 9), (40, 10), (10, 40)]
    bad = None
    try:
        for mm, mq in [(10, 10), (0, 0), (20, 30), (61, 0), (0, 41)]:
            me = Obj(_coverage={10: {"A>G": list(obs)}}, profile=Obj(min_quality=mq, min_mapq=mm))
            ev = Evaluator({"self": me, "mut": Obj(pos=10, op="A>G")})
            k, v = ev.run([s for s in f.body if not (isinstance(s, ast.Expr) and isinstance(s.value, ast.Constant))])
            want = [(m, q) for m, q in obs if q >= mq and m >= mm]
            if k != "return" or list(v) != want:
                bad = f"min_mapq={mm}, min_quality={mq}: kept {v if k == 'return' else k}, expected {want}"
                break
        me = Obj(_coverage={}, profile=Obj(min_quality=10, min_mapq=10))
        k, v = Evaluator({"self": me, "mut": Obj(pos=3, op="_")}).run(f.body[1:] if isinstance(f.body[0], ast.Expr) else f.body)
        if k != "return" or list(v) != []:
            bad = bad or f"absent position: {k} {v}"
    except (Unfoldable, Raised) as e:
        res.err("C15.R2", f"quality_filter outside folding language: {e}")
        return
    res.ob("C15.R2", f, f, bad is None,
           expected="keeps exactly the observations (mapq, baseq) with baseq >= min_quality and mapq >= min_mapq",
           found="ok on 5 threshold pairs x 8 observations" if bad is None else bad,
           clause="supported by reads that meet the base- and mapping-quality thresholds", key="quality-predicate")
    # filtered() stores what the filter keeps
    g = repo.func("coverage::Coverage.filtered")
    res.analysed(g)
    Mut = collections.namedtuple("Mutation", ["pos", "op"])
    a, b, c_, d = (60, 40), (60, 5), (5, 40), (30, 30)
    table = {10: {"_": [a, b], "A>G": [c_]}, 11: {"_": [d]}, 12: {"_": [b, c_]}}   # 12: a reference-only site whose reads all fail a threshold
    nonempty = lambda t: {p_: x_ for p_, x_ in t.items() if x_}  # noqa: E731  (a site that lost everything may stay as an empty entry)

    def run_filtered(fn, indels=None):
        me = Obj(_coverage={p: {o: list(v) for o, v in x.items()} for p, x in table.items()}, _indels=indels)
        ev = Evaluator({"self": me, "filter_fn": fn},
                       funcs={"copy.copy": lambda o: Obj(**o.__dict__), "Mutation": Mut})
        k, v = ev.run([s for s in g.body if not (isinstance(s, ast.Expr) and isinstance(s.value, ast.Constant))])
        return k, v, me

    try:
        k, v, me = run_filtered(lambda s, m: [x for x in s._coverage[m.pos][m.op] if x[1] >= 10 and x[0] >= 10])
        ok1 = k == "return" and nonempty(v._coverage) == {10: {"_": [a]}, 11: {"_": [d]}} and me._coverage == table and v is not me
        k, v, me = run_filtered(lambda s, m: m.op == "_")
        ok2 = k == "return" and nonempty(v._coverage) == {10: {"_": [a, b]}, 11: {"_": [d]}, 12: {"_": [b, c_]}} and me._coverage == table
        k, v, me = run_filtered(lambda s, m: False)
        ok2 = ok2 and k == "return" and nonempty(v._coverage) == {}
        k, v, me = run_filtered(lambda s, m: m.op != "insT", indels={(10, "insT"): (3, 4), (12, "delA"): (1, 2)})
        ok3 = k == "return" and v._indels == {(12, "delA"): (1, 2)} and me._indels == {(10, "insT"): (3, 4), (12, "delA"): (1, 2)}
    except (Unfoldable, Raised) as e:
        res.err("C15.R2", f"Coverage.filtered outside folding language: {e}")
        return
    res.ob("C15.R2", g, g, ok1 and ok2 and ok3,
           expected="filtered(): a list result replaces the observations (empty list drops the entry), True keeps, False drops; "
                    "indel entries dropped only on False; the receiver is left untouched",
           found=f"list-filter {'ok' if ok1 else 'WRONG'}, bool-filter {'ok' if ok2 else 'WRONG'}, indel-filter {'ok' if ok3 else 'WRONG'}",
           key="filtered-store")
    # indel realigner gets both thresholds
    h = repo.func("sam::Sample._realign_indels")
    res.analysed(h)
    va = [x for x in calls_in(h) if call_name(x) == "VariantAlignment"]
    ok = bool(va) and ast.unparse(kwarg(va[0], "mapping_quality_threshold") or ast.Constant(0)).endswith("min_mapq") \
        and ast.unparse(kwarg(va[0], "base_quality_threshold") or ast.Constant(0)).endswith("min_quality")
    res.ob("C15.R2", h, va[0] if va else h, ok,
           expected="indel realignment counts reads with mapping_quality_threshold=min_mapq and base_quality_threshold=min_quality",
           found=ast.unparse(va[0])[:160] if va else "no VariantAlignment call", key="indel-thresholds")


def r3(repo, res):
    f = repo.func("coverage::Coverage.basic_filter")
    res.analysed(f)
    bad = None
    try:
        for sup, tot, cn, th, mc, pth in itertools.product(
                [0, 1, 2, 3, 5, 6, 10], [0, 10, 20], [None, 1, 2, 2.5, 20], [None, 0.5, 0.25], [2.0, 5.0], [0.5, 0.8]):
            me = Obj(profile=Obj(threshold=pth, min_coverage=mc), total=lambda m, t=tot: t, coverage=lambda m, s=sup: s)
            ev = Evaluator({"self": me, "mut": "M", "cn": cn, "thres": th})
            k, v = ev.run([s for s in f.body if not (isinstance(s, ast.Expr) and isinstance(s.value, ast.Constant))])
            want = sup >= max(mc, tot * (th or pth) / (cn or 1))
            if k != "return" or bool(v) != want:
                bad = f"support={sup}, total={tot}, cn={cn}, thres={th}, min_coverage={mc}: got {v if k == 'return' else k}, expected {want}"
                break
    except (Unfoldable, Raised) as e:
        res.err("C15.R3", f"basic_filter outside folding language: {e}")
        return
    res.ob("C15.R3", f, f, bad is None,
           expected="support >= max(min_coverage, total * threshold / cn)",
           found="ok on 1260 grid points" if bad is None else bad,
           clause="at least the configured minimum number of reads and the single-copy fraction threshold", key="threshold-formula")
    # stage closures: the enclosing routines are folded whole and the filter each hands to `.filtered(...)` is captured
    from sa.fold import Lifted

    NOVEL = collections.namedtuple("Mutation", ["pos", "op"])(100, "A>G")
    struct = Obj(position_cn=lambda p: 2, solution={"1": 3}, label="S", _solution_nice=lambda: "S", max_cn=lambda: 3)  # 2 copies at the probed position, 3 in total

    def capture_major():
        f_ = repo.func("major::_filter_alleles")
        res.analysed(f_)
        got = []

        class Raw:
            _fold_ok = True
            # the enclosing function's *raw* coverage: its counts include low-quality reads, so its threshold test succeeds
            # whenever asked -- a closure consulting it gives the wrong table
            profile = Obj(debug_probe="", cn_max=20)

            def basic_filter(self, mut, cn=None, thres=None):
                return True

            def filtered(self, fn):
                got.append(fn)
                return self

            def __getitem__(self, m):
                return 1

        Lifted(f_, funcs={"copy.deepcopy": copy.deepcopy, "natsorted": lambda it, key=None: sorted(it, key=key)},
               env={"Coverage": Obj(quality_filter="QUALITY")})(Obj(alleles={}, get_rsid=lambda m: "rs"), Raw(), struct)
        fns = [g for g in got if callable(g)]
        if len(fns) != 1:
            raise AnalysisError(f"_filter_alleles hands {len(fns)} threshold filters to Coverage.filtered (expected one)")
        return f_, fns[0]

    def capture_minor():
        f_ = repo.func("minor::estimate_minor")
        res.analysed(f_)
        got = []

        class Raw:
            _fold_ok = True
            profile = Obj(cn_max=20)
            _coverage = {}

            def basic_filter(self, mut, cn=None, thres=None):
                return True

            def filtered(self, fn):
                if callable(fn):
                    got.append(fn)
                return self

        def partial(fn_, *a):
            return lambda *b: fn_(*a, *b)

        major = Obj(score=0.0, cn_solution=struct, added=[], solution={}, label="M")
        gene = Obj(alleles={}, random_mutations=set(), region_at=lambda p: (0, "e1"))
        Lifted(f_, funcs={"SolvedAllele": lambda *a: a, "functools.partial": partial, "natsorted": lambda it, key=None: sorted(it, key=key),
                          "_print_candidates": lambda *a: None, "solve_minor_model": lambda *a, **k: [], "Mutation": lambda *a: a},
               env={"Coverage": Obj(quality_filter="QUALITY")})(gene, Raw(), [major], "any")
        if len(got) != 1:
            raise AnalysisError(f"estimate_minor hands {len(got)} threshold filters to Coverage.filtered for one structure (expected one)")
        return f_, got[0]

    def capture_minor_two():
        """Two major solutions on different structures; the three-copy one hands over a novel variant. -> {structure label: its filter}"""
        f_ = repo.func("minor::estimate_minor")
        got = {}

        class Raw:
            _fold_ok = True
            profile = Obj(cn_max=20)
            _coverage = {}

            def basic_filter(self, mut, cn=None, thres=None):
                return True

            def filtered(self, fn):
                if callable(fn):
                    # which structure the filter belongs to is read off its behaviour: the copy number it asks the threshold test for
                    asked = []
                    fn(Obj(basic_filter=lambda m_, cn=None, thres=None: asked.append(cn) or True), type(NOVEL)(101, "C>T"))
                    got.setdefault("S" if 2.5 in asked else "S3" if 3.5 in asked else "?", []).append(fn)
                return self

        def partial(fn_, *a):
            return lambda *b: fn_(*a, *b)

        struct3 = Obj(position_cn=lambda p: 3, solution={"1": 3}, label="S3", _solution_nice=lambda: "S3", max_cn=lambda: 3)
        m2 = Obj(score=0.0, cn_solution=struct, added=[], solution={}, label="M2")
        m3 = Obj(score=0.0, cn_solution=struct3, added=[NOVEL], solution={}, label="M3")
        gene = Obj(alleles={}, random_mutations=set(), region_at=lambda p: (0, "e1"))
        Lifted(f_, funcs={"SolvedAllele": lambda *a: a, "functools.partial": partial, "natsorted": lambda it, key=None: sorted(it, key=key),
                          "_print_candidates": lambda *a: None, "solve_minor_model": lambda *a, **k: [], "Mutation": lambda *a: a},
               env={"Coverage": Obj(quality_filter="QUALITY")})(gene, Raw(), [m2, m3], "any")
        if sorted(got) != ["S", "S3"] or any(len(v_) != 1 for v_ in got.values()):
            # two structures with different copy numbers at the probed position, but not one threshold filter each
            raise Raised(f"threshold filters handed to Coverage.filtered ask for the copy numbers of { {k_: len(v_) for k_, v_ in got.items()} } "
                         "-- expected one filter per structure, each asking for its own structure's copy number")
        return f_, [got["S"][0], got["S3"][0]]

    for label, capture in (("major stage", capture_major), ("minor stage", capture_minor)):
        try:
            outer, fn = capture()
        except AnalysisError as e:
            res.err("C15.R3", str(e))
            continue
        except (Unfoldable, Raised) as e:
            res.err("C15.R3", f"{label}: enclosing routine outside folding language: {e}")
            continue
        bad = None
        try:
            for passing in [set(), {20}, {2.5}, {20, 2.5}]:
                for op in ("_", "A>G"):
                    cov = Obj(basic_filter=lambda mut, cn=None, thres=None, _p=passing: cn in _p)
                    v = fn(cov, Obj(pos=100, op=op))
                    want = (20 in passing) and (op == "_" or 2.5 in passing)
                    if bool(v) != want:
                        bad = bad or f"passing copy numbers {sorted(passing)}, op {op}: got {v}, expected {want}"
        except (Unfoldable, Raised) as e:
            res.err("C15.R3", f"{label}: threshold filter outside folding language: {e}")
            continue
        res.ob("C15.R3", outer, outer, bad is None,
               expected="keep iff basic_filter(cn=cn_max) and (reference op or basic_filter(cn=position copy number + 0.5)), asked of the coverage being filtered",
               found="ok" if bad is None else bad, key=f"closure:{label}")
    # a novel variant handed over by the major solution of ANOTHER structure is thresholded like every other variant
    try:
        outer, fns = capture_minor_two()
        bad = None
        for fn, cn_here, label in ((fns[0], 2.5, "two-copy structure"), (fns[1], 3.5, "three-copy structure")):
            for passing in [set(), {20}, {cn_here}, {20, cn_here}, {20, 6.0 - cn_here}]:
                for mut in (NOVEL, type(NOVEL)(101, "C>T")):
                    cov = Obj(basic_filter=lambda m_, cn=None, thres=None, _p=passing: cn in _p)
                    v = fn(cov, mut)
                    want = (20 in passing) and (cn_here in passing)
                    if bool(v) != want:
                        bad = bad or (f"{label}, variant {tuple(mut)}{' (novel, handed over by the three-copy solution)' if mut == NOVEL else ''}, "
                                      f"thresholds passed at copy numbers {sorted(passing)}: kept = {v}, expected {want}")
    except AnalysisError as e:
        res.err("C15.R3", str(e))
        return
    except Unfoldable as e:
        res.err("C15.R3", f"minor stage on two structures: outside folding language: {e}")
        return
    except Raised as e:
        outer, bad = repo.func("minor::estimate_minor"), str(e)
    res.ob("C15.R3", outer, outer, bad is None,
           expected="two major solutions on different structures, one handing over a novel variant: each structure's filter keeps a variant iff it passes that "
                    "structure's own thresholds (cn_max and its own copy number + 0.5), novel or not",
           found="ok" if bad is None else bad, clause="every variant a refined allele is reported to carry ... passes the configured single-copy fraction threshold",
           key="closure:minor stage, two structures")


def run(repo, res):
    r1(repo, res)
    r2(repo, res)
    r3(repo, res)
    res.note("C15: long-read indel counters (_indel_sites for sam_long_reads) and the phase table are not quality-filtered "
             "in the source; outside the property's quantifier (evidence tables)")


MUTANTS = [
    dict(name="R1 per-structure evidence filled piece by piece from the raw coverage", module="minor", expect="C15.R1",
         old="    covs = {\n        c: quality_cov.filtered(functools.partial(default_filter_fn, c))\n        for c in cn_sols\n    }\n", new="    covs = {}\n    for c in cn_sols:\n        covs[c] = coverage.filtered(functools.partial(default_filter_fn, c))\n"),
    dict(name="benign: per-structure evidence filled piece by piece (whole-function rewrite RQ_4 shape)", module="minor", kind="benign",
         old="    covs = {\n        c: quality_cov.filtered(functools.partial(default_filter_fn, c))\n        for c in cn_sols\n    }\n", new="    covs = {}\n    for c in cn_sols:\n        covs[c] = quality_cov.filtered(functools.partial(default_filter_fn, c))\n"),
    dict(name="R3 novel variants of any major solution bypass the minor-stage thresholds (seeded C15_c3 shape)", module="minor", expect="C15.R3",
         edits=[("    mutations: Set[Mutation] = set()\n", "    mutations: Set[Mutation] = set()\n    vetted_: Set[Mutation] = set()\n"),
                ("        mutations |= set(major_sol.added)\n", "        mutations |= set(major_sol.added)\n        vetted_ |= set(major_sol.added)\n"),
                ("    def default_filter_fn(cn_sol, cov, mut):\n", "    def default_filter_fn(cn_sol, cov, mut):\n        if mut in vetted_:\n            return True\n")]),
    dict(name="R1 major: filters swapped", module="major", expect="C15.R1",
         old="    cov = coverage.filtered(Coverage.quality_filter)\n    cov = cov.filtered(filter_fns)",
         new="    cov = coverage.filtered(filter_fns)\n    cov = cov.filtered(Coverage.quality_filter)"),
    dict(name="R1 major: quality filter dropped", module="major", expect="C15.R1",
         old="    cov = coverage.filtered(Coverage.quality_filter)\n    cov = cov.filtered(filter_fns)",
         new="    cov = coverage.filtered(filter_fns)"),
    dict(name="R1 major: raw coverage to the model", module="major", expect="C15.R1",
         old="    alleles, coverage = _filter_alleles(gene, coverage, cn_solution)",
         new="    alleles, _cov = _filter_alleles(gene, coverage, cn_solution)"),
    dict(name="R1 major: support test on raw coverage", module="major", expect="C15.R1",
         old="        elif any(cov[m] <= 0 for m in a.func_muts):", new="        elif any(coverage[m] <= 0 for m in a.func_muts):"),
    dict(name="R1 minor: quality filter dropped", module="minor", expect="C15.R1",
         old="    quality_cov = coverage.filtered(Coverage.quality_filter)", new="    quality_cov = coverage"),
    dict(name="R1 minor: raw coverage to the model", module="minor", expect="C15.R1",
         old="                gene,\n                cov,\n                major_sol,", new="                gene,\n                coverage,\n                major_sol,"),
    dict(name="R2 > instead of >=", module="coverage", expect="C15.R2",
         old="            if q >= self.profile.min_quality", new="            if q > self.profile.min_quality"),
    dict(name="R2 swapped tuple fields", module="coverage", expect="C15.R2",
         old="            for m, q in quals", new="            for q, m in quals"),
    dict(name="R2 mapq test dropped", module="coverage", expect="C15.R2",
         old="            if m >= self.profile.min_mapq\n", new=""),
    dict(name="R2 filtered() keeps unfiltered list", module="coverage", expect="C15.R2",
         old="                    new_cov._coverage[pos][o] = f\n", new="                    new_cov._coverage[pos][o] = pos_mut[o]\n"),
    dict(name="R2 realigner ignores base quality", module="sam", expect="C15.R2",
         old="base_quality_threshold=self.profile.min_quality,", new="base_quality_threshold=0,"),
    dict(name="R3 threshold not divided by cn", module="coverage", expect="C15.R3",
         old="thres = (thres or self.profile.threshold) / (cn or 1)", new="thres = (thres or self.profile.threshold)"),
    dict(name="R3 min_coverage ignored", module="coverage", expect="C15.R3",
         old="min_cov = max(self.profile.min_coverage, self.total(mut) * thres)", new="min_cov = self.total(mut) * thres"),
    dict(name="R3 strict >", module="coverage", expect="C15.R3", old="        return sz >= min_cov", new="        return sz > min_cov"),
    dict(name="R3 major closure: or instead of and", module="major", expect="C15.R3",
         old="            cond = cond and cov.basic_filter(\n                mut, cn=cn_solution.position_cn(mut.pos) + 0.5",
         new="            cond = cond or cov.basic_filter(\n                mut, cn=cn_solution.position_cn(mut.pos) + 0.5"),
    dict(name="R3 major closure consults the raw coverage", module="major", expect="C15.R3",
         old="            cond = cond and cov.basic_filter(\n                mut, cn=cn_solution.position_cn(mut.pos) + 0.5",
         new="            cond = cond and coverage.basic_filter(\n                mut, cn=cn_solution.position_cn(mut.pos) + 0.5"),
    # benign
    dict(name="benign: chained filtered", module="major", kind="benign",
         old="    cov = coverage.filtered(Coverage.quality_filter)\n    cov = cov.filtered(filter_fns)",
         new="    cov = coverage.filtered(Coverage.quality_filter).filtered(filter_fns)"),
    dict(name="benign: renamed intermediate", module="major", kind="benign",
         old="    cov = coverage.filtered(Coverage.quality_filter)\n    cov = cov.filtered(filter_fns)",
         new="    qcov = coverage.filtered(Coverage.quality_filter)\n    cov = qcov.filtered(filter_fns)"),
    dict(name="benign: one combined condition", module="coverage", kind="benign",
         old="            if q >= self.profile.min_quality\n            if m >= self.profile.min_mapq",
         new="            if q >= self.profile.min_quality and m >= self.profile.min_mapq"),
]
