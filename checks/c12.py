"""
C12 -- result files state exactly the reported solutions.

Decided: (R1) every site that computes "the variants an allele copy is reported to carry" denotes
definition + additions - losses (complete truth table of the set algebra over the four sources);
(R2) cells indexed by solution are distinct objects (no replicated mutable); (R3) VCF POS is the
0-based position + 1 and REF/ALT are spelled from the operation's allele parts and the reference in
every kind branch (folded on one representative operation per kind); (R4) table writer and the
GT/MA/MI readers use the same (solution, copy) index pair; output dispatch by suffix.
Not decided: that parsing the files back recovers the solutions; read-support numbers.
"""

import ast
import itertools

from sa.cfg import cfg_of
from sa.fold import Evaluator, Obj, Raised, Rec, Unfoldable
from sa.guards import decide_with, find_calls
from sa.loader import AnalysisError, call_name, calls_in, kwarg, walk_local

PROPERTY = "C12"
EXPLANATION = (
    "Both writers folded whole by the analysis' interpreter with a recording print: write_decomposition on sample solutions "
    "(one row per carried variant incl. two variants of one copy at one site, empty row for a copy without variants, gained "
    "and lost variants, repeated minor alleles) and write_vcf on scenarios of one and two solutions (different / identical "
    "copies, three copies, a fusion-derived copy, copies that gained a silent or a core variant, a copy that lost a "
    "variant): records, GT / MA / MI per copy, POS / REF / ALT per variant kind, header columns, `#Solution n` numbering. "
    "The carried-variant expression of every writer / accessor site is additionally folded over a 15-element universe of "
    "membership patterns (core, minor-only, added, lost). Replicated-mutable rule `[ctor()] * n`. The output dispatch "
    "(suffix -> writer, order of solutions) is decided by folding genotype() whole on scenarios of stage results."
)
ASSUMPTIONS = ["display-only sites (MinorSolution.get_mutation_coverages, debug printers) are listed but exempt from R1"]

ATOMS = {"func_muts": 0, "neutral_muts": 1, "added": 2, "missing": 3}
UNIVERSE = [bits for bits in itertools.product((0, 1), repeat=4) if any(bits)]
SPEC = frozenset(b for b in UNIVERSE if (b[0] or b[1] or b[2]) and not b[3])


def atom_env(node):
    """Bind every attribute chain ending in one of the four sources to its concrete set."""
    env = {}
    for n in ast.walk(node):
        if isinstance(n, ast.Attribute) and n.attr in ATOMS:
            i = ATOMS[n.attr]
            s = {b for b in UNIVERSE if b[i]}
            env[ast.unparse(n)] = s if n.attr in ("func_muts", "neutral_muts") else sorted(s)
    return env


def describe(s):
    names = ["core", "minor", "added", "lost"]
    s = frozenset(s)
    if s == SPEC:
        return "core|minor|added - lost"
    for expr, fn in [("core|minor|added", lambda b: b[0] or b[1] or b[2]),
                     ("core|minor - lost", lambda b: (b[0] or b[1]) and not b[3]),
                     ("core|minor", lambda b: b[0] or b[1]),
                     ("core|added - lost", lambda b: (b[0] or b[2]) and not b[3]),
                     ("(core|minor - lost)|added", lambda b: ((b[0] or b[1]) and not b[3]) or b[2]),
                     ("core", lambda b: b[0])]:
        if s == frozenset(b for b in UNIVERSE if fn(b)):
            return expr
    extra = sorted(s - SPEC)
    miss = sorted(SPEC - s)
    f = lambda b: "+".join(n for n, x in zip(names, b) if x)  # noqa
    return f"differs: extra {[f(b) for b in extra][:4]} missing {[f(b) for b in miss][:4]}"


def block_sets(func):
    """(name, defining statements, first consumer) for each local set built from the four sources in one block."""
    out = []
    for n in ast.walk(func):
        body_lists = [getattr(n, a) for a in ("body", "orelse", "finalbody") if isinstance(getattr(n, a, None), list)]
        for body in body_lists:
            i = 0
            while i < len(body):
                st = body[i]
                if isinstance(st, ast.Assign) and len(st.targets) == 1 and isinstance(st.targets[0], ast.Name) \
                        and any(isinstance(x, ast.Attribute) and x.attr in ("func_muts", "neutral_muts")
                                for x in ast.walk(st.value)) \
                        and not isinstance(st.value, (ast.DictComp, ast.ListComp, ast.GeneratorExp, ast.SetComp)):
                    name = st.targets[0].id
                    stmts = [st]
                    j = i + 1
                    while j < len(body):
                        s2 = body[j]
                        if isinstance(s2, ast.AugAssign) and isinstance(s2.target, ast.Name) and s2.target.id == name:
                            stmts.append(s2)
                        elif isinstance(s2, ast.If) and all(
                                isinstance(x, ast.AugAssign) and isinstance(x.target, ast.Name) and x.target.id == name
                                for x in s2.body) and not s2.orelse:
                            stmts.append(s2)
                        elif isinstance(s2, ast.Assign) and isinstance(s2.targets[0], ast.Name) and s2.targets[0].id == name:
                            stmts.append(s2)
                        else:
                            break
                        j += 1
                    out.append((name, stmts, body[j] if j < len(body) else None))
                    i = j
                else:
                    i += 1
    return out


def fold_block(name, stmts, extra_env=None):
    env = {}
    for s in stmts:
        env.update(atom_env(s))
    env.update(extra_env or {})
    ev = Evaluator(env)
    kind, val = ev.run(stmts)
    if kind != "fall":
        raise Unfoldable(f"block ends with {kind}")
    return frozenset(ev.locals[name])


WRITER_SITES = [
    ("solutions::SolvedAllele.mutations", "return"),   # the two file writers are decided by folding them whole (R5, R6 and the lost-variant scenario)
]


def r1(repo, res):
    n_sites = 0
    for ref, role in WRITER_SITES:
        f = repo.func(ref)
        res.analysed(f)
        if role == "return":
            F = {b for b in UNIVERSE if b[0]}
            N = {b for b in UNIVERSE if b[1]}
            me = Obj(gene=Obj(alleles={"M": Obj(func_muts=set(F), minors={"m": Obj(neutral_muts=set(N))})}), major="M", minor="m",
                     added=sorted(b for b in UNIVERSE if b[2]), missing=sorted(b for b in UNIVERSE if b[3]))
            try:
                kind, val = Evaluator({"self": me}).run([s for s in f.body if not (isinstance(s, ast.Expr) and isinstance(s.value, ast.Constant))])
            except Unfoldable as e:
                res.err("C12.R1", f"{ref} is outside the folding language: {e}")
                continue
            got = frozenset(val) if kind == "return" and val is not None else frozenset()
            untouched = me.gene.alleles["M"].func_muts == F and me.gene.alleles["M"].minors["m"].neutral_muts == N
            n_sites += 1
            res.ob("C12.R1", f, f, got == SPEC and untouched, expected="core|minor|added - lost (catalogue sets left untouched)",
                   found=describe(got) + ("" if untouched else "; the allele definition was modified"),
                   clause="exactly the variants that copy is reported to carry (definition plus additions minus losses)",
                   key="carried-set:return")
            continue
        sets = block_sets(f)
        if not sets:
            res.note(f"C12.R1: the carried-variant set of {ref} is not built as one block of set operations any more; "
                     "its rows are decided by the folded writer (R5/R6) only")
            continue
        for name, stmts, consumer in sets:
            try:
                got = fold_block(name, stmts)
            except (Unfoldable, Raised) as e:
                res.err("C12.R1", f"carried-set block `{name}` in {ref} is outside the folding language: {e}")
                continue
            n_sites += 1
            res.ob("C12.R1", f, stmts[0], got == SPEC, expected="core|minor|added - lost", found=describe(got),
                   clause="exactly the variants that copy is reported to carry (definition plus additions minus losses)",
                   key=f"carried-set:{name}")
    # keys of the VCF genotype table must cover the carried set
    f = repo.func("diplotype::write_vcf")
    for n in walk_local(f):
        if isinstance(n, ast.DictComp):
            for g in n.generators:
                if any(isinstance(x, ast.Attribute) and x.attr == "func_muts" for x in ast.walk(g.iter)):
                    try:
                        got = frozenset(Evaluator(atom_env(g.iter)).ev(g.iter))
                    except (Unfoldable, Raised) as e:
                        res.err("C12.R1", f"VCF table key expression is outside the folding language: {e}")
                        continue
                    n_sites += 1
                    res.ob("C12.R1", f, g.iter, got >= SPEC, expected="a superset of core|minor|added - lost",
                           found=describe(got), clause="every carried variant has a VCF record", key="vcf-table-keys")
    res.floor("C12.R1", "carried-set sites", n_sites, 1)
    # exempt display-only site: listed
    g = repo.func("solutions::MinorSolution.get_mutation_coverages")
    res.analysed(g)
    res.note("C12.R1: MinorSolution.get_mutation_coverages is a display-only sibling (warning text) and is exempt")


MUTABLE_CTORS = {"dict", "list", "set", "defaultdict", "Counter", "OrderedDict", "collections.defaultdict",
                 "collections.Counter", "collections.OrderedDict", "bytearray"}


def replicated_mutables(tree):
    for n in ast.walk(tree):
        if isinstance(n, ast.BinOp) and isinstance(n.op, ast.Mult):
            for lst in (n.left, n.right):
                if isinstance(lst, ast.List) and lst.elts:
                    for e in lst.elts:
                        if isinstance(e, (ast.Dict, ast.List, ast.Set, ast.ListComp, ast.DictComp, ast.SetComp)) or \
                                (isinstance(e, ast.Call) and call_name(e) in MUTABLE_CTORS):
                            yield n, e


def r2(repo, res):
    # built-in positive example: the rule must recognise the pattern on every run
    pos = ast.parse("cells = [collections.defaultdict(int)] * n\nok = [0] * n\nfine = [dict() for _ in range(n)]")
    if len(list(replicated_mutables(pos))) != 1:
        res.err("C12.R2", "positive example not recognised")
    hits = 0
    for mname in ("diplotype", "genotype", "solutions", "minor", "major", "cn", "coverage", "sam", "profile", "gene"):
        m = repo.mod(mname)
        for n, e in replicated_mutables(m.tree):
            hits += 1
            res.ob("C12.R2", n, n, False,
                   expected="one distinct mutable object per solution (e.g. a comprehension), not `[obj] * n`",
                   found=f"{ast.unparse(n)} replicates one {ast.unparse(e)} object n times",
                   clause="every sample column describes one solution",
                   key=ast.unparse(n))
    res.ob("C12.R2", "diplotype::write_vcf", "scan for replicated mutable cells", True,
           expected="scan completed", found=f"{hits} replicated mutable list(s) in the package", key="scan")


KIND_OPS = [
    ("substitution", "A>G", lambda ref, alt, R: ref == "A" and alt == "G"),
    ("insertion", "insTT", lambda ref, alt, R: _dna(ref) and alt.startswith(ref) and alt[len(ref):] == "TT"),
    ("deletion", "delAC", lambda ref, alt, R: _dna(alt) and ref.startswith(alt) and ref[len(alt):] == "AC"),
    ("multi-substitution", "AC>TG", lambda ref, alt, R: ref == "AC" and alt == "TG"),
]


def _dna(s):
    return isinstance(s, str) and len(s) >= 1 and set(s) <= set("ACGTN")


def r3(repo, res):
    """POS / REF / ALT of a record, per variant kind: write_vcf folded whole on a one-copy solution whose allele carries one variant of that kind
    (the reference base is `C` wherever the gene is asked)."""
    import collections as _c

    f = repo.func("diplotype::write_vcf")
    res.analysed(f)
    Mut = _c.namedtuple("Mutation", ["pos", "op"])

    class GeneRef:
        _fold_ok = True
        name, chr = "G", "22"

        def __init__(self, alleles):
            self.alleles = alleles
            self.mutations = {}

        def __getitem__(self, i):
            return "C" * max(0, i.stop - i.start) if isinstance(i, slice) else "C"

        def get_functional(self, m, infer=True):
            return None

        def is_functional(self, m, infer=True):
            return False

        def get_rsid(self, m, default=True):
            return "-"

        def deletion_allele(self):
            return "5"

    class Cov:
        _fold_ok = True
        sam = Obj(name="S", _prefix="", path="in.bam", kind="sam")

        def __getitem__(self, m):
            return 7

        def coverage(self, m):
            return 7

        def total(self, m):
            return 14

        def percentage(self, m):
            return 50.0

    pos_ok, pos_found = True, []
    for kind, op, good in KIND_OPS:
        v = Mut(1000, op)
        gene = GeneRef({"1": Obj(func_muts=set(), minors={"1.001": Obj(neutral_muts={v})})})
        minors = [minor_solution(repo, solution=[Rec(major="1", minor="1.001", added=[], missing=[])], get_major_diplotype=lambda: "*1",
                                 major_solution=Obj(cn_solution=Obj(gene=gene)), profile=Obj(display_format=False))]
        out = []
        try:
            k, val = Evaluator({"sample": "S", "gene": gene, "minors": minors, "f": "FILE", "version": "0", "coverage": Cov()},
                               funcs={"print": lambda *a, sep=" ", end="\n", file=None: out.append(sep.join(str(x) for x in a)), "td": lambda t: t,
                                      "collections.defaultdict": _c.defaultdict}).run(
                [s_ for s_ in f.body if not (isinstance(s_, ast.Expr) and isinstance(s_.value, ast.Constant))])
        except Unfoldable as e:
            res.err("C12.R3", f"write_vcf outside the folding language: {e}")
            return
        except Raised as e:
            k, val = "raise", e.kind
        recs = [r.split("\t") for r in out[1:] if len(r.split("\t")) >= 5]
        if k == "raise" or len(recs) != 1:
            ok, found = False, (f"raises {val}" if k == "raise" else f"{len(recs)} record(s) written for one carried variant")
            ref = alt = pos = None
        else:
            pos, ref, alt = recs[0][1], recs[0][3], recs[0][4]
            try:
                ok = bool(good(ref, alt, "C"))
            except Exception:  # noqa: BLE001
                ok = False
            found = f"op {op!r} -> POS={pos} REF={ref!r} ALT={alt!r}"
        if kind in ("substitution", "insertion"):   # the variant sits at / right after its own position: POS = 0-based position + 1
            pos_found.append(f"{kind}: POS {pos}")
            pos_ok = pos_ok and pos == "1001"
        res.ob("C12.R3", f, f, ok,
               expected={"substitution": "REF/ALT = the two alleles of the operation",
                         "insertion": "REF = reference base(s), ALT = REF + inserted sequence",
                         "deletion": "REF = anchor + deleted sequence, ALT = anchor",
                         "multi-substitution": "REF/ALT = the two allele strings"}[kind],
               found=found, clause="REF/ALT spell the variant against the reference", key=f"REF/ALT:{kind}")
    res.ob("C12.R3", f, f, pos_ok, expected="POS = <0-based variant position> + 1 (variant at 0-based 1000 -> POS 1001)",
           found="; ".join(pos_found), clause="positions are one-based", key="vcf-pos")


def r4(repo, res):
    """Output dispatch of genotype(), folded whole: which writer runs for which output file, with which solutions."""
    from checks._genotype import GenotypeModel, Scenario, events

    g = repo.func("genotype::genotype")
    res.analysed(g)
    gm = GenotypeModel(repo)
    # two refinements of one major candidate share the major diplotype; both are reported solutions
    desc = dict(cn=[("A", 0.0)], majors={"A": [("A1", 0.0), ("A2", 0.0)]}, minors={"A1": [("A1a", 0.0), ("A1b", 0.05)], "A2": [("A2a", 0.0)]})
    cases = {"decomposition file": (Obj(name="out.aldy"), {}), "VCF file": (Obj(name="out.vcf"), {}), "simple file": (Obj(name="out.simple"), {}),
             "standard output": (Obj(name="<stdout>"), {}), "standard output, simple": (Obj(name="<stdout>"), {"is_simple": True}), "no output": (None, {})}
    for label, (out, extra) in cases.items():
        try:
            k, v, trace, printed = gm.run(Scenario(args=dict(output_file=out, **extra), params=dict(gap=0.1), **desc))
        except Unfoldable as e:
            res.err("C12.R4", f"genotype() outside the folding language: {e}")
            return
        wd, wv = events(trace, "write_decomposition"), events(trace, "write_vcf")
        text = "".join(t for t, fl in printed if out is not None and fl is out)
        stray = [t for t, fl in printed if fl is not out or out is None]
        reported = [m.solution for m in list(v.values())[0]] if k == "return" and isinstance(v, dict) and v else None
        if reported != ["A1a", "A2a", "A1b"]:
            res.ob("C12.R4", g, g, False, expected=f"{label}: three solutions reported", found=f"{k} {str(v)[:60]}", key=f"dispatch:{label}")
            continue
        if label in ("decomposition file", "standard output"):
            ok = not wv and [(w[4], w[5].solution, w[6]) for w in wd] == [(1, "A1a", out), (2, "A2a", out), (3, "A1b", out)] and text.startswith("#c1\tc2\n") \
                and [ln.split(":")[0] for ln in text.splitlines() if ln.startswith("#Solution")] == ["#Solution 1", "#Solution 2", "#Solution 3"] \
                and [w[1] for w in wd] == ["SAMPLE"] * 3
            exp = "column header once, then `#Solution i` and the decomposition of every reported solution, numbered from 1, into that file; no VCF"
        elif label == "VCF file":
            ok = not wd and len(wv) == 1 and [m.solution for m in wv[0][4]] == reported and wv[0][5] is out and wv[0][1] == "SAMPLE" and not text
            exp = "write_vcf once with the whole reported list and that file; no decomposition rows, no header"
        elif label in ("simple file", "standard output, simple"):
            ok = not wd and not wv and text == "SAMPLE\tG\tM[A1]\tL[A1a]\tM[A2]\tL[A2a]\tM[A1]\tL[A1b]\t\n"
            exp = "one line: sample, gene, then major and legacy minor diplotype of every reported solution, closed by a newline"
        else:
            ok = not wd and not wv and not printed
            exp = "nothing is written"
        res.ob("C12.R4", g, g, ok and not (stray and out is not None), expected=f"{label}: {exp}",
               found="ok" if ok else f"decomposition calls {[(w[4], w[5].solution) for w in wd]}, vcf calls {len(wv)}, text {text[:80]!r}",
               clause="the output file describes, per allele copy, exactly the variants that copy is reported to carry (every reported solution, once, in its format)",
               key=f"dispatch:{label}")


def minor_solution(repo, **attrs):
    """A MinorSolution for the writers: the attributes the rule supplies, real methods of solutions.MinorSolution for anything else."""
    from sa.fold import ClassModel

    cache = repo.__dict__.setdefault("_c12_ms_model", None)
    if cache is None:
        def natkey(x):
            import re as _re
            return [int(t) if t.isdigit() else t for t in _re.split(r"(\d+)", str(x))]
        cache = ClassModel(repo.cls("solutions::MinorSolution"), {"natsorted": lambda it, key=None: sorted(it, key=(lambda v: natkey(key(v))) if key else natkey)})
        repo.__dict__["_c12_ms_model"] = cache
    return cache.instance(**attrs)


def r5(repo, res):
    """Decomposition rows: lifted writer folded on a sample solution with a recording print."""
    import collections as _c

    f = repo.func("diplotype::write_decomposition")
    Mut = _c.namedtuple("Mutation", ["pos", "op"])
    F1, S1, S2, AD = Mut(250, "C>T"), Mut(150, "T>A"), Mut(350, "G>A"), Mut(150, "insA")   # an insertion at the site of a substitution the same copy carries
    minor = lambda muts: Obj(neutral_muts=set(muts))  # noqa
    gene = Obj(name="G", alleles={"1": Obj(func_muts=set(), minors={"1.001": minor([]), "1.002": minor([S1])}),
                                  "3": Obj(func_muts={F1}, minors={"3.001": minor([S2])})},
               get_functional=lambda m, infer=True: {F1: "P34S"}.get(Mut(*m)),
               get_rsid=lambda m, default=True: {F1: "rs1", S1: "rs2"}.get(Mut(*m), "-"))
    sol = [Obj(major="1", minor="1.001", added=[], missing=[]), Obj(major="1", minor="1.002", added=[AD], missing=[]),
           Obj(major="3", minor="3.001", added=[], missing=[S2])]
    msol = minor_solution(repo, solution=sol, get_major_diplotype=lambda: "*1 / *1 + *3")
    # a second solution that repeats one minor allele: the first copy gained and lost variants, the second did not
    rep = minor_solution(repo, solution=[Obj(major="1", minor="1.002", added=[AD], missing=[S1]), Obj(major="1", minor="1.002", added=[], missing=[]),
                        Obj(major="3", minor="3.001", added=[], missing=[])], get_major_diplotype=lambda: "*1 + *1 / *3")
    support = {F1: 11, S1: 12, S2: 0, AD: 4}
    rows = []

    def pr(*a, sep=" ", end="\n", file=None):
        rows.append(sep.join(str(x) for x in a))

    class Cov:
        _fold_ok = True
        sam = Obj(name="S", _prefix="", path="in.bam", kind="sam")   # the sample the evidence came from (contigs without prefix)

        def __getitem__(self, m):
            return support.get(Mut(*m), 0)

        def coverage(self, m):
            return support.get(Mut(*m), 0)

    params = [a_.arg for a_ in f.args.args]
    known = {"sample": "S", "gene": gene, "sol_id": 7, "minor": msol, "f": "FILE", "coverage": Cov()}
    if [a_ for a_ in params if a_ not in known]:
        res.err("C12.R5", f"write_decomposition has parameters the analysis does not know: {[a_ for a_ in params if a_ not in known]}")
        return
    try:
        k, v = Evaluator(dict(known), funcs={"print": pr}).run(
            [s_ for s_ in f.body if not (isinstance(s_, ast.Expr) and isinstance(s_.value, ast.Constant))])
    except (Unfoldable, Raised) as e:
        res.err("C12.R5", f"write_decomposition outside the folding language: {e}")
        return
    cells = [r.split("\t") for r in rows]
    by_copy = {}
    for c in cells:
        if len(c) >= 12:
            by_copy.setdefault(c[5], []).append(c)
    want = {"0": [("", "", "", "")], "1": [("150", "T>A", "12", "rs2"), ("150", "insA", "4", "-")], "2": [("250", "C>T", "11", "rs1")]}
    got = {k_: [(c[7], c[8], c[9], c[11]) for c in v_] for k_, v_ in by_copy.items()}
    ok = got == want and all(c[0] == "S" and c[1] == "G" and c[2] == "7" and c[3] == "*1/*1+*3" and c[4] == "1.001;1.002;3.001" for c in cells) \
        and [c[6] for c in cells] == ["1.001", "1.002", "1.002", "3.001"] \
        and [c[10] for c in cells if c[5] == "2"] == ["P34S"] and all(c[10] == "none" for c in cells if c[5] == "1")
    res.ob("C12.R5", f, f, k != "raise" and ok,
           expected="per copy: one row per carried variant with its 0-based position, change, read support, effect ('none' if silent) and dbSNP id, "
                    "under the solution's diplotype and minor list; a copy without variants gets one empty row",
           found=str(got) if not ok else f"{len(cells)} rows agree",
           clause="each with its position, change, read support, effect and dbSNP id ...; copies without variants get one empty row",
           key="decomposition-rows")
    rows.clear()
    try:
        k, v = Evaluator(dict(known, sol_id=8, minor=rep), funcs={"print": pr}).run(
            [s_ for s_ in f.body if not (isinstance(s_, ast.Expr) and isinstance(s_.value, ast.Constant))])
    except (Unfoldable, Raised) as e:
        res.err("C12.R5", f"write_decomposition outside the folding language: {e}")
        return
    got2 = {}
    for c in [r.split("\t") for r in rows]:
        got2.setdefault(c[5], []).append((c[7], c[8]))
    want2 = {"0": [("150", "insA")], "1": [("150", "T>A")], "2": [("250", "C>T"), ("350", "G>A")]}
    res.ob("C12.R5", f, f, k != "raise" and got2 == want2 and set(gene.alleles["1"].minors["1.002"].neutral_muts) == {S1},
           expected="copies of the same minor allele are written independently: gains and losses of one copy do not show on the next",
           found=str(got2), clause="per allele copy, exactly the variants that copy is reported to carry", key="decomposition-repeated-minor")
    # edge copies: every variant of the definition lost (one empty row, the copy does not vanish); a variant both gained and lost (not carried)
    rows.clear()
    edge = minor_solution(repo, solution=[Obj(major="1", minor="1.002", added=[], missing=[S1]), Obj(major="3", minor="3.001", added=[AD], missing=[AD, S2])],
               get_major_diplotype=lambda: "*1 / *3")
    try:
        k, v = Evaluator(dict(known, sol_id=9, minor=edge), funcs={"print": pr}).run(
            [s_ for s_ in f.body if not (isinstance(s_, ast.Expr) and isinstance(s_.value, ast.Constant))])
    except (Unfoldable, Raised) as e:
        res.err("C12.R5", f"write_decomposition outside the folding language: {e}")
        return
    got3 = {}
    for c in [r.split("\t") for r in rows]:
        got3.setdefault(c[5], []).append((c[7], c[8]))
    want3 = {"0": [("", "")], "1": [("250", "C>T")]}
    res.ob("C12.R5", f, f, k != "raise" and got3 == want3,
           expected="a copy that lost every variant of its definition keeps one empty row; a variant both gained and lost is not carried (definition plus additions minus losses)",
           found=str(got3), clause="copies without variants get one empty row", key="decomposition-edge-copies")


def r6(repo, res):
    """VCF records of one solution made of substitutions only (where the three known defects cannot show): folded writer."""
    import collections as _c

    f = repo.func("diplotype::write_vcf")
    Mut = _c.namedtuple("Mutation", ["pos", "op"])
    F1, S1, S2 = Mut(250, "C>T"), Mut(150, "T>A"), Mut(350, "G>A")
    minor = lambda muts: Obj(neutral_muts=set(muts))  # noqa
    gene = Obj(name="G", chr="22", alleles={"1": Obj(func_muts=set(), minors={"1.002": minor([S1])}),
                                            "3": Obj(func_muts={F1}, minors={"3.001": minor([S2])}),
                                            "13#3": Obj(func_muts={F1}, minors={"13#3.001": minor([S2])})},
               get_functional=lambda m, infer=True: {F1: "P34S"}.get(Mut(*m)), is_functional=lambda m, infer=True: Mut(*m) == F1,
               deletion_allele=lambda: "5", mutations={F1: ("P34S", "rs1"), S1: (None, "rs2"), S2: (None, "-")},
               get_rsid=lambda m, default=True: {F1: "rs1", S1: "rs2"}.get(Mut(*m), f"{m[0] + 1}.{m[1]}" if default else "-"))
    shown = dict(major_solution=Obj(cn_solution=Obj(gene=gene)), profile=Obj(display_format=False))   # what the display helpers of a solution consult
    support = {F1: 11, S1: 12, S2: 0}  # S2 is carried although no read covers its position: it is reported all the same

    class Cov:
        _fold_ok = True
        sam = Obj(name="S", _prefix="", path="in.bam", kind="sam")   # the sample the evidence came from (contigs without prefix)

        def __getitem__(self, m):
            return support.get(Mut(*m), 0)

        def coverage(self, m):
            return support.get(Mut(*m), 0)

        def total(self, m):
            pos = m if isinstance(m, int) else m[0]
            return sum(v for k_, v in support.items() if k_.pos == pos)

        def percentage(self, m):
            t = self.total(m)
            return 100.0 * self[m] / t if t else 0

    A1 = lambda: Rec(major="1", minor="1.002", added=[], missing=[])  # noqa  (value equality, like the dataclass of /repo)
    A3 = lambda: Rec(major="3", minor="3.001", added=[], missing=[])  # noqa
    scenarios = [
        ("two different copies", [A1(), A3()],
         [["22", "151", "rs2", "T", "A", "1|0", "12", "*1,-", "*1.002,-"],
          ["22", "251", "rs1", "C", "T", "0|1", "11", "-,*3", "-,*3.001"],
          ["22", "351", "-", "G", "A", "0|1", "0", "-,*3", "-,*3.001"]]),
        ("two identical copies", [A3(), A3()],
         [["22", "251", "rs1", "C", "T", "1|1", "11", "*3,*3", "*3.001,*3.001"],
          ["22", "351", "-", "G", "A", "1|1", "0", "*3,*3", "*3.001,*3.001"]]),
        ("three copies, first and last identical", [A3(), A1(), A3()],
         [["22", "151", "rs2", "T", "A", "0|1|0", "12", "-,*1,-", "-,*1.002,-"],
          ["22", "251", "rs1", "C", "T", "1|0|1", "11", "*3,-,*3", "*3.001,-,*3.001"],
          ["22", "351", "-", "G", "A", "1|0|1", "0", "*3,-,*3", "*3.001,-,*3.001"]]),
    ]
    def independent_cells(node, ev):
        """Known finding C12.R2 (one cell object shared by all solutions) is set aside here so that the rest of the
        multi-solution logic can still be decided: `[cell] * n` is read as n independent cells."""
        if isinstance(node, ast.BinOp) and isinstance(node.op, ast.Mult) and isinstance(node.left, ast.List) and len(node.left.elts) == 1 \
                and isinstance(node.left.elts[0], ast.Call) and call_name(node.left.elts[0]).endswith("defaultdict"):
            return [ev.ev(node.left.elts[0]) for _ in range(ev.ev(node.right))]
        return NotImplemented

    params = [a.arg for a in f.args.args]
    # two solutions in one file: every column describes its own solution
    outm = []
    two = [minor_solution(repo, solution=[A1(), A3()], get_major_diplotype=lambda: "*1 / *3", **shown),
           minor_solution(repo, solution=[A3(), A3(), A1()], get_major_diplotype=lambda: "*3 / *3 + *1", **shown)]
    try:
        k, v = Evaluator({"sample": "S", "gene": gene, "minors": two, "f": "FILE", "version": "0", "coverage": Cov()},
                         funcs={"print": lambda *a, sep=" ", end="\n", file=None: outm.append(sep.join(str(x) for x in a)), "td": lambda t: t,
                                "collections.defaultdict": _c.defaultdict}, hook=independent_cells).run(
            [s_ for s_ in f.body if not (isinstance(s_, ast.Expr) and isinstance(s_.value, ast.Constant))])
    except (Unfoldable, Raised) as e:
        res.err("C12.R6", f"write_vcf outside the folding language: {e}")
        return
    cols = []
    for r in [x.split("\t") for x in outm[1:]]:
        if len(r) >= 11:
            fmt = r[8].split(":")
            cols.append([r[1]] + [tuple(dict(zip(fmt, c_.split(":"))).get(q) for q in ("GT", "MA", "MI")) for c_ in r[9:11]])
    wantm = [["151", ("1|0", "*1,-", "*1.002,-"), ("0|0|1", "-,-,*1", "-,-,*1.002")],
             ["251", ("0|1", "-,*3", "-,*3.001"), ("1|1|0", "*3,*3,-", "*3.001,*3.001,-")],
             ["351", ("0|1", "-,*3", "-,*3.001"), ("1|1|0", "*3,*3,-", "*3.001,*3.001,-")]]
    headm = outm[0].splitlines()[-1].split("\t") if outm else []
    okm = k != "raise" and cols == wantm and len(headm) == 11 and headm[9].startswith("S:0:") and headm[10].startswith("S:1:")
    res.ob("C12.R6", f, f, okm,
           expected="two solutions with two and three copies (known finding C12.R2 set aside: cells read as independent): column i carries the genotype, MA and MI of solution i's own copies",
           found="agrees" if okm else f"{cols}; header {headm[-2:]}",
           clause="the genotype of allele copy i at a variant is 1 exactly if that copy is reported to carry the variant", key="vcf-records:two-solutions")
    gained = lambda: Rec(major="1", minor="1.002", added=[S2], missing=[])  # noqa  a copy reported as *1.002 +S2
    scenarios.append(("a copy that gained a variant", [gained(), A3()],
                      [["22", "151", "rs2", "T", "A", "1|0", "12", "*1,-", "*1.002,-"],
                       ["22", "251", "rs1", "C", "T", "0|1", "11", "-,*3", "-,*3.001"],
                       ["22", "351", "-", "G", "A", "1|1", "0", "*1,*3", "*1.002,*3.001"]]))
    lost = lambda: Rec(major="3", minor="3.001", added=[], missing=[S2])  # noqa  a copy reported as *3.001 without S2
    scenarios.append(("a copy that lost a variant of its definition", [A1(), lost()],
                      [["22", "151", "rs2", "T", "A", "1|0", "12", "*1,-", "*1.002,-"],
                       ["22", "251", "rs1", "C", "T", "0|1", "11", "-,*3", "-,*3.001"]]))
    fused = lambda: Rec(major="13#3", minor="13#3.001", added=[], missing=[])  # noqa  a fusion-derived major allele: reported under its full name
    scenarios.append(("a fusion-derived copy", [A1(), fused()],
                      [["22", "151", "rs2", "T", "A", "1|0", "12", "*1,-", "*1.002,-"],
                       ["22", "251", "rs1", "C", "T", "0|1", "11", "-,*13#3", "-,*13#3.001"],
                       ["22", "351", "-", "G", "A", "0|1", "0", "-,*13#3", "-,*13#3.001"]]))
    novel = lambda: Rec(major="1", minor="1.002", added=[F1], missing=[])  # noqa  a copy reported as *1.002 with an added core variant
    scenarios.append(("a copy that gained a core variant", [novel(), A3()],
                      [["22", "151", "rs2", "T", "A", "1|0", "12", "*1,-", "*1.002,-"],
                       ["22", "251", "rs1", "C", "T", "1|1", "11", "*1,*3", "*1.002,*3.001"],
                       ["22", "351", "-", "G", "A", "0|1", "0", "-,*3", "-,*3.001"]]))
    for label, sol, want in scenarios:
        out = []

        def pr(*a, sep=" ", end="\n", file=None):
            out.append(sep.join(str(x) for x in a))

        minors = [minor_solution(repo, solution=sol, get_major_diplotype=lambda: "*x", **shown)]
        env = {"sample": "S", "gene": gene, "minors": minors, "f": "FILE", "version": "0", "coverage": Cov()}
        unknown = [a for a in params if a not in env]
        if unknown:
            res.err("C12.R6", f"write_vcf has parameters the analysis does not know: {unknown}")
            return
        try:
            k, v = Evaluator(env, funcs={"print": pr, "td": lambda t: t, "collections.defaultdict": _c.defaultdict}).run(
                [s_ for s_ in f.body if not (isinstance(s_, ast.Expr) and isinstance(s_.value, ast.Constant))])
        except (Unfoldable, Raised) as e:
            res.err("C12.R6", f"write_vcf outside the folding language: {e}")
            return
        recs = [r.split("\t") for r in out[1:]] if len(out) > 1 else []
        head = out[0].splitlines()[-1].split("\t") if out else []
        got = []
        for r in recs:
            if len(r) >= 10:
                fmt = r[8].split(":")
                val = dict(zip(fmt, r[9].split(":")))
                got.append(r[:5] + [val.get("GT"), val.get("DP"), val.get("MA"), val.get("MI")])
        ok = k != "raise" and got == want and len(head) == 10 and head[:2] == ["#CHROM", "POS"] and head[9].startswith("S:0:")
        is_lost = label.startswith("a copy that lost")
        # the recorded finding is exactly "the lost variant is still written as carried by that copy"; anything else is a new failure
        known_shape = is_lost and got == want + [["22", "351", "-", "G", "A", "0|1", "0", "-,*3", "-,*3.001"]]
        res.ob("C12.R1" if is_lost else "C12.R6", f, f, ok,
               expected=f"{label}: one record per carried variant in position order: CHROM, one-based POS, dbSNP id, REF, ALT, and per solution GT / DP / MA / MI "
                        "naming exactly the carrying copies; one sample column per solution",
               found=f"{len(want)} records agree" if ok else f"{got}; header {head[-2:]}",
               clause="the genotype of allele copy i at a variant is 1 exactly if that copy is reported to carry the variant; the MA/MI fields name exactly the carrying copies",
               key="carried-set:write_vcf" if (is_lost and (ok or known_shape)) else f"vcf-records:substitutions:{label}")


def _parents(n):
    p = getattr(n, "_parent", None)
    while p is not None:
        yield p
        p = getattr(p, "_parent", None)


def _field_of(r):
    for p in _parents(r):
        if isinstance(p, ast.Dict):
            for k, v in zip(p.keys, p.values):
                if r in list(ast.walk(v)) and isinstance(k, ast.Constant):
                    return str(k.value)
    return "?"


def run(repo, res):
    r1(repo, res)
    r2(repo, res)
    r3(repo, res)
    r4(repo, res)
    r5(repo, res)
    r6(repo, res)


MUTANTS = [
    dict(name="R1 decomposition forgets losses", module="diplotype", expect="C12.R5",
         old="        mutations |= set(a.added)\n        mutations -= set(a.missing)\n        items = []",
         new="        mutations |= set(a.added)\n        items = []"),
    dict(name="R1 decomposition forgets additions", module="diplotype", expect="C12.R5",
         old="        mutations |= set(a.added)\n        mutations -= set(a.missing)\n        items = []",
         new="        mutations -= set(a.missing)\n        items = []"),
    dict(name="R1 decomposition subtracts before adding (added&lost reappears)", module="diplotype", expect="C12.R5",
         old="        mutations |= set(a.added)\n        mutations -= set(a.missing)\n        items = []",
         new="        mutations -= set(a.missing)\n        mutations |= set(a.added)\n        items = []"),
    dict(name="R1 accessor drops minor-only variants", module="solutions", expect="C12.R1",
         old="            m |= self.gene.alleles[self.major].minors[self.minor].neutral_muts\n", new="            pass\n"),
    dict(name="R1 vcf keys lose added variants", module="diplotype", expect="C12.R1",
         old="        | set(gene.alleles[a.major].minors[a.minor].neutral_muts)\n        | set(a.added)\n    }",
         new="        | set(gene.alleles[a.major].minors[a.minor].neutral_muts)\n    }"),
    dict(name="R2 second replicated cell", module="diplotype", expect="C12.R2",
         old="        data = []\n", new="        data = []\n        cells = [dict()] * len(minors)\n"),
    dict(name="R3 POS zero-based", module="diplotype", expect="C12.R3", old="pos=m.pos + 1,", new="pos=m.pos,"),
    dict(name="R3 substitution alleles swapped", module="diplotype", expect="C12.R3",
         old="            alt = m.op[2]\n", new="            alt = m.op[0]\n"),
    dict(name="R4 genotype table written with copy index of another loop", module="diplotype", expect="C12.R6",
         old="                all_mutations[m][mi][ai] = 1", new="                all_mutations[m][ai][mi] = 1"),
    dict(name="R4 MI lists majors", module="diplotype", expect="C12.R6",
         old='f"*{minor.solution[i].minor}"', new='f"*{minor.solution[i].major}"'),
    dict(name="R4 vcf written for every format", module="genotype", expect="C12.R4",
         old="    if is_vcf:\n        diplotype.write_vcf(", new="    if output_file:\n        diplotype.write_vcf("),
    dict(name="R4 GT read with fixed solution 0", module="diplotype", expect="C12.R6",
         old='"GT": "|".join(str(all_mutations[m][mi][i]) for i in range(nall)),',
         new='"GT": "|".join(str(all_mutations[m][0][i]) for i in range(nall)),'),
    dict(name="R6 MA and MI swapped in the record", module="diplotype", expect=["C12.R6", "C12.R4"],
         old='"MA": ",".join(\n                        f"*{minor.solution[i].major}"', new='"MA": ",".join(\n                        f"*{minor.solution[i].minor}"'),
    dict(name="R6 ID column holds the position-based name", module="diplotype", expect="C12.R6",
         old="                id=gene.get_rsid(m, default=False),", new="                id=gene.get_rsid(m),"),
    dict(name="R5 definition cached per minor allele and updated in place (seeded C12_1 shape)", module="diplotype", expect="C12.R5",
         old="""    for copy, a in enumerate(minor.solution):
        assert a.minor
        mutations = set(gene.alleles[a.major].func_muts) | set(
            gene.alleles[a.major].minors[a.minor].neutral_muts
        )
        mutations |= set(a.added)""",
         new="""    definitions = {}
    for copy, a in enumerate(minor.solution):
        assert a.minor
        if a.minor not in definitions:
            definitions[a.minor] = set(gene.alleles[a.major].func_muts) | set(
                gene.alleles[a.major].minors[a.minor].neutral_muts
            )
        mutations = definitions[a.minor]
        mutations |= set(a.added)"""),
    dict(name="R5 read support of the wrong variant", module="diplotype", expect="C12.R5",
         old="                        coverage[m],\n                        fn if fn else \"none\",", new="                        coverage[sorted(mutations)[0]],\n                        fn if fn else \"none\","),
    dict(name="R5 no empty row for a copy without variants", module="diplotype", expect="C12.R5",
         old="        if len(mutations) > 0:\n            for m in sorted(mutations):", new="        if True:\n            for m in sorted(mutations):"),
    dict(name="R5 copy index shifted", module="diplotype", expect="C12.R5",
         old="                        copy,\n                        a.minor,\n                        m.pos,", new="                        copy + 1,\n                        a.minor,\n                        m.pos,"),
    dict(name="R5 dbSNP column shows the effect", module="diplotype", expect="C12.R5",
         old="                        gene.get_rsid(m, default=False),\n                        \"\",\n                    ]", new="                        fn if fn else \"none\",\n                        \"\",\n                    ]"),
    # benign
    dict(name="benign: one-expression carried set", module="diplotype", kind="benign",
         old="""        mutations = set(gene.alleles[a.major].func_muts) | set(
            gene.alleles[a.major].minors[a.minor].neutral_muts
        )
        mutations |= set(a.added)
        mutations -= set(a.missing)
        items = []""",
         new="""        mutations = (set(gene.alleles[a.major].func_muts) | set(
            gene.alleles[a.major].minors[a.minor].neutral_muts
        ) | set(a.added)) - set(a.missing)
        items = []"""),
    dict(name="benign: accessor via union()", module="solutions", kind="benign",
         old="        m |= set(self.added)\n        m -= set(self.missing)", new="        m = m | set(self.added)\n        m = m - set(self.missing)"),
]
