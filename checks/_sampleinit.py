"""
Sample.__init__ folded whole: the constructor's dispatch (which loader runs, what it is given, what happens to the tables
afterwards) observed as a list of calls on a sample object whose collaborating methods are recording stubs.
"""

import collections

from sa.fold import Lifted, Obj, Raised, Unfoldable, lift_module_helpers  # noqa: F401


class Mut(collections.namedtuple("Mutation", ["pos", "op"])):
    pass


def fold_sample_init(repo, kind, debug=None, cn_region="REGION", long_reads=False, diploid_avg=30.0, path="/data/S1.x.bam", profile=True, gene_name="G", sample_idx=0):
    """-> (outcome kind, value, calls, sample object); calls = [(method, args, kwargs)]"""
    f = repo.func("sam::Sample.__init__")
    calls = []
    tables = {"norm": {1: [(40, 40)]}, "muts": {(1, "A>C"): [(40, 40)]}}

    def loader(name):
        def run(*a, **k):
            calls.append((name, a, k))
            return tables["norm"], tables["muts"]
        return run

    def load_dump(*a, **k):
        calls.append(("_load_dump", a, k))
        me.profile = Obj(cn_region=cn_region, sam_long_reads=False, vcf_sample_idx=0)   # the reader restores the pickled profile
        return tables["norm"], tables["muts"]

    def rec(name, ret=None):
        def run(*a, **k):
            calls.append((name, a, k))
            return ret
        return run

    cov = Obj(_normalize_coverage=rec("coverage._normalize_coverage"), average_coverage=lambda: diploid_avg, diploid_avg_coverage=lambda: diploid_avg)
    gene = Obj(name=gene_name, genome="hg38", mutations={(5, "insA"): 1, (7, "delT"): 1, (9, "A>C"): 1},
               alleles={"1": Obj(func_muts={Mut(9, "A>C")})})
    prof = Obj(cn_region=cn_region, sam_long_reads=long_reads, vcf_sample_idx=sample_idx) if profile else None
    me = Obj(_load_sam=loader("_load_sam"), _load_long_sam=loader("_load_long_sam"), _load_vcf=loader("_load_vcf"), _load_dump=load_dump,
             _load_pscan=loader("_load_pscan"), _load_cn_region=None, _dump_alignments=rec("_dump_alignments"))

    def load_cn_region(*a, **k):
        calls.append(("_load_cn_region", a, k))
        me._dump_cn = {100: 3}          # the real routine fills the sample's table itself and returns it
        return me._dump_cn

    me._load_cn_region = load_cn_region

    def make_cov(norm, muts):
        calls.append(("_make_coverage", (norm, muts), {}))
        me.coverage = cov

    me._make_coverage = make_cov
    funcs = {"detect_genome": lambda p: (kind, "hg38"), "Timing": lambda *a: Obj(), "os.path.basename": lambda q: str(q).rsplit("/", 1)[-1],
             "defaultdict": collections.defaultdict}
    lift_module_helpers(repo.mod("sam").tree, funcs, None, {}, {})
    fn = Lifted(f, funcs=funcs)
    try:
        fn(me, gene, prof, path, None, debug)
        return "return", None, calls, me, tables
    except Raised as r:
        return "raise", r.kind, calls, me, tables
    except Unfoldable as e:
        # the sample object starts without data attributes: one the constructor reads before it (or a collaborator it was to call) has set it
        # is an AttributeError of the program, not a limit of the analysis
        import re

        m = re.search(r"attribute (\w+) not in domain object", str(e))
        if m and m.group(1) not in me.__dict__:
            return "raise", f"AttributeError ({m.group(1)})", calls, me, tables
        raise
