"""
C19 -- no genotype is reported from no data.

Decided (structural part): the low-depth and empty-neutral-region guards dominate every stage call
on every alignment input route, independently of whether the gene structure is estimated or
supplied; the structure stage has its own low-depth guard that still counts pseudogene depth; in
simple output every error raised after the line was opened is preceded by the closing newline.
Not decided: the run-time behaviour on concrete alignment files.
"""

import ast
import collections
import itertools

from sa.cfg import cfg_of
from sa.fold import Evaluator, Obj, Raised, Unfoldable, module_consts, single_defs
from sa.guards import (attr_hook, decide_with, exiting_guards, find_calls, fmt_tests, grid, guard_table, kind_name,
                       names_assigned_from)
from sa.loader import call_name, calls_in, kwarg, walk_local

PROPERTY = "C19"
EXPLANATION = (
    "genotype() folded whole by the analysis' interpreter over input kind x structure given / estimated x configured "
    "minimum x depth x output style (432 scenarios): below the minimum an AldyException before any stage and exactly one "
    "closed empty line in simple output, at or above it the stages run; errors of an empty stage close the line once. "
    "estimate_cn folded whole over depth tables of one- and two-part genes (error below half the smallest configuration, "
    "before filter and model; a pseudogene-only sample passes). Neutral-region guards of Coverage._normalize_coverage by "
    "whole folds (empty region, zero ratio) and of Sample.__init__ by guard dominance on the statement CFG and by folding the constructor whole (neutral depth loaded for the configured region, normalised once after the evidence is built, error on a nearly empty region)."
)
ASSUMPTIONS = [
    "input kinds are the values detect_genome can return: 'sam', 'dump', '' (alignment routes) and 'vcf', 'pscan'",
    "exceptions raised inside the stage functions themselves are outside R4 (the statement speaks about the guard errors)",
]

ALIGN_KINDS = ["sam", "dump", ""]


class CN:  # a truthy stand-in for a neutral region in folding grids
    start, end = 100, 200

    def __bool__(self):
        return True

    def __repr__(self):
        return "<region>"


def r1(repo, res):
    """genotype() folded whole over (input kind x structure given/estimated x neutral region x average depth x configured
    minimum x output style): below the minimum the run ends in AldyException before any stage runs and nothing but the
    closed result line is written; at or above it the stages run."""
    from checks._genotype import GenotypeModel, Scenario, events

    f = repo.func("genotype::genotype")
    res.analysed(f)
    gm = GenotypeModel(repo)
    n = 0
    bad = {}
    for kind, user_cn, mn, avg, style in itertools.product(ALIGN_KINDS, [None, ["1", "1"]], [None, 5.0, 0.5],
                                                           [0.0, 0.49, 0.5, 1.99, 2.0, 4.99, 5.0, 30.0], ["aldy", "simple", "none"]):
        out = {"aldy": Obj(name="out.aldy"), "simple": Obj(name="out.simple"), "none": None}[style]
        params = {} if mn is None else {"min_avg_coverage": mn}
        sc = Scenario(kind=kind, avg_coverage=avg, args=dict(output_file=out, cn_solution=user_cn), params=params)
        try:
            k, v, trace, printed = gm.run(sc)
        except Unfoldable as e:
            res.err("C19.R1", f"genotype() outside the folding language: {e}")
            return
        n += 1
        low = avg < (2.0 if mn is None else mn)
        staged = [t[0] for t in trace if t[0] in ("estimate_cn", "estimate_major", "estimate_minor", "write_decomposition", "write_vcf")]
        tag = f"kind={kind!r}, structure {'given' if user_cn else 'estimated'}, minimum {mn if mn is not None else 'default 2.0'}, average depth {avg}, output {style}"
        if low:
            if not (k == "raise" and v == "AldyException"):
                bad.setdefault("guard", f"{tag}: {k} {str(v)[:60]} instead of an error")
            if staged:
                bad.setdefault("guard", f"{tag}: stages ran below the minimum depth: {staged}")
            text = "".join(t for t, fl in printed if fl is out and out is not None)
            if style == "simple" and not (text.endswith("\n") and text.count("\n") == 1):
                bad.setdefault("line", f"{tag}: simple output left as {text!r}; expected the sample/gene cells closed by one newline")
            if style == "aldy" and text:
                bad.setdefault("line", f"{tag}: output written before the error: {text!r}")
        else:
            if k != "return" or staged[:3] != ["estimate_cn", "estimate_major", "estimate_minor"]:
                bad.setdefault("runs", f"{tag}: {k} {str(v)[:60]}; stages {staged}")
    res.count("C19.R1:scenarios folded", n)
    res.ob("C19.R1", f, f, "guard" not in bad,
           expected="average depth below the configured minimum => AldyException before any stage, on every alignment route, with an estimated or a given structure",
           found=f"{n} scenarios agree" if "guard" not in bad else bad["guard"],
           clause="the average depth over the covered locus is below the configured minimum ... no star-allele call is produced ... regardless of whether the "
                  "gene structure is estimated or supplied by the user", key="depth-guard")
    res.ob("C19.R1", f, f, "runs" not in bad, expected="at or above the minimum the three stages run", found="ok" if "runs" not in bad else bad["runs"], key="depth-guard-not-overeager")
    res.ob("C19.R4", f, f, "line" not in bad, expected="the error leaves an empty, closed result line in simple output and nothing in the other formats",
           found="ok" if "line" not in bad else bad["line"], clause="and an empty result line in simple output", key="line:depth-guard")


def r1_atom(repo, res):
    """The depth atom of R1: average over *all* covered positions of the locus (gene and pseudogene)."""
    f = repo.func("coverage::Coverage.average_coverage")
    res.analysed(f)
    tot = {10: 30.0, 11: 10.0, 500: 20.0, 501: 0.0}
    vals = []
    try:
        for gene_positions in ([10, 11, 500, 501], [10, 11], []):
            me = Obj(_coverage={p: {"_": []} for p in tot}, total=lambda p, t=tot: t[p], gene=list(gene_positions),
                     profile=Obj(cn_region=None))
            k, v = Evaluator({"self": me}).run([s_ for s_ in f.body
                                               if not (isinstance(s_, ast.Expr) and isinstance(s_.value, ast.Constant))])
            vals.append(v if k == "return" else k)
    except (Unfoldable, Raised) as e:
        res.err("C19.R1", f"Coverage.average_coverage outside folding language: {e}")
        return
    ok = all(isinstance(v, (int, float)) for v in vals) and vals[0] == vals[1] == vals[2] and 60.0 / 5 <= vals[0] <= 60.0 / 4
    res.ob("C19.R1", f, f, ok,
           expected="mean depth over every covered position of the locus, independent of which positions belong to the main gene",
           found=f"all positions in gene: {vals[0]}, half: {vals[1]}, none (pseudogene only): {vals[2]}",
           clause="average depth over the covered locus (the gene and its pseudogene regions); pseudogene-only samples are still called",
           key="average-depth-definition")


def _fmt(p):
    return "{" + ", ".join(f"{k}={v!r}" for k, v in p.items()) + "}"


def r2(repo, res):
    # (a) _normalize_coverage folded whole: an empty neutral region (sample or profile side) ends in AldyException and nothing is stored
    import checks.c07 as c07

    f = repo.func("coverage::Coverage._normalize_coverage")
    res.analysed(f)
    table, cnv = c07.depth_table()
    data = {"G": {"e1": [40.0, 30.0], "i1": [0, 0], "e2": [55.0, 70.0]}}
    try:
        k1, v1, o1 = c07.fold_normalize(repo, table, collections.defaultdict(int), data, 30.0)
        k2, v2, o2 = c07.fold_normalize(repo, table, cnv, data, 0.0)
        k3, v3, o3 = c07.fold_normalize(repo, table, cnv, data, 30.0)
    except (Unfoldable, Raised) as e:
        res.err("C19.R2", f"_normalize_coverage outside folding language: {e}")
        return
    res.ob("C19.R2", f, f, (k1, v1) == ("raise", "AldyException") and not o1,
           expected="no reads in the copy-number-neutral region -> AldyException, no normalised depth stored", found=f"{k1} {v1}; cells stored: {len(o1)}",
           clause="a sample with no reads in the copy-number-neutral region is rejected", key="neutral-zero-guard")
    res.ob("C19.R2", f, f, (k2, v2) == ("raise", "AldyException") and not o2, expected="profile without neutral depth -> AldyException, nothing stored",
           found=f"{k2} {v2}; cells stored: {len(o2)}", key="store-after-guard")
    res.ob("C19.R2", f, f, k3 != "raise" and len(o3) == 6, expected="with reads on both sides the six (gene part, region) cells are normalised", found=f"{k3}; {len(o3)} cells",
           key="normalises-otherwise")

    # (b) Sample.__init__: decided by folding the constructor whole (r2_constructor); the former CFG-dominance form of this rule is retired --
    #     it fired on a behaviour-preserving rewrite of the constructor (dispatch table of nested readers, early return)


def r2_constructor(repo, res):
    """Sample.__init__ folded whole (collaborating methods are recording stubs): with a neutral region the alignment file's neutral
    depth is loaded for that region and kept, the evidence is normalised once after it is built, and a (nearly) empty neutral
    region ends in an error; without a neutral region none of this happens."""
    from checks._sampleinit import fold_sample_init

    g = repo.func("sam::Sample.__init__")
    for kind in ("sam", "dump"):
        for region in ("REGION-X", None):
            for avg in (0.0, 1.99, 2.0, 30.0):
                try:
                    k, v, calls, me, tables = fold_sample_init(repo, kind, None, cn_region=region, diploid_avg=avg)
                except Unfoldable as e:
                    res.err("C19.R2", f"Sample.__init__ outside the folding language: {e}")
                    return
                names = [c_[0] for c_ in calls]
                loads = [c_ for c_ in calls if c_[0] == "_load_cn_region"]
                norms = names.count("coverage._normalize_coverage")
                if region is None:
                    ok = k == "return" and not loads and norms == 0
                    want = "no neutral depth is loaded, nothing is normalised, the sample is accepted"
                else:
                    ok = norms == 1 and names.index("coverage._normalize_coverage") > names.index("_make_coverage") \
                        and ((k, v) == ("raise", "AldyException") if avg < 2 else k == "return")
                    if kind == "sam":
                        ok = ok and len(loads) == 1 and region in loads[0][1] and getattr(me, "_dump_cn", None) == {100: 3}
                    else:
                        ok = ok and not loads
                    want = (("the neutral depth of that region is loaded and kept, " if kind == "sam" else "no alignment file is scanned, ")
                            + "the evidence is normalised once after it is built, and the sample is " + ("rejected with an error" if avg < 2 else "accepted"))
                res.ob("C19.R2", g, g, ok, expected=f"input kind {kind!r}, neutral region {region!r}, neutral depth per base {avg}: {want}",
                       found=f"{k} {v or ''}; calls {names}; neutral table {getattr(me, '_dump_cn', None)}",
                       clause="the copy-number-neutral region is empty: no star-allele call is produced", key=f"constructor|{kind}|{bool(region)}|{avg}")


class CNProfile:
    cn_region = CN()
    sam_long_reads = False

    def __bool__(self):
        return True


def _guard_text(cfg, n, removed):
    return " ".join(ast.unparse(t) for t, _ in cfg.guards(n, removed) if isinstance(t, ast.expr))


def r3(repo, res):
    """estimate_cn folded whole on depth tables: a locus whose summed normalised depth (gene and pseudogene) is below half the
    smallest configuration ends in AldyException before the candidate filter or the model is touched; a pseudogene-only
    sample passes the guard."""
    from checks._cn import REGIONS, fold_estimate_cn, sample_gene

    f = repo.func("cn::estimate_cn")
    res.analysed(f)
    prof = Obj(cn_solution=None, male=False)
    n = 0
    bad = None
    try:
        for parts in (2, 1):
            gene = sample_gene(parts)
            smallest = min(sum(sum(v.values()) for v in c.cn) for c in gene.cn_configs.values())
            for g0, g1 in itertools.product([0.0, 0.1, 0.3, 0.5, 1.0, 2.0], repeat=2):
                if parts == 1 and g1:
                    continue
                depth = {(gi, r): (g0 if gi == 0 else g1) for gi in range(parts) for r in REGIONS}
                total = sum(depth[(gi, r)] for gi in range(parts) for r in REGIONS)
                k, v, calls = fold_estimate_cn(repo, gene, prof, depth)
                n += 1
                low = total < smallest / 2.0
                if abs(total - smallest / 2.0) < 1e-9:
                    continue  # exactly at the threshold either outcome is within the statement
                if low and not (k == "raise" and v == "AldyException" and not calls):
                    bad = bad or f"{parts} gene part(s), gene depth {g0}, pseudogene depth {g1} (total {total} < {smallest}/2): {k} {v}; calls {[c[0] for c in calls]}"
                if not low and not (k == "return" and [c[0] for c in calls] == ["_filter_configs", "solve_cn_model"]):
                    bad = bad or f"{parts} gene part(s), gene depth {g0}, pseudogene depth {g1} (total {total} >= {smallest}/2): {k} {v}; calls {[c[0] for c in calls]}"
    except Unfoldable as e:
        res.err("C19.R3", f"estimate_cn outside the folding language: {e}")
        return
    res.count("C19.R3:depth tables folded", n)
    res.ob("C19.R3", f, f, bad is None,
           expected="error exactly when the summed depth of gene and pseudogene regions is below half the smallest configuration; otherwise filter, then model",
           found=f"{n} depth tables agree" if bad is None else bad,
           clause="no star-allele call for a locus no read covers, while a sample whose reads cover only the pseudogene is still called as a whole-gene deletion",
           key="structure-stage-guard")


def r4(repo, res):
    """Errors of an empty stage in simple output: the opened result line is closed exactly once (whole-function folding)."""
    from checks._genotype import GenotypeModel, Scenario

    f = repo.func("genotype::genotype")
    gm = GenotypeModel(repo)
    empties = {"no structure": dict(cn=[], majors={}, minors={}),
               "no major candidate": dict(cn=[("A", 0.0), ("B", 0.1)], majors={"A": [], "B": []}, minors={}),
               "no refinement": dict(cn=[("A", 0.0)], majors={"A": [("A1", 0.0)]}, minors={"A1": []})}
    for label, desc in empties.items():
        for kind in ALIGN_KINDS + ["vcf"]:
            out = Obj(name="out.simple")
            try:
                k, v, trace, printed = gm.run(Scenario(kind=kind, args=dict(output_file=out), **desc))
            except Unfoldable as e:
                res.err("C19.R4", f"genotype() outside the folding language: {e}")
                return
            text = "".join(t for t, fl in printed if fl is out)
            ok = k == "raise" and v == "AldyException" and text.endswith("\n") and text.count("\n") == 1
            res.ob("C19.R4", f, f, ok, expected=f"{label} (kind {kind!r}): AldyException and the simple-output line closed by exactly one newline",
                   found=f"{k} {str(v)[:40]}; output {text!r}", clause="the run ends with an explanatory error for that gene (and an empty result line in simple output)",
                   key=f"line:{label}:{kind}")
    # is_simple given as an argument (no file suffix) behaves the same
    out = Obj(name="<stdout>")
    try:
        k, v, trace, printed = gm.run(Scenario(avg_coverage=0.1, args=dict(output_file=out, is_simple=True)))
    except Unfoldable as e:
        res.err("C19.R4", f"genotype() outside the folding language: {e}")
        return
    text = "".join(t for t, fl in printed if fl is out)
    res.ob("C19.R4", f, f, k == "raise" and text.endswith("\n") and text.count("\n") == 1, expected="is_simple=True: the line is closed on the depth error",
           found=f"{k}; output {text!r}", key="line:is_simple-argument")


def run(repo, res):
    r1(repo, res)
    r1_atom(repo, res)
    r2(repo, res)
    r2_constructor(repo, res)
    r3(repo, res)
    r4(repo, res)


# -- arming self-test ------------------------------------------------------------------------------

MUTANTS = [
    dict(name="R2 neutral depth loaded only without a neutral region", module="sam", expect=["C19.R2"],
         old="                if self.profile and self.profile.cn_region:\n                    self._dump_cn = self._load_cn_region(", new="                if not (self.profile and self.profile.cn_region):\n                    self._dump_cn = self._load_cn_region("),
    dict(name="benign: neutral depth not re-assigned (the loader fills the sample's table itself)", module="sam", kind="benign",
         old="                    self._dump_cn = self._load_cn_region(", new="                    _unused = self._load_cn_region("),
    dict(name="R2 neutral depth of the default region instead of the configured one", module="sam", expect=["C19.R2"],
         old="                        path, reference, self.profile.cn_region\n", new="                        path, reference, None\n"),
    dict(name="R1 guard conjoined with neutral region (the original defect)", module="genotype",
         old="        if avg_cov < profile.min_avg_coverage:",
         new="        if profile.cn_region and avg_cov < profile.min_avg_coverage:", expect="C19.R1"),
    dict(name="R1 guard only when structure is estimated", module="genotype",
         old="        if avg_cov < profile.min_avg_coverage:",
         new="        if not cn_solution and avg_cov < profile.min_avg_coverage:", expect="C19.R1"),
    dict(name="R1 guard restricted to kind == 'sam' (dump route unguarded)", module="genotype",
         old='    if kind not in ["vcf", "pscan"]:\n        avg_cov',
         new='    if kind == "sam":\n        avg_cov', expect="C19.R1"),
    dict(name="R1 hard-coded minimum 1", module="genotype",
         old="        if avg_cov < profile.min_avg_coverage:", new="        if avg_cov < 1:", expect="C19.R1"),
    dict(name="R1 guard compares the diploid-normalised depth proxy", module="genotype", expect="C19.R1",
         old="        if avg_cov < profile.min_avg_coverage:", new="        if avg_cov <= profile.min_avg_coverage - 1:"),
    dict(name="R1 guard downgraded to a warning", module="genotype",
         old="""            if is_simple:
                print(file=output_file)
            raise AldyException(
                f"Average coverage of""",
         new="""            if is_simple:
                print(file=output_file)
            log.warn(
                f"Average coverage of""", expect="C19.R1"),
    dict(name="R2 zero guard removed", module="coverage",
         old="        if sam_ref == 0:\n            raise AldyException(",
         new="        if sam_ref < 0:\n            raise AldyException(", expect="C19.R2"),
    dict(name="R2 diploid guard removed", module="sam",
         old="        if self.profile.cn_region and self.coverage.diploid_avg_coverage() < 2:",
         new="        if self.profile.cn_region and self.coverage.diploid_avg_coverage() < 0:", expect="C19.R2"),
    dict(name="R2 normalisation only for sam kind", module="sam",
         old="        if self.profile.cn_region:\n            self.coverage._normalize_coverage()",
         new="        if self.profile.cn_region and self.kind == \"sam\":\n            self.coverage._normalize_coverage()",
         expect="C19.R2"),
    dict(name="R3 guard removed", module="cn",
         old="        if total_cov < min_cov / 2.0:", new="        if total_cov < 0:", expect="C19.R3"),
    dict(name="R3 total ignores pseudogene", module="cn",
         old="total_cov = sum(r0 + r1 for r0, r1 in region_cov.values())",
         new="total_cov = sum(r0 for r0, r1 in region_cov.values())", expect="C19.R3"),
    dict(name="R4 newline dropped before 'No major solutions'", module="genotype",
         old="""        if is_simple:
            print(file=output_file)
        raise AldyException("No major solutions found!")""",
         new="""        raise AldyException("No major solutions found!")""", expect="C19.R4"),
    dict(name="R4 newline dropped in depth guard", module="genotype",
         old="""            if is_simple:
                print(file=output_file)
            raise AldyException(
                f"Average coverage of""",
         new="""            raise AldyException(
                f"Average coverage of""", expect="C19.R4"),
    dict(name="R1 average restricted to main-gene positions", module="coverage", expect="C19.R1",
         old="        return sum(self.total(pos) for pos in self._coverage) / float(",
         new="        return sum(self.total(pos) for pos in self._coverage if pos in self.gene) / float("),
    dict(name="R3 smallest configuration taken per gene part", module="cn", expect="C19.R3",
         old="            sum(sum(v.values()) for v in gene.cn_configs[c].cn) for c in gene.cn_configs\n",
         new="            sum(v.values()) for c in gene.cn_configs for v in gene.cn_configs[c].cn\n"),
    # benign
    dict(name="benign: flipped comparison", module="genotype", kind="benign",
         old="        if avg_cov < profile.min_avg_coverage:", new="        if profile.min_avg_coverage > avg_cov:"),
    dict(name="benign: renamed local", module="genotype", kind="benign", regex=True,
         old=r"\bavg_cov\b", new="mean_depth"),
    dict(name="benign: guard hoisted into two ifs", module="genotype", kind="benign",
         old="        if avg_cov < profile.min_avg_coverage:\n            if is_simple:\n                print(file=output_file)\n            raise",
         new="        low = avg_cov < profile.min_avg_coverage\n        if low:\n            if is_simple:\n                print(file=output_file)\n            raise"),
    dict(name="benign: <= 0 zero guard", module="coverage", kind="benign",
         old="        if sam_ref == 0:", new="        if sam_ref <= 0:"),
    dict(name="benign: stricter R3 threshold", module="cn", kind="benign",
         old="        if total_cov < min_cov / 2.0:", new="        if total_cov <= min_cov / 2.0:"),
]
