"""
C07 -- the copy-number signal is depth-normalised: a two-copy reference reads as 2.0.

Decided: (R1) the normalisation routine, lifted and folded on sample depth tables, is the monomial
2 * s * N_profile / (p * N_sample) with half-open region sums that exclude insertions -- hence
invariant under k-fold deeper sequencing, linear in the gene depth, and exactly 2.0 when the
profile is derived (by the lifted profile writer) from the same depth table; (R2) empty neutral
region / zero ratio raise before any division, and Sample.__init__ normalises whenever there is a
neutral region; (R3) the three depth counters (gene pileup, neutral region, profile scanner) count
the same reference positions for every CIGAR op; (R4) the structure stage reads gene and
pseudogene depth of exactly the copy-number regions.
Not decided: floating-point exactness beyond the folded sample; eligibility differences between
the profile scanner and the sample loader.
"""

import ast
import collections
import itertools

from checks._reads import (OPS, START, GeneStub, expected_depth, fn_body, fold_load_cn_region, fold_load_sam, fold_parse_read, loop_over,
                           read_stub, sample_read)
from sa.cfg import cfg_of
from sa.fold import Evaluator, Obj, Raised, Unfoldable
from sa.guards import find_calls
from sa.loader import AnalysisError, call_name, calls_in, walk_local

PROPERTY = "C07"
EXPLANATION = (
    "Formula rule by folding: Coverage._normalize_coverage is lifted and evaluated on sample depth tables (per-position "
    "observation tables with an insertion entry, two genes x three regions incl. an empty region, neutral region with "
    "distinct boundary values) and compared with 2*s*N_p/(p*N_s); metamorphic relations (k-fold, gene-only scaling) and "
    "the self-profile identity (profile written by the lifted tail of Profile.get_sam_profile_data from the same table "
    "-> exactly 2.0) are evaluated on the lifted fragments. Sibling agreement table of the three depth counters per "
    "CIGAR op and per SAM flag class. Guard dominance for the zero guards. estimate_cn folded whole for the consumer. A sparse sample "
    "(regions of total depth 1 and 0) with the neutral region on another chromosome at the coordinates of a gene region: per-chromosome sums "
    "in the written profile and exactly 2.0 against it."
)
ASSUMPTIONS = ["Coverage.total is the depth accessor (folded from source for the sample tables)",
               "pysam read attributes as modelled by the read stub (get_blocks = aligned blocks without deletions)"]

GRange = collections.namedtuple("GRange", ["chr", "start", "end"])
# the pseudogene's `i1` overlaps the gene's `e2` (as CYP2D7's repeat region overlaps the region upstream of CYP2D6): both count the shared bases
REGIONS = [{"e1": GRange("22", 10, 14), "i1": GRange("22", 14, 14), "e2": GRange("22", 14, 19)},
           {"e1": GRange("22", 40, 43), "i1": GRange("22", 17, 21), "e2": GRange("22", 43, 50)}]
# Gene.region_at as the loader builds it: one owner per position, later (gene, region) pairs overwrite earlier ones
REGION_AT = {i: (g_, r_) for g_, d_ in enumerate(REGIONS) for r_, rng_ in d_.items() for i in range(rng_.start, rng_.end)}


def gene_stub():
    return Obj(regions=REGIONS, name="G", region_at=lambda pos: REGION_AT.get(pos))
CN = GRange("22", 100, 106)


def depth_table(scale_gene=1, scale_all=1):
    """position -> {op: observations}; includes an insertion entry and distinct values at region borders."""
    t = {}
    for p in list(range(8, 21)) + list(range(38, 52)):
        n = (3 + (p * 7) % 5) * scale_gene * scale_all
        t[p] = {"_": [(40, 40)] * n}
        if p % 4 == 0:
            t[p]["A>C"] = [(40, 40)] * (2 * scale_gene * scale_all)
        if p % 6 == 0:
            t[p]["insG"] = [(40, 40)] * (5 * scale_gene * scale_all)
    cnv = collections.defaultdict(int, {p: (4 + p % 3) * scale_all for p in range(98, 109)})
    return t, cnv


def real_total(repo, table):
    f = repo.func("coverage::Coverage.total")

    def total(m):
        me = Obj(_coverage=table, _indels=None)
        k, v = Evaluator({"self": me, "m": m}).run(fn_body(f))
        if k != "return":
            raise Raised(str(v))
        return v

    return total


def spec_depth(table, p):
    return sum(len(v) for o, v in table.get(p, {}).items() if not o.startswith("ins"))


def fold_normalize(repo, table, cnv, data, neutral_value):
    f = repo.func("coverage::Coverage._normalize_coverage")
    prof = Obj(cn_region=CN, data=data, neutral_value=neutral_value)
    me = Obj(profile=prof, _cnv_coverage=cnv, gene=gene_stub(), _coverage=table, _indels=None,
             total=real_total(repo, table), _region_coverage={})
    k, v = Evaluator({"self": me}).run(fn_body(f))
    return k, v, me._region_coverage


class _GR(collections.namedtuple("GRange", ["chr", "start", "end"])):
    _fold_ok = True

    def samtools(self, pad_left=0, pad_right=0, prefix=""):
        return (self.chr, self.start - pad_left, self.end + pad_right)


def profile_from(repo, table, cnv, custom=True, cn=None):
    """Profile.get_sam_profile_data folded whole on a read set that realises the depth table (one 1M read per unit of
    depth), with the custom (or default) copy-number-neutral region."""
    f = repo.func("profile::Profile.get_sam_profile_data")
    cn = _GR(*(cn or CN))
    regions = {("G", r, gi): _GR(*rng) for gi, gr in enumerate(REGIONS) for r, rng in gr.items()}
    reads = []
    for p in table:
        reads += [read_stub([(0, 1)], start=p, seq="A")] * spec_depth(table, p)
    for p, c in cnv.items():
        reads += [read_stub([(0, 1)], start=p, seq="A", ref_name=cn.chr)] * c
    opened = []

    def fetch(region=None):
        return [r for r in reads if region is None or (region[0] == r.reference_name and region[1] <= r.reference_start < region[2])]

    def open_(path, reference_filename=None):
        opened.append(path)
        return Obj(header={"SQ": [{"SN": "22"}, {"SN": "21"}]}, fetch=fetch)

    params = [a.arg for a in f.args.args]
    env = {"sam_path": "x.bam", "ref_path": None, "regions": regions, "cn_region": cn if custom else None, "genome": "hg19", "params": {}}
    missing = [a for a in params if a not in env and a not in ("self", "cls")]
    if missing:
        raise AnalysisError(f"get_sam_profile_data has parameters the analysis does not know: {missing}")
    ev = Evaluator(env, funcs={"pysam.AlignmentFile": open_, "GRange": _GR, "natsorted": sorted, "chr_prefix": lambda c, names: "",
                               "defaultdict": collections.defaultdict})
    kind, val = ev.run(fn_body(f))
    if kind != "return":
        raise Raised(f"{kind} {val}")
    return val


def r1(repo, res):
    f = repo.func("coverage::Coverage._normalize_coverage")
    res.analysed(f)
    table, cnv = depth_table()
    data = {"G": {"e1": [40.0, 30.0], "i1": [0, 12.0], "e2": [55.0, 70.0]}}
    Np = 30.0
    try:
        k, v, out = fold_normalize(repo, table, cnv, data, Np)
    except (Unfoldable, Raised) as e:
        res.err("C07.R1", f"_normalize_coverage outside folding language: {e}")
        return
    Ns = sum(cnv[i] for i in range(CN.start, CN.end))
    bad = None
    for gi, gr in enumerate(REGIONS):
        for r, rng in gr.items():
            s = sum(spec_depth(table, i) for i in range(rng.start, rng.end))
            p = data["G"][r][gi]
            want = (2.0 * s * Np / (p * Ns)) if p else 0.0
            got = out.get((gi, r))
            if got is None or abs(got - want) > 1e-9:
                bad = bad or f"gene {gi} region {r}: {got}, documented 2*s*N_p/(p*N_s) = {want}"
    res.ob("C07.R1", f, f, k != "raise" and bad is None,
           expected="normalised depth = 2 * (sum of depth over [start,end), insertions excluded) * profile neutral / (profile region depth * sample neutral over [start,end)); 0 where the profile has no depth",
           found="agrees on 6 (gene, region) cells" if bad is None else bad,
           clause="equals exactly 2.0 in every region the profile covers when the sample is the sample the profile was generated from", key="monomial")
    # metamorphic relations on the lifted routine
    try:
        t2, c2 = depth_table(scale_all=3)
        _, _, out3 = fold_normalize(repo, t2, c2, data, Np)
        t4, c4 = depth_table(scale_gene=2)
        _, _, outg = fold_normalize(repo, t4, c4, data, Np)
    except (Unfoldable, Raised) as e:
        res.err("C07.R1", f"_normalize_coverage outside folding language: {e}")
        return
    inv = all(abs(out3[k_] - out[k_]) < 1e-9 for k_ in out)
    lin = all(abs(outg[k_] - 2 * out[k_]) < 1e-9 for k_ in out)
    res.ob("C07.R1", f, f, inv, expected="every read duplicated 3 times -> same normalised depth", found="invariant" if inv else "changes",
           clause="invariant when the sample is sequenced k times deeper", key="k-fold-invariance")
    res.ob("C07.R1", f, f, lin, expected="gene reads doubled -> normalised depth doubled", found="linear" if lin else "not linear",
           clause="scales linearly when only the gene reads are multiplied", key="gene-linearity")
    # self-profile identity through the lifted profile writer
    try:
        d = profile_from(repo, table, cnv)
        k, v, outp = fold_normalize(repo, table, cnv, d, d["neutral"]["value"])
        d0 = profile_from(repo, table, cnv, custom=False)
    except Unfoldable as e:
        res.err("C07.R1", f"profile writer outside folding language: {e}")
        return
    except (Raised, KeyError, TypeError, IndexError) as e:
        res.ob("C07.R1", repo.func("profile::Profile.get_sam_profile_data"), f, False,
               expected="profile written from a depth table, then the same table normalised against it -> exactly 2.0 in every covered region",
               found=f"the profile writer / the normalisation raises {e}", key="self-profile-2.0")
        return
    cells = {k_: v_ for k_, v_ in outp.items() if d["G"][k_[1]][k_[0]]}
    ok = bool(cells) and all(abs(v_ - 2.0) < 1e-12 for v_ in cells.values()) and isinstance(d["neutral"]["value"], (int, float)) \
        and list(d["neutral"]["hg19"]) == list(CN) and d["neutral"]["value"] == sum(cnv[i] for i in range(CN.start, CN.end)) \
        and len(d0["neutral"]["hg19"]) == 3 and list(d0["neutral"]["hg19"]) != list(CN) and d0["neutral"]["value"] == 0
    res.ob("C07.R1", repo.func("profile::Profile.get_sam_profile_data"), f, ok,
           expected="profile written from a depth table, then the same table normalised against it -> exactly 2.0 in every covered region",
           found=str({f"{g}:{r}": round(v_, 6) for (g, r), v_ in outp.items()}), key="self-profile-2.0")
    # sparse sample (regions with total depth 1 and 0) and a neutral region on another chromosome at the gene's own coordinates
    try:
        x = (40, 40)
        sparse = {10: {"_": [x]}, 41: {"_": [x, x]}, 45: {"_": [x], "insT": [x] * 3}}
        cn21 = GRange("21", 9, 15)
        cnv21 = collections.defaultdict(int, {9: 2, 10: 5, 12: 1, 14: 3})
        ds = profile_from(repo, sparse, cnv21, cn=cn21)
        fs = repo.func("coverage::Coverage._normalize_coverage")
        prof_ = Obj(cn_region=cn21, data=ds, neutral_value=ds["neutral"]["value"])
        me_ = Obj(profile=prof_, _cnv_coverage=cnv21, gene=gene_stub(), _coverage=sparse, _indels=None, total=real_total(repo, sparse), _region_coverage={})
        ks, vs = Evaluator({"self": me_}).run(fn_body(fs))
        outs = me_._region_coverage
        want_doc = {"e1": [1, 2], "i1": [0, 0], "e2": [0, 1]}
        covered = {k_: v_ for k_, v_ in outs.items() if ds["G"][k_[1]][k_[0]]}
        oks = ks != "raise" and {r_: list(v_) for r_, v_ in ds["G"].items()} == want_doc and ds["neutral"]["value"] == 11 and list(ds["neutral"]["hg19"]) == list(cn21) \
            and len(covered) == 3 and all(abs(v_ - 2.0) < 1e-12 for v_ in covered.values())
        founds = f"profile document {dict(ds['G'])}, neutral {ds['neutral']}; normalised {({f'{g}:{r}': round(v_, 6) for (g, r), v_ in outs.items()})}"
    except Unfoldable as e:
        res.err("C07.R1", f"profile writer / normalisation outside folding language: {e}")
        return
    except (Raised, KeyError, TypeError, IndexError) as e:
        oks, founds = False, f"raises {e}"
    res.ob("C07.R1", repo.func("profile::Profile.get_sam_profile_data"), f, oks,
           expected="sparse sample, neutral region on chromosome 21 at the coordinates of a gene region on 22: the profile holds the per-chromosome sums "
                    "(regions e1 [1, 2], e2 [0, 1], neutral 11) and the same sample normalised against it reads exactly 2.0 in the three covered regions (total depth 1 and 2)",
           found=founds, clause="equals exactly 2.0 in every region the profile covers when the sample is the very sample the profile was generated from",
           key="self-profile-2.0:sparse")
    # an alignment file given as the profile: Profile.load scans it (the same routine) with the user's neutral region
    from checks._profile import ProfileModel as _PM

    try:
        pm2 = _PM(repo)
        reads = []
        for p_ in table:
            reads += [read_stub([(0, 1)], start=p_, seq="A")] * spec_depth(table, p_)
        for p_, c_ in cnv.items():
            reads += [read_stub([(0, 1)], start=p_, seq="A")] * c_
        pm2.funcs["pysam.AlignmentFile"] = lambda path, reference_filename=None: Obj(
            header={"SQ": [{"SN": "22"}]}, fetch=lambda region=None: [r_ for r_ in reads if region is None or region[1] <= r_.reference_start < region[2]])
        pm2.funcs["GRange"] = _GR
        pm2.files["sample.bam"] = b"BAM"
        geneb = Obj(name="G", genome="hg19", regions=[{r_: _GR(*rng) for r_, rng in gr.items()} for gr in REGIONS])
        pb = pm2.load(geneb, "sample.bam", _GR(*CN))
        kb, vb, outb = fold_normalize(repo, table, cnv, pb.data, pb.neutral_value)
        cellsb = {k_: v_ for k_, v_ in outb.items() if pb.data["G"][k_[1]][k_[0]]}
        okb = kb != "raise" and bool(cellsb) and all(abs(v_ - 2.0) < 1e-12 for v_ in cellsb.values()) and tuple(pb.cn_region) == tuple(CN)
        foundb = str({f"{g_}:{r_}": round(v_, 6) for (g_, r_), v_ in outb.items()}) + f"; neutral value {pb.neutral_value} over {tuple(pb.cn_region)}"
    except Unfoldable as e:
        res.err("C07.R1", f"Profile.load with an alignment file outside folding language: {e}")
        return
    except (Raised, KeyError, TypeError, IndexError, AttributeError) as e:
        okb, foundb = False, f"raises {e}"
    res.ob("C07.R1", repo.func("profile::Profile.load"), f, okb,
           expected="profile taken from the sample's own alignment file (Profile.load with a .bam and the user's neutral region) -> exactly 2.0 in every covered region",
           found=foundb, clause="profile taken from a BAM or from a profile file written by the profile command", key="self-profile-2.0:bam")
    # length-based pseudo profile and custom region override (the Profile class lifted whole)
    from checks._profile import ProfileModel

    pf = repo.func("profile::Profile.get_sam_profile_data")
    pl = repo.func("profile::Profile.load")
    res.analysed(pf, pl)
    try:
        pm = ProfileModel(repo)
        regions = {("G", "e1", 0): _GR("22", 10, 20), ("G", "e1", 1): _GR("22", 110, 125), ("G", "i1", 0): _GR("22", 20, 27)}
        doc = pm.write("<illumina>", None, dict(regions), _GR("22", 500, 530), "hg19", {})
        ok = doc.get("G") == {"e1": [10, 15], "i1": [7]} and doc.get("neutral", {}).get("value") == 30
        found = f"pseudo-profile {doc.get('G')}, neutral {doc.get('neutral')}"
        for genome, dflt in (("hg19", ("22", 1, 787)), ("hg38", ("22", 5001, 5787))):
            pm.reset_state()
            pm.files["aldy.resources.profiles/illumina.yml"] = {"neutral": {"value": 786, "hg19": ["22", 1, 787], "hg38": ["22", 5001, 5787]}, "G": {"e1": [10, 15]}}
            gene = Obj(name="G", genome=genome, regions=[{"e1": _GR("22", 10, 20)}])
            p1 = pm.load(gene, "illumina", _GR("22", 600, 640))
            p0 = pm.load(gene, "illumina")
            ok = ok and p1.neutral_value == 40 and tuple(p1.cn_region) == ("22", 600, 640) and p0.neutral_value == 786 and tuple(p0.cn_region) == dflt
            found += f"; illumina/{genome} with a custom region: neutral value {p1.neutral_value} over {tuple(p1.cn_region)}; without: {p0.neutral_value} over {tuple(p0.cn_region)}"
    except Unfoldable as e:
        res.err("C07.R1", f"Profile class outside the folding language: {e}")
        return
    except Raised as e:
        ok, found = False, f"raises {e}"
    res.ob("C07.R1", pl, pl, ok,
           expected="the uniform pseudo-profile and the custom neutral region are both length-based (end - start), like the per-base sums",
           found=found, key="length-based")


def r2(repo, res):
    f = repo.func("coverage::Coverage._normalize_coverage")
    table, cnv = depth_table()
    data = {"G": {"e1": [40.0, 30.0], "i1": [0, 12.0], "e2": [55.0, 70.0]}}
    try:
        k1, v1, o1 = fold_normalize(repo, table, collections.defaultdict(int), data, 30.0)
        k2, v2, o2 = fold_normalize(repo, table, cnv, data, 0.0)
    except (Unfoldable, Raised) as e:
        res.err("C07.R2", f"_normalize_coverage outside folding language: {e}")
        return
    res.ob("C07.R2", f, f, (k1, v1) == ("raise", "AldyException") and not o1,
           expected="no reads in the neutral region -> AldyException, nothing normalised", found=f"{k1} {v1}; cells written: {len(o1)}",
           clause="a sample with no reads in the copy-number-neutral region is rejected instead of being normalised", key="empty-neutral")
    res.ob("C07.R2", f, f, (k2, v2) == ("raise", "AldyException"), expected="profile without neutral depth -> AldyException", found=f"{k2} {v2}",
           key="zero-ratio")
    import checks.c19 as c19
    from sa.report import Result

    tmp = Result("C19")
    c19.r2(repo, tmp)
    c19.r2_constructor(repo, tmp)
    for o in tmp.obligations:
        if o["site"].startswith("sam::"):
            res.obligations.append(dict(o, rule="C07.R2"))
    res.errors += [e.replace("C19.R2", "C07.R2") for e in tmp.errors]
    res.analysed("sam::Sample.__init__")


def loop_iter_name(loop):
    """Name the read loop iterates over (bound to the sample reads)."""
    if isinstance(loop.iter, ast.Name):
        return loop.iter.id
    raise AnalysisError(f"read loop at line {loop.lineno} does not iterate a plain name: {ast.unparse(loop.iter)}")


def depth_positions_cn(repo, cigar):
    table = fold_load_cn_region(repo, [read_stub(cigar)], tuple(CN))
    return sorted(p for p, c in table.items() for _ in range(c))


def depth_positions_profile(repo, cigar):
    """Reference positions the profile scanner counts for one read: the whole routine folded on a one-read file whose
    single one-base regions report the depth position by position."""
    f = repo.func("profile::Profile.get_sam_profile_data")
    rd = read_stub(cigar)
    span = range(START - 3, START + 12)
    regions = {("G", f"p{p}", 0): _GR("22", p, p + 1) for p in span}
    env = {"sam_path": "x.bam", "ref_path": None, "regions": regions, "cn_region": _GR("22", 900, 901), "genome": "hg19", "params": {}}
    ev = Evaluator(env, funcs={"pysam.AlignmentFile": lambda path, reference_filename=None: Obj(header={"SQ": [{"SN": "22"}]}, fetch=lambda region=None: [rd]),
                               "GRange": _GR, "natsorted": sorted, "chr_prefix": lambda c, names: "", "defaultdict": collections.defaultdict})
    kind, val = ev.run(fn_body(f))
    if kind != "return":
        raise Raised(f"{kind} {val}")
    return sorted(p for p in span for _ in range(val["G"][f"p{p}"][0]))


def r3(repo, res):
    pr = repo.func("sam::Sample._parse_read")
    cnf = repo.func("sam::Sample._load_cn_region")
    pf = repo.func("profile::Profile.get_sam_profile_data")
    res.analysed(pr, cnf, pf)
    for k, name in OPS.items():
        if k == 5:
            continue  # hard-clipped reads never reach the gene pileup
        cigar, seq, qual = sample_read(k)
        want, _ = expected_depth(k)
        try:
            kind, val, norm, muts, me, ev = fold_parse_read(repo, cigar, seq, qual)
            table = collections.defaultdict(dict)
            for p, l in norm.items():
                table[p]["_"] = list(l)
            for (p, o), l in muts.items():
                table[p].setdefault(o, []).extend(l)
            tot = real_total(repo, table)
            gene = sorted(p for p in table for _ in range(int(tot(p))))
            neutral = depth_positions_cn(repo, cigar)
            profile = depth_positions_profile(repo, cigar)
        except (Unfoldable, Raised) as e:
            res.err("C07.R3", f"depth counter outside folding language (op {name}): {e}")
            return
        ok = gene == neutral == profile == want
        res.ob("C07.R3", cnf, cnf, ok,
               expected=f"op {name}: gene pileup, neutral-region counter and profile scanner all count reference positions {want}",
               found=f"gene {gene}; neutral {neutral}; profile {profile}",
               clause="the normalised depth of a two-copy reference reads as 2.0 (all three depths must be measured the same way)",
               key=f"sibling-depth:{name}")
    # ops outside the DNA table (reference skip N, padding P): the SAM table is not the yardstick here (the walkers ignore them),
    # but a sample measured against its own profile reads 2.0 only if all three walkers treat them the same way
    for k, name in ((3, "N"), (6, "P")):
        cigar, seq, qual = sample_read(k)
        try:
            kind, val, norm, muts, me, ev = fold_parse_read(repo, cigar, seq, qual)
            table = collections.defaultdict(dict)
            for p, l in norm.items():
                table[p]["_"] = list(l)
            for (p, o), l in muts.items():
                table[p].setdefault(o, []).extend(l)
            tot = real_total(repo, table)
            gene = sorted(p for p in table for _ in range(int(tot(p))))
            neutral = depth_positions_cn(repo, cigar)
            profile = depth_positions_profile(repo, cigar)
        except (Unfoldable, Raised) as e:
            res.err("C07.R3", f"depth counter outside folding language (op {name}): {e}")
            return
        res.ob("C07.R3", cnf, cnf, gene == neutral == profile,
               expected=f"op {name}: gene pileup, neutral-region counter and profile scanner count the same reference positions",
               found=f"gene {gene}; neutral {neutral}; profile {profile}",
               clause="exactly 2.0 in every region the profile covers when the sample is the very sample the profile was generated from",
               key=f"sibling-depth:{name}")
    try:
        unaligned = depth_positions_profile(repo, None)
    except Unfoldable as e:
        res.err("C07.R3", f"profile scanner outside folding language: {e}")
        return
    except Raised as e:
        unaligned = f"raises {e}"
    res.ob("C07.R3", pf, pf, unaligned == [], expected="an unaligned read (no CIGAR) in the scanned window is skipped by the profile scanner", found=str(unaligned),
           key="profile-scanner-unaligned")
    # the neutral counter and the gene pileup agree on which alignments count (sibling agreement over the SAM flag)
    ls = repo.func("sam::Sample._load_sam")
    res.analysed(ls)
    FLAGS = {"primary": 0, "reverse strand": 0x10, "paired, second in pair": 0x1 | 0x2 | 0x80, "secondary": 0x100, "supplementary": 0x800,
             "secondary + supplementary": 0x900, "duplicate": 0x400, "failed vendor QC": 0x200, "unaligned (no CIGAR)": None}
    try:
        rows = {}
        for label, fl in FLAGS.items():
            rd = read_stub([(0, 4)], flag=fl, seq="ACGT", quals=[30] * 4) if fl is not None else read_stub(None, seq="ACGT")
            k_, v_, me, calls = fold_load_sam(repo, [rd])
            if k_ != "return":
                raise Raised(str(v_))
            table = fold_load_cn_region(repo, [rd], tuple(CN))
            rows[label] = (bool(calls), bool(table))
    except (Unfoldable, Raised) as e:
        res.err("C07.R3", f"read loaders outside folding language: {e}")
        return
    differ = {l: v for l, v in rows.items() if v[0] != v[1]}
    res.ob("C07.R3", cnf, cnf, not differ and rows["primary"] == (True, True) and rows["supplementary"] == (False, False)
           and rows["unaligned (no CIGAR)"] == (False, False),
           expected="an alignment is counted in the neutral region exactly when the gene pileup counts it, for every SAM flag class "
                    "(primary and secondary counted, supplementary and unaligned not)",
           found="agree on " + str(len(rows)) + " flag classes" if not differ else f"(gene pileup counts, neutral counter counts) differ: {differ}",
           clause="equals exactly 2.0 ... when the sample is the very sample the profile was generated from (numerator and denominator count the same alignments)",
           key="neutral-eligibility")


def r4(repo, res):
    """estimate_cn folded whole: the model builder receives (gene depth, pseudogene depth) of exactly the copy-number regions."""
    from checks._cn import REGIONS, fold_estimate_cn, sample_gene

    f = repo.func("cn::estimate_cn")
    res.analysed(f)
    prof = Obj(cn_solution=None, male=False)
    try:
        rows = {}
        for parts in (2, 1):
            gene = sample_gene(parts)
            gene.regions = [dict({r: None for r in REGIONS}, extra=None)] * parts   # a region that is not a copy-number region
            depth = {(gi, r): (gi + 1) * 1.0 + 0.1 * len(r) for gi in range(parts) for r in REGIONS + ["extra"]}
            k, v, calls = fold_estimate_cn(repo, gene, prof, depth)
            sc = [c for c in calls if c[0] == "solve_cn_model"]
            rows[parts] = (k, sc[0][1] if sc else None)
    except Unfoldable as e:
        res.err("C07.R4", f"estimate_cn outside the folding language: {e}")
        return
    want2 = {r: (1.0 + 0.1 * len(r), 2.0 + 0.1 * len(r)) for r in REGIONS}
    want1 = {r: (1.0 + 0.1 * len(r), 0.0) for r in REGIONS}

    def table(a):
        return next((x for x in (a or ()) if isinstance(x, dict) and set(x) == set(REGIONS) and all(isinstance(t, tuple) for t in x.values())), None)

    ok = rows[2][0] == rows[1][0] == "return" and table(rows[2][1]) == want2 and table(rows[1][1]) == want1
    res.ob("C07.R4", f, f, ok, expected="structure stage reads (gene depth, pseudogene depth) of exactly the copy-number regions; 0 without pseudogene",
           found="ok" if ok else f"{table(rows[2][1])} / {table(rows[1][1])}", key="consumer")


def run(repo, res):
    r1(repo, res)
    r2(repo, res)
    r3(repo, res)
    r4(repo, res)


MUTANTS = [
    dict(name="R1 profile depth floored at one (seeded C07_c3 shape)", module="coverage", expect="C07.R1",
         old="                p /= 2  # profile has 2 copies, so divide it with 2 for normalization\n                self._region_coverage[gene, region] = (ratio * s / p) if p != 0 else 0.0",
         new="                p = max(p / 2, 1)\n                self._region_coverage[gene, region] = ratio * s / p"),
    dict(name="R1 profile depth table keyed by position only (seeded C07_c2 shape)", module="profile", expect="C07.R1",
         edits=[("        cov: dict = defaultdict(lambda: defaultdict(int))", "        cov: dict = defaultdict(int)"),
                ("                                for i in range(size):\n                                    cov[c][start + i] += 1\n                                start += size\n                            elif op == 1:",
                 "                                for i in range(size):\n                                    cov[start + i] += 1\n                                start += size\n                            elif op == 1:"),
                ("                                for i in range(size):\n                                    cov[c][start + i] += 1\n                                start += size\n                                s_start += size",
                 "                                for i in range(size):\n                                    cov[start + i] += 1\n                                start += size\n                                s_start += size"),
                ("                d[g][r][ri] = sum(cov[c][i] for i in range(s, e))", "                d[g][r][ri] = sum(cov[i] for i in range(s, e))")]),
    dict(name="R1 factor 2 dropped", module="coverage", expect="C07.R1",
         old="                p /= 2  # profile has 2 copies, so divide it with 2 for normalization\n", new=""),
    dict(name="R1 ratio inverted", module="coverage", expect="C07.R1",
         old="        ratio = self.profile.neutral_value / sam_ref", new="        ratio = sam_ref / self.profile.neutral_value"),
    dict(name="R1 region end inclusive", module="coverage", expect="C07.R1",
         old="                s = sum(self.total(i) for i in range(rng.start, rng.end))", new="                s = sum(self.total(i) for i in range(rng.start, rng.end + 1))"),
    dict(name="R1 neutral sum starts one base late", module="coverage", expect="C07.R1",
         old="            for i in range(self.profile.cn_region.start, self.profile.cn_region.end)", new="            for i in range(self.profile.cn_region.start + 1, self.profile.cn_region.end)"),
    dict(name="R1 insertions counted (seeded C07_3 shape)", module="coverage", expect="C07.R1",
         old="                s = sum(self.total(i) for i in range(rng.start, rng.end))",
         new="                s = sum(len(q) for i in range(rng.start, rng.end) for q in self._coverage.get(i, {}).values())"),
    dict(name="R1 profile writer sums inclusive range", module="profile", expect="C07.R1",
         old="                d[g][r][ri] = sum(cov[c][i] for i in range(s, e))", new="                d[g][r][ri] = sum(cov[c][i] for i in range(s, e + 1))"),
    dict(name="R1 profile writer swaps gene index", module="profile", expect="C07.R1",
         old="                d[g][r][ri] = sum(cov[c][i] for i in range(s, e))", new="                d[g][r][1 - ri if len(d[g][r]) > 1 else ri] = sum(cov[c][i] for i in range(s, e))"),
    dict(name="R2 zero guard after the division", module="coverage", expect=["C07.R2", "C19.R2"],
         old="        if sam_ref == 0:\n            raise AldyException(", new="        if sam_ref < 0:\n            raise AldyException("),
    dict(name="R3 neutral counter ignores deletions (seeded C07_2 shape)", module="sam", expect="C07.R3",
         old="                    for op, size in read.cigartuples:\n                        if op in [0, 7, 8, 2]:\n                            for i in range(size):\n                                self._dump_cn[start + i] += 1\n                            start += size",
         new="                    for b0, b1 in read.get_blocks():\n                        for i in range(b0, b1):\n                            self._dump_cn[i] += 1"),
    dict(name="R3 profile scanner alone follows reference skips (seed C07_e1)", module="profile", expect="C07.R3",
         old="                            elif op == 1:\n                                s_start += size\n", new="                            elif op == 3:\n                                start += size\n                            elif op == 1:\n                                s_start += size\n"),
    dict(name="R3 neutral counter drops '='", module="sam", expect="C07.R3",
         old="                        if op in [0, 7, 8, 2]:", new="                        if op in [0, 8, 2]:"),
    dict(name="R3 profile scanner counts insertions", module="profile", expect="C07.R3",
         old="                            elif op == 1:\n                                s_start += size", new="                            elif op == 1:\n                                cov[c][start] += size\n                                s_start += size"),
    dict(name="R3 profile scanner: deletion does not advance", module="profile", expect="C07.R3",
         old="                                for i in range(size):\n                                    cov[c][start + i] += 1\n                                start += size\n                            elif op == 1:",
         new="                                for i in range(size):\n                                    cov[c][start + i] += 1\n                            elif op == 1:"),
    dict(name="R4 pseudogene depth read from the gene", module="cn", expect="C07.R4",
         old="                coverage.region_coverage(1, r) if len(gene.regions) > 1 else 0.0,", new="                coverage.region_coverage(0, r) if len(gene.regions) > 1 else 0.0,"),
    # benign
    dict(name="benign: explicit halving", module="coverage", kind="benign",
         old="                p /= 2  # profile has 2 copies, so divide it with 2 for normalization\n", new="                p = p / 2.0\n"),
    dict(name="benign: neutral counter via op set", module="sam", kind="benign",
         old="                        if op in [0, 7, 8, 2]:", new="                        if op in (0, 2, 7, 8):"),
]
