"""
Shared sample domain for the alignment walkers (C06, C07): a constant reference, tiny reads whose
CIGAR is `2M <op x 3> 2M`, and helpers that lift a walker out of the repository and fold it on them.

The fold derives, per CIGAR op, the walker's table (reference positions that receive a depth
observation, final reference cursor, variant observations).  Tables are compared with the SAM
specification's consumes-query / consumes-reference table and among sibling walkers.
"""

import ast
import collections
import statistics

from sa.fold import Evaluator, Obj, Raised, Unfoldable
from sa.loader import AnalysisError, call_name, walk_local

OPS = {0: "M", 7: "=", 8: "X", 1: "I", 2: "D", 4: "S", 5: "H"}
CONSUMES_REF = {0, 2, 7, 8}
CONSUMES_QUERY = {0, 1, 4, 7, 8}
START = 100


class GeneStub:
    """Reference 'A' everywhere inside [lo, hi); 'N' outside; membership = RefSeq-mapped positions."""

    _fold_ok = True

    def __init__(self, lo=0, hi=10 ** 6, mapped=None):
        self.lo, self.hi = lo, hi
        self.mapped = mapped
        self.mutations = {}  # no catalogued variant: phase records must not depend on the catalogue's alleles
        self.name, self.chr = "G", "22"
        self.chr_to_ref = {p: p for p in (mapped if mapped is not None else [])}

    def __getitem__(self, i):
        if isinstance(i, slice):
            return "".join(self[j] for j in range(i.start, i.stop))
        return "A" if self.lo <= i < self.hi else "N"

    def __contains__(self, i):
        return (self.lo <= i < self.hi) if self.mapped is None else (i in self.mapped)


def sample_read(k, size=3):
    """cigar 2M <k x size> 2M ; query: AA + CCC (if k consumes query) + AA ; qualities distinct per base."""
    cigar = [(0, 2), (k, size), (0, 2)]
    seq = "AA" + ("C" * size if k in CONSUMES_QUERY and k != 5 else "") + "AA"
    if k == 5:
        seq = "AAAA"
    # distinct per base; the middle run lies in another quality bin than its neighbours (a wrong slice of the qualities shows)
    qual = [12, 15] + ([4, 6, 8, 5, 7][:size] if len(seq) > 4 else []) + [38, 41]
    return cigar, seq, qual


def expected_depth(k, size=3):
    """Reference positions with one depth observation each, and the final reference cursor."""
    pos = [START, START + 1]
    cur = START + 2
    if k in CONSUMES_REF:
        pos += list(range(cur, cur + size))
        cur += size
    pos += [cur, cur + 1]
    return pos, cur + 2


def fn_body(f):
    return [s for s in f.body if not (isinstance(s, ast.Expr) and isinstance(s.value, ast.Constant))]


def fold_parse_read(repo, cigar, seq, qual, mq=37, multi=None, gene=None, ref_start=START, phaseable=None, eqs=None, indel_sites=None, into=None):
    """into = (sample object, norm, muts) of an earlier call: the read is added to the same tables (a pileup of several reads)."""
    f = repo.func("sam::Sample._parse_read")
    if into is not None:
        me, norm, muts = into
    else:
        me = Obj(phases={}, gene=gene or GeneStub(), phaseable=dict(phaseable or {}), _indel_sites_eqs=dict(eqs or {}), _indel_sites=dict(indel_sites or {}),
                 _multi_sites=dict(multi or {}))
        norm, muts = collections.defaultdict(list), collections.defaultdict(list)
    env = {"self": me, "fragment": f"r{len(me.phases) + 1}", "ref_start": ref_start, "cigar": cigar, "seq": seq, "norm": norm, "muts": muts,
           "mq": mq, "qual": qual}
    ev = Evaluator(env, funcs={"mean": statistics.mean})
    kind, val = ev.run(fn_body(f))
    return kind, val, norm, muts, me, ev


def read_stub(cigar, start=START, supplementary=False, seq="AAAA", name="r1", ref_name="22", mapq=37, quals=None, tags=None, flag=0):
    cs = "".join(f"{n}{OPS.get(o, '?')}" for o, n in cigar) if cigar else None
    ref_len = sum(n for o, n in (cigar or []) if o in CONSUMES_REF)

    def blocks():
        out, p = [], start
        for o, n in cigar or []:
            if o in (0, 7, 8):
                out.append((p, p + n))
                p += n
            elif o in (2, 3):
                p += n
        return out

    tags = tags or {}
    if supplementary:
        flag |= 0x800
    supplementary = bool(flag & 0x800)
    return Obj(flag=flag, is_qcfail=bool(flag & 0x200), is_reverse=bool(flag & 0x10), is_paired=bool(flag & 0x1), is_proper_pair=bool(flag & 0x2),
               mate_is_unmapped=bool(flag & 0x8), is_read1=bool(flag & 0x40), is_read2=bool(flag & 0x80), cigartuples=list(cigar) if cigar else None, cigarstring=cs, reference_start=start,
               reference_end=(start + ref_len) if cigar else None, is_supplementary=supplementary, query_sequence=seq,
               query_name=name, reference_name=ref_name, reference_id=0 if cigar else -1, mapping_quality=mapq,
               query_qualities=quals, get_blocks=blocks, has_tag=lambda t: t in tags, get_tag=lambda t: tags[t],
               is_secondary=bool(flag & 0x100), is_duplicate=bool(flag & 0x400), is_unmapped=cigar is None or bool(flag & 0x4),
               get_reference_positions=lambda: [p for a, b in blocks() for p in range(a, b)])


def loop_over(func, pred):
    """The `for` statement of `func` selected by pred(loop)."""
    hits = [n for n in walk_local(func) if isinstance(n, ast.For) and pred(n)]
    if not hits:
        raise AnalysisError(f"walker loop not found in {func.name}")
    return hits[0]


# -- symbolic (purely syntactic) cursor table of a CIGAR walker ----------------------------------------


def _ops_of_test(test, opname):
    """Set of op codes a branch test selects: op == k, op in [..], a or b ... ; None if not recognised."""
    if isinstance(test, ast.Compare) and len(test.ops) == 1 and isinstance(test.left, ast.Name) and test.left.id == opname:
        c = test.comparators[0]
        if isinstance(test.ops[0], ast.Eq) and isinstance(c, ast.Constant) and isinstance(c.value, int):
            return {c.value}
        if isinstance(test.ops[0], ast.In) and isinstance(c, (ast.List, ast.Tuple, ast.Set)) and \
                all(isinstance(e, ast.Constant) and isinstance(e.value, int) for e in c.elts):
            return {e.value for e in c.elts}
    if isinstance(test, ast.BoolOp) and isinstance(test.op, ast.Or):
        out = set()
        for v in test.values:
            s = _ops_of_test(v, opname)
            if s is None:
                return None
            out |= s
        return out
    return None


def symbolic_cursor_table(loop: ast.For):
    """For `for op, size in <cigar>:` with an if/elif chain on `op`: {op code: set of cursor names advanced by `size`}.
    Returns None when the loop is not of that shape (then only the folded table is available)."""
    if not (isinstance(loop.target, ast.Tuple) and len(loop.target.elts) == 2 and
            all(isinstance(e, ast.Name) for e in loop.target.elts)):
        return None
    opname, szname = loop.target.elts[0].id, loop.target.elts[1].id
    table = {}
    for st in loop.body:
        cur = st
        while isinstance(cur, ast.If):
            ops = _ops_of_test(cur.test, opname)
            if ops is None:
                return None
            adv = set()
            for n in cur.body:
                for x in ast.walk(n):
                    if isinstance(x, ast.AugAssign) and isinstance(x.op, ast.Add) and isinstance(x.target, ast.Name) \
                            and isinstance(x.value, ast.Name) and x.value.id == szname and _top_level_in(cur.body, x):
                        adv.add(x.target.id)
            for k in ops:
                table.setdefault(k, set()).update(adv)
            cur = cur.orelse[0] if len(cur.orelse) == 1 else None
    return table or None


def _top_level_in(body, node):
    """The cursor increment belongs to the branch itself, not to an inner per-base loop."""
    for st in body:
        if st is node:
            return True
        if isinstance(st, ast.If):
            if _top_level_in(st.body, node) or _top_level_in(st.orelse, node):
                return True
    return False


def cigar_loops(func):
    out = []
    for n in ast.walk(func):
        if isinstance(n, ast.For) and isinstance(n.target, ast.Tuple) and len(n.target.elts) == 2 \
                and all(isinstance(e, ast.Name) for e in n.target.elts) and n.target.elts[0].id == "op":
            out.append(n)
    return out


class _Region(collections.namedtuple("GRange", ["chr", "start", "end"])):
    _fold_ok = True

    def samtools(self, pad_left=0, pad_right=0, prefix=""):
        return f"{prefix}{self.chr}:{self.start - pad_left}-{self.end + pad_right}"


def sam_file_stub(reads, indexed=True):
    def opened(path, reference_filename=None, **kw):
        def check_index():
            if indexed is None:
                raise AttributeError("no index on SAM")
            return bool(indexed)
        return Obj(check_index=check_index, header={"SQ": [{"SN": "22"}]}, fetch=lambda region=None, **k: list(reads), path=path)
    return opened


def fold_load_sam(repo, reads, in_region=lambda region, read, prefix: True, indexed=True, debug=None, parse=None):
    """Sample._load_sam folded whole on a file stub holding `reads`. -> (kind, value, me, parse calls)."""
    from sa.fold import Lifted

    f = repo.func("sam::Sample._load_sam")
    calls = []

    def pr(*a, **kw):
        calls.append(a)
        return parse(*a, **kw) if parse else ((0, 0, 0), [])

    me = Obj(_parse_read=pr, gene=Obj(get_wide_region=lambda: _Region("22", 50, 500), chr="22", name="G"), _prefix="", reads=None, _dump_reads=[],
             is_long_read=False, profile=Obj(cn_region=None, sam_long_reads=False, indelpost=False), _realign_indels=lambda *a, **k: None,
             path="in.bam", _indel_sites={}, _insertion_reads={}, _insertion_counts={}, phases={}, _fusion_counter={})
    fn = Lifted(f, funcs={"pysam.AlignmentFile": sam_file_stub(reads, indexed), "chr_prefix": lambda c, names: "", "_in_region": in_region,
                          "os.path.abspath": lambda q: q, "tempfile.TemporaryDirectory": lambda *a, **k: "tmpdir",
                          "defaultdict": collections.defaultdict})
    try:
        return "return", fn(me, "in.bam", None, debug), me, calls
    except Raised as r:
        return "raise", r.kind, me, calls


def fold_load_cn_region(repo, reads, region, in_region=lambda region, read, prefix: True, indexed=True):
    """Sample._load_cn_region folded whole. -> neutral depth table (position -> count)."""
    from sa.fold import Lifted

    f = repo.func("sam::Sample._load_cn_region")
    me = Obj(_dump_cn=None, _prefix="", gene=Obj(chr="22", name="G"), path="in.bam")
    fn = Lifted(f, funcs={"pysam.AlignmentFile": sam_file_stub(reads, indexed), "chr_prefix": lambda c, names: "", "_in_region": in_region,
                          "defaultdict": collections.defaultdict, "os.path.abspath": lambda q: "/data/" + str(q), "os.path.realpath": lambda q: "/data/" + str(q)})
    out = fn(me, "in.bam", None, _Region(*region))
    return out if out is not None else me._dump_cn
