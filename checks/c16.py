"""
C16 -- VCF genotypes are turned into matching evidence for every variant kind.

Decided: (R1) every loader that can emit an insertion observation also accounts for it in the
indel-support table that the Coverage consumer gives precedence to; (R5) VCF input fixes the structure to
two default copies; (R6/R7) the loader folded whole on record kinds (support per copy, reference reduction
at the variant's own position, allele indexing, 0-based positions, re-expression against the gene reference,
records of other shapes / arities / unmapped positions ignored without failing) -- this replaced the former
syntactic rules R2 (Optional operation never reaches a sink), R3 (skip condition) and R4 (constants).  Not decided: end-to-end genotyping of a VCF.
"""

import ast
import collections

from sa.cfg import cfg_of
from sa.dataflow import reaching
from sa.fold import Evaluator, Obj, Raised, Unfoldable
from sa.guards import decide_with, find_calls, kind_name
from sa.loader import AnalysisError, FuncNode, call_name, calls_in, kwarg, walk_local

PROPERTY = "C16"
EXPLANATION = (
    "Sibling cross-check of the five Sample loaders against their consumer Coverage.__init__ (which drops parsed "
    "insertion observations whenever the indel table is non-empty): emits-insertion => fills-indel-table (R1). "
    "The pseudo-read scheme (baseline = 2 x "
    "per-copy support = 2 x per-copy reference reduction at the variant's own position, allele index i reads entry i, "
    "0-based positions) is decided by folding the loader whole on record kinds (R6, thorough R7). "
    "VCF/pscan route builds the profile with the literal two-copy structure (R5)."
)
ASSUMPTIONS = [
    "pysam.VariantRecord.pos is 1-based and .alleles[0] is REF (pysam documentation)",
    "the adjacent-record multi-nucleotide merge is not judged (its pop/append balance depends on the wildcard pattern, i.e. data)",
]

LOADERS = ["_load_sam", "_load_long_sam", "_load_dump", "_load_vcf", "_load_pscan"]


def _self_methods_called(repo, func, seen=None):
    """Transitive closure of self.<method>() calls inside sam::Sample (including nested defs)."""
    seen = seen if seen is not None else set()
    out = [func]
    for c in ast.walk(func):
        if isinstance(c, ast.Call) and isinstance(c.func, ast.Attribute) and isinstance(c.func.value, ast.Name) \
                and c.func.value.id == "self":
            ref = f"sam::Sample.{c.func.attr}"
            if ref not in seen and repo.has_func(ref):
                seen.add(ref)
                out += _self_methods_called(repo, repo.func(ref), seen)
    return out


def _emits_insertion(funcs):
    """A string starting with 'ins' is built (f-string or concatenation) -- an insertion op key."""
    hits = []
    for f in funcs:
        for n in ast.walk(f):
            if isinstance(n, ast.JoinedStr) and n.values and isinstance(n.values[0], ast.Constant) \
                    and str(n.values[0].value).startswith("ins") and len(n.values) > 1:
                hits.append(n)
            elif isinstance(n, ast.BinOp) and isinstance(n.op, ast.Add) and isinstance(n.left, ast.Constant) \
                    and isinstance(n.left.value, str) and n.left.value.startswith("ins"):
                hits.append(n)
    return hits


def _writes_indel_table(funcs):
    hits = []
    for f in funcs:
        for n in ast.walk(f):
            tgts = []
            if isinstance(n, ast.Assign):
                tgts = n.targets
            elif isinstance(n, ast.AugAssign):
                tgts = [n.target]
            for t in tgts:
                for e in (t.elts if isinstance(t, ast.Tuple) else [t]):
                    s = ast.unparse(e)
                    if s.startswith("self._indel_sites[") or s == "self._indel_sites":
                        hits.append(n)
    return hits


def r1(repo, res):
    cov = repo.func("coverage::Coverage.__init__")
    res.analysed(cov)
    # precondition: the consumer drops parsed insertion observations when the indel table is non-empty
    drops = False
    for n in walk_local(cov):
        if isinstance(n, ast.If):
            t = ast.unparse(n.test)
            if "indel_coverage" in t and "startswith('ins')" in t:
                drops = True
    init = repo.func("sam::Sample.__init__")
    res.analysed(init)
    # what the constructor dispatches to, directly or through methods it delegates the dispatch to
    reach = _self_methods_called(repo, init)
    called = {c.func.attr for fn_ in reach for c in ast.walk(fn_) if isinstance(c, ast.Call) and isinstance(c.func, ast.Attribute)}   # nested readers included
    present = [l for l in LOADERS if l in called and repo.has_func(f"sam::Sample.{l}")]
    res.floor("C16.R1", "loaders dispatched by Sample.__init__", len(present), 5)

    def dispatcher(name):   # a `_load_*` method that only hands over to classified loaders is not a loader itself
        ref = f"sam::Sample.{name}"
        if not repo.has_func(ref):
            return False
        inner = {c.func.attr for c in calls_in(repo.func(ref)) if isinstance(c.func, ast.Attribute) and isinstance(c.func.value, ast.Name) and c.func.value.id == "self"}
        return bool(inner & set(LOADERS)) and not _emits_insertion([repo.func(ref)])

    extra = sorted(x for x in called if x.startswith("_load_") and x not in LOADERS and x != "_load_cn_region" and not dispatcher(x))
    if extra:
        res.err("C16.R1", f"unclassified loader(s) {extra}: classify in checks/c16.py before trusting R1")
    if not drops:
        res.note("C16.R1: Coverage.__init__ no longer drops parsed insertions when the indel table exists; "
                 "R1 is vacuous (insertion observations reach the model directly)")
    for l in present:
        f = repo.func(f"sam::Sample.{l}")
        res.analysed(f)
        closure = _self_methods_called(repo, f)
        ins = _emits_insertion(closure)
        wr = _writes_indel_table(closure)
        ok = (not drops) or (not ins) or bool(wr)
        if l == "_load_pscan" and not ok:
            res.note("C16.R1: _load_pscan emits insertion observations without indel-table bookkeeping "
                     "(same shape as the VCF loader; Pharmacoscan input is outside this property's quantifier)")
            continue
        res.ob("C16.R1", f, ins[0] if ins else f, ok,
               expected="a loader that emits insertion observations also fills self._indel_sites "
                        "(the consumer answers indel queries from that table and discards parsed 'ins*' ops)",
               found=("emits " + ", ".join(sorted({ast.unparse(i) for i in ins}))[:120] + "; " if ins else "no insertion ops; ")
                     + (f"{len(wr)} write(s) to _indel_sites" if wr else "never writes _indel_sites"),
               clause="every diploid genotype call whose alternate allele is a catalogued insertion gives that variant support",
               key="insertion observations without indel-table bookkeeping")


def r5(repo, res):
    """VCF / probe-table input: genotype() folded whole -- the structure stage is given the fixed two-copy structure, whatever
    the caller asked for, and the sample is loaded with that profile."""
    from checks._genotype import GenotypeModel, Scenario, events

    g = repo.func("genotype::genotype")
    res.analysed(g)
    gm = GenotypeModel(repo)
    for kind in ("vcf", "pscan"):
        for user_cn, prof in ((None, None), (None, "illumina"), (["1", "1", "1"], None)):
            try:
                k, v, trace, _ = gm.run(Scenario(kind=kind, avg_coverage=0.0, args=dict(output_file=None, cn_solution=user_cn, profile_name=prof)))
            except Unfoldable as e:
                res.err("C16.R5", f"genotype() outside the folding language: {e}")
                return
            ev_ = events(trace, "estimate_cn")
            sm = events(trace, "Sample")
            seen = ev_[0][5]["profile"].get("cn_solution") if ev_ else None
            at_load = sm[0][7].get("cn_solution") if sm and sm[0][7] else None
            ok = k == "return" and seen == ["1", "1"] and at_load == ["1", "1"]
            res.ob("C16.R5", g, g, ok,
                   expected=f"{kind} input (structure asked: {user_cn}, profile: {prof}): the run completes without a depth check and the stages see the two-copy structure ['1', '1']",
                   found=f"{k}; structure at load {at_load}, at the structure stage {seen}",
                   clause="VCF mode fixes the structure to two copies", key=f"two-copies|{kind}|{user_cn}|{prof}")


REF_SEQ = "ACGTTGCAACGG"  # reference bases at 0-based positions 100..111


class RefGene:
    _fold_ok = True
    chr = "22"
    name = "G"

    def __getitem__(self, i):
        if isinstance(i, slice):
            return "".join(self[j] for j in range(i.start, i.stop))
        return REF_SEQ[i - 100] if 100 <= i < 100 + len(REF_SEQ) else "N"

    def get_wide_region(self):
        return Obj(chr="22", start=100, end=112, samtools=lambda prefix="", **k: "r")


def vcf_record(pos0, ref, alts, gt):
    # pysam: `alleles` = (REF, ALT...), `alts` = the ALT alleles or None for a record without any
    return Obj(pos=pos0 + 1, ref=ref, alleles=tuple([ref] + list(alts)), alts=(tuple(alts) if alts else None), samples={"S": {"GT": tuple(gt)}})


def fold_records(f, records, multi=None, samples=("S",), sample_idx=0):
    """Sample._load_vcf folded whole on a variant-file stub holding `records`. The pseudo-read table is the routine's own
    (500 bases around the gene's wide region); only the gene's window 100..111 is reported."""
    from sa.fold import Lifted

    me = Obj(gene=RefGene(), _multi_sites=dict(multi or {}), _prefix="", name=None)
    vf = lambda path: Obj(header=Obj(contigs=["22"], samples=list(samples)), fetch=lambda region=None: list(records))  # noqa
    fn = Lifted(f, funcs={"pysam.VariantFile": vf, "chr_prefix": lambda c, names: "", "os.path.abspath": lambda q: q,
                          "defaultdict": collections.defaultdict})
    out = fn(me, "in.vcf.gz", sample_idx)
    if not (isinstance(out, tuple) and len(out) == 2):
        raise Raised(f"loader returned {type(out).__name__}")
    norm, muts = out
    return {p: len(norm.get(p, [])) for p in range(100, 112)}, {k: len(v) for k, v in muts.items() if v}


def r6(repo, res):
    f = repo.func("sam::Sample._load_vcf")
    base = {p: 20 for p in range(100, 112)}
    cases = [
        ("het substitution", [vcf_record(102, "G", ["T"], (0, 1))], None, {(102, "G>T"): 10}, {102: 10}),
        ("hom substitution", [vcf_record(103, "T", ["A"], (1, 1))], None, {(103, "T>A"): 20}, {103: 0}),
        ("phased het, alt first", [vcf_record(103, "T", ["A"], (1, 0))], None, {(103, "T>A"): 10}, {103: 10}),
        ("hom reference", [vcf_record(103, "T", ["A"], (0, 0))], None, {}, {}),
        ("het deletion (left-anchored record)", [vcf_record(103, "TTG", ["T"], (0, 1))], None, {(104, "delTG"): 10}, {104: 10}),
        ("nested deletions in one record, shorter one called", [vcf_record(103, "TTG", ["T", "TT"], (0, 2))], None, {(105, "delG"): 10}, {105: 10}),
        ("nested deletions in one record, both called", [vcf_record(103, "TTG", ["T", "TT"], (1, 2))], None, {(104, "delTG"): 10, (105, "delG"): 10},
         {104: 10, 105: 10}),
        ("two alternates 1/2", [vcf_record(106, "C", ["A", "T"], (1, 2))], None, {(106, "C>A"): 10, (106, "C>T"): 10}, {106: 0}),
        ("second alternate 0/2", [vcf_record(106, "C", ["A", "T"], (0, 2))], None, {(106, "C>T"): 10}, {106: 10}),
        ("REF differs from the gene reference", [vcf_record(107, "G", ["T"], (0, 1))], None, {(107, "A>G"): 10, (107, "A>T"): 10}, {107: 0}),
        ("REF differs from the gene reference, homozygous for it", [vcf_record(107, "G", ["T"], (0, 0))], None, {(107, "A>G"): 20}, {107: 0}),
        ("ALT equals the gene reference", [vcf_record(107, "G", ["A"], (0, 1))], None, {(107, "A>G"): 10}, {107: 10}),
        ("deletion whose record REF differs from the gene reference", [vcf_record(103, "TAG", ["T"], (0, 1))], None, {(104, "delTG"): 10}, {104: 10}),
        ("record without alternate allele (monomorphic site)", [vcf_record(102, "G", [], (0, 0))], None, {}, {}),
        ("half-missing genotype", [vcf_record(102, "G", ["T"], (None, 1))], None, {}, {}),
        ("fully missing genotype", [vcf_record(102, "G", ["T"], (None, None))], None, {}, {}),
        ("haploid genotype", [vcf_record(102, "G", ["T"], (1,))], None, {}, {}),
        ("tetraploid genotype", [vcf_record(102, "G", ["T"], (0, 0, 1, 1))], None, {}, {}),
        ("record at a position the gene has no base for", [vcf_record(98, "A", ["T"], (0, 1))], None, {}, {}),
        ("triploid genotype", [vcf_record(102, "G", ["T"], (0, 1, 1))], None, {}, {}),
        ("unrelated complex record", [vcf_record(102, "GT", ["AAA"], (0, 1))], None, {}, {}),
        ("catalogued allele sharing a record with an allele of another shape, genotype on the catalogued one", [vcf_record(102, "G", ["T", "TGA"], (0, 1))], None,
         {(102, "G>T"): 10}, {102: 10}),
        ("the same record, genotype on both alternates (the odd one is ignored, the other counts)", [vcf_record(102, "G", ["T", "TGA"], (1, 2))], None,
         {(102, "G>T"): 10}, {102: 10}),
        ("symbolic second alternate as in gVCF-derived files", [vcf_record(102, "G", ["T", "<NON_REF>"], (0, 1))], None, {(102, "G>T"): 10}, {102: 10}),
        ("substitution written with a shared leading base (multi-allelic padding)", [vcf_record(102, "GT", ["G", "GA"], (0, 2))], None,
         {(103, "T>A"): 10}, {103: 10}),
        ("deletion-insertion (other shape)", [vcf_record(102, "GTT", ["GA"], (0, 1))], None, {}, {}),
        ("insertion-deletion (other shape)", [vcf_record(102, "GT", ["GAAA"], (0, 1))], None, {}, {}),
        ("het insertion (left-anchored record)", [vcf_record(102, "G", ["GTT"], (0, 1))], None, {(103, "insTT"): 10}, {103: 10}),
        ("multi-nucleotide substitution, adjacent records", [vcf_record(108, "A", ["G"], (0, 1)), vcf_record(109, "C", ["T"], (0, 1))],
         {108: "AC>GT"}, {(108, "AC>GT"): 10}, {108: 10}),
        ("multi-nucleotide substitution, one record", [vcf_record(108, "AC", ["GT"], (0, 1))], {108: "AC>GT"}, {(108, "AC>GT"): 10}, {108: 10}),
    ]
    n = 0
    for label, recs, multi, want_muts, want_norm in cases:
        try:
            norm, muts = fold_records(f, recs, multi)
        except (Unfoldable,) as e:
            res.err("C16.R6", f"record loop of _load_vcf outside folding language: {e}")
            return
        except Raised as e:
            res.ob("C16.R6", f, f, False, expected=f"{label}: handled", found=f"raises {e.kind}",
                   clause="records of any other shape are ignored without failing the run", key=f"evidence:{label}")
            continue
        wn = dict(base)
        wn.update(want_norm)
        n += 1
        res.ob("C16.R6", f, f, muts == want_muts and norm == wn,
               expected=f"{label}: variant support {want_muts}, reference support changed at {want_norm}",
               found=f"variant support {muts}, reference support changed at { {p: c for p, c in norm.items() if c != 20} }",
               clause="support proportional to the number of alternate copies, reference support reduced accordingly; records whose REF differs "
                      "from the RefSeq-derived reference are re-expressed against it; other shapes ignored",
               key=f"evidence:{label}")
    res.count("C16.R6:sample records folded", n)
    # several samples in one file: the configured index selects the genotype column
    rec2 = Obj(pos=103, ref="G", alleles=("G", "T"), alts=("T",), samples={"S": {"GT": (0, 0)}, "T": {"GT": (1, 1)}, "U": {"GT": (0, 1)}})
    rows = {}
    try:
        for idx in (0, 1, 2, 3):
            try:
                rows[idx] = fold_records(f, [rec2], None, samples=("S", "T", "U"), sample_idx=idx)[1]
            except Raised as e:
                rows[idx] = f"raise {e.kind}"
    except Unfoldable as e:
        res.err("C16.R6", f"_load_vcf outside folding language: {e}")
        return
    okm = rows == {0: {}, 1: {(102, "G>T"): 20}, 2: {(102, "G>T"): 10}, 3: "raise AldyException"}
    res.ob("C16.R6", f, f, okm, expected="sample index 0/1/2 of a three-sample file reads that sample's genotype (0/0, 1/1, 0/1); index 3 is rejected with an error",
           found=str(rows), clause="turns the genotype of the selected sample ... into evidence", key="evidence:sample-index")
    # the constructor hands the configured sample index to the VCF loader and builds the evidence from what it returns
    from checks._sampleinit import fold_sample_init

    init_s = repo.func("sam::Sample.__init__")
    res.analysed(init_s)
    try:
        rows = {}
        for idx in (0, 2):
            k_, v_, calls, me_, tables = fold_sample_init(repo, "vcf", None, sample_idx=idx, path="/data/in.vcf.gz")
            lv = [c_ for c_ in calls if c_[0] == "_load_vcf"]
            mk = [c_ for c_ in calls if c_[0] == "_make_coverage"]
            rows[idx] = (k_, [tuple(c_[1]) + tuple(sorted(c_[2].items())) for c_ in lv], len(mk) == 1 and mk[0][1] == (tables["norm"], tables["muts"]),
                         [c_[0] for c_ in calls if c_[0].startswith("_load") and c_[0] != "_load_vcf"])
    except Unfoldable as e:
        res.err("C16.R6", f"Sample.__init__ outside the folding language: {e}")
        return
    okc = all(r_[0] == "return" and len(r_[1]) == 1 and r_[1][0][0] == "/data/in.vcf.gz" and idx in r_[1][0][1:] and r_[2] and not r_[3] for idx, r_ in rows.items())
    res.ob("C16.R6", init_s, init_s, okc,
           expected="VCF input: the constructor calls the VCF loader (only) with the path and the configured sample index, and builds the coverage from the tables it returns",
           found=str(rows), clause="When the input is a VCF, every diploid genotype call ... gives that variant support", key="evidence:constructor-route")
    # the consumer: an all-zero indel table entry must not shadow the evidence of a VCF deletion; a filled entry takes precedence;
    # a variant nobody observed has no support
    init = repo.func("coverage::Coverage.__init__")
    res.analysed(init)
    cov = repo.func("coverage::Coverage.coverage")
    res.analysed(cov)
    nodoc = lambda fn: [s_ for s_ in fn.body if not (isinstance(s_.value if isinstance(s_, ast.Expr) else None, ast.Constant))]  # noqa
    tables = [
        ("only unfilled entries", {(104, "delTG"): [0, 0], (90, "insA"): [0, 0]}, {(104, "delTG"): 10, (90, "insA"): 0, (105, "G>A"): 0, (104, "_"): 10}),
        ("a filled entry elsewhere", {(104, "delTG"): [0, 0], (90, "insA"): [3, 4]}, {(104, "delTG"): 10, (90, "insA"): 4, (105, "G>A"): 0, (104, "_"): 10}),
        ("no table", {}, {(104, "delTG"): 10, (90, "insA"): 0, (105, "G>A"): 0}),
    ]
    for label, table, want in tables:
        got = {}
        try:
            me = Obj()
            Evaluator({"self": me, "gene": "G", "profile": "P", "sam": "S", "coverage": {104: {"delTG": [1] * 10, "_": [1] * 10}},
                       "indel_coverage": dict(table), "cnv_coverage": {}}).run(nodoc(init))
            for (pos, op) in want:
                try:
                    k, v = Evaluator({"self": me, "mut": Obj(pos=pos, op=op)}).run(nodoc(cov))
                    got[pos, op] = v if k == "return" else f"{k}"
                except Raised as e:
                    got[pos, op] = f"raises {e.kind}"
        except (Unfoldable, Raised) as e:
            res.err("C16.R6", f"Coverage.__init__/coverage outside folding language: {e}")
            return
        res.ob("C16.R6", init, init, got == want,
               expected=f"indel table with {label}: support read back {want} (a deletion supported by VCF pseudo-reads keeps its support although the "
                        f"unfilled table lists it with zero counts; a filled entry takes precedence; an unobserved variant has none)",
               found=f"support read back: {got}", clause="indel support table takes precedence over parsed insertions only",
               key="zero-indel-entry" if label == "only unfilled entries" else f"indel-table:{label}")


def spec_evidence(rec):
    """Independent reading of the statement for one record: ({variant key: support}, {position: reference support})."""
    g = RefGene()
    p0 = rec.pos - 1
    called = sorted(a for a in rec.samples["S"]["GT"] if a is not None)
    muts, norm = {}, {}
    if len(called) != 2 or g[p0] == "N":
        return muts, norm

    def allele_op(i):
        if i == 0:
            if len(rec.ref) == 1 and rec.ref != g[p0]:
                return (p0, f"{g[p0]}>{rec.ref}")
            return None
        ref, alt = rec.ref, rec.alleles[i]
        off = 0
        while off < len(ref) and off < len(alt) and ref[off] == alt[off]:
            off += 1
        if len(ref) - off == 1 and len(alt) - off == 1:
            return None if alt[off] == g[p0 + off] else (p0 + off, f"{g[p0 + off]}>{alt[off]}")
        if len(ref) > len(alt) and len(alt) == off:
            return (p0 + off, "del" + g[p0 + off:p0 + len(ref)])
        if len(ref) < len(alt) and len(ref) == off:
            return (p0 + off, "ins" + alt[off:])
        return "ignore"

    for a in called:
        op = allele_op(a)
        if op is None or op == "ignore":
            continue
        muts[op] = muts.get(op, 0) + 10
        norm[op[0]] = norm.get(op[0], 20) - 10
    return muts, norm


def r7_exhaustive(repo, res):
    """Thorough tier: generated records (every genotype over two alternates, matching and mismatching REF, substitutions,
    deletions, insertions) folded through the lifted record loop and compared with the independent reading."""
    from sa.report import thorough

    if not thorough():
        return
    import itertools

    f = repo.func("sam::Sample._load_vcf")
    gts = [g_ for g_ in itertools.product((0, 1, 2, None), repeat=2)] + [(0, 1, 1), (1,), ()]
    shapes = []
    for p0 in (102, 105, 107):
        b = REF_SEQ[p0 - 100]
        others = [x for x in "ACGT" if x != b]
        shapes.append((p0, b, [others[0], others[1]]))            # two substitutions
        shapes.append((p0, others[2], [others[0], b]))             # REF differs from the gene reference; second ALT is the gene base
        shapes.append((p0, REF_SEQ[p0 - 100:p0 - 97], [b, b + "GG"]))  # deletion of two bases; unrelated complex allele
        shapes.append((p0, b, [b + "TT", others[0]]))              # insertion and substitution
        shapes.append((p0, REF_SEQ[p0 - 100:p0 - 97], [b, REF_SEQ[p0 - 100:p0 - 98]]))  # nested deletions: two bases and one base
    n = 0
    bad = None
    for (p0, ref, alts), gt in itertools.product(shapes, gts):
        if any(a is not None and a > len(alts) for a in gt):
            continue
        rec = vcf_record(p0, ref, alts, gt)
        try:
            norm, muts = fold_records(f, [rec])
        except Unfoldable as e:
            res.err("C16.R7", f"record loop outside folding language: {e}")
            return
        except Raised as e:
            bad = bad or f"record {p0 + 1} {ref}>{alts} GT={gt}: raises {e.kind}"
            continue
        wm, wn = spec_evidence(rec)
        wnorm = {p: 20 for p in range(100, 112)}
        wnorm.update(wn)
        n += 1
        if muts != wm or norm != wnorm:
            bad = bad or (f"record POS={p0 + 1} REF={ref} ALT={alts} GT={gt}: variant support {muts}, reference support "
                          f"{ {p: c for p, c in norm.items() if c != 20} }; expected {wm} / {wn}")
    res.count("C16.R7:records enumerated", n)
    res.ob("C16.R7", f, f, bad is None,
           expected="evidence of every generated record equals the independent reading of the statement",
           found=f"{n} records agree" if bad is None else bad,
           clause="support proportional to the number of alternate copies ... reduces the reference support at that site accordingly",
           key="exhaustive-records")


def run(repo, res):
    r7_exhaustive(repo, res)
    r6(repo, res)
    r1(repo, res)
    r5(repo, res)


MUTANTS = [
    dict(name="R2 original defect (None test removed)", module="sam", expect=["C16.R6", "C16.R7"],
         old='                    if op is None or op == "_":', new='                    if op == "_":'),
    dict(name="R2 None test after the store", module="sam", expect=["C16.R6", "C16.R7"],
         old='''                    if op is None or op == "_":
                        continue
                    muts[pos, op] += [(40, 40)] * 10''',
         new='''                    if op == "_":
                        continue
                    muts[pos, op] += [(40, 40)] * 10
                    if op is None:
                        continue'''),
    dict(name="R3 arity guard accepts haploid", module="sam", expect=["C16.R6", "C16.R7"],
         old="if len(g) != 2 or self.gene[read.pos - 1] == \"N\":", new="if len(g) > 2 or self.gene[read.pos - 1] == \"N\":"),
    dict(name="R3 arity guard removed", module="sam", expect=["C16.R6", "C16.R7"],
         old="if len(g) != 2 or self.gene[read.pos - 1] == \"N\":", new="if self.gene[read.pos - 1] == \"N\":"),
    dict(name="R3 'and' instead of 'or'", module="sam", expect=["C16.R6", "C16.R7"],
         old="if len(g) != 2 or self.gene[read.pos - 1] == \"N\":", new="if len(g) != 2 and self.gene[read.pos - 1] == \"N\":"),
    dict(name="R3 missing alleles kept", module="sam", expect=["C16.R6", "C16.R7"],
         old='g = sorted(y for y in read.samples[sample]["GT"] if y is not None)',
         new='g = sorted(y or 0 for y in read.samples[sample]["GT"])'),
    dict(name="R4 reference not reduced", module="sam", expect=["C16.R6", "C16.R7"],
         old="                    norm[pos] = norm[pos][:-10]\n                    dump_arr[pos] = op",
         new="                    dump_arr[pos] = op"),
    dict(name="R4 reduces 5 per copy", module="sam", expect=["C16.R6", "C16.R7"],
         old="                    norm[pos] = norm[pos][:-10]\n                    dump_arr", new="                    norm[pos] = norm[pos][:-5]\n                    dump_arr"),
    dict(name="R4 baseline 10", module="sam", expect=["C16.R6", "C16.R7"],
         old="""        norm = {
            p: [(40, 40)] * 20
            for p in range(
                self.gene.get_wide_region().start - 500,
                self.gene.get_wide_region().end + 1,
            )
        }
        muts: dict = defaultdict(list)

        def get_mut""", new="""        norm = {
            p: [(40, 40)] * 10
            for p in range(
                self.gene.get_wide_region().start - 500,
                self.gene.get_wide_region().end + 1,
            )
        }
        muts: dict = defaultdict(list)

        def get_mut"""),
    dict(name="R4 ALT index shifted", module="sam", expect=["C16.R6", "C16.R7"],
         old="for a in read.alleles[1:]]", new="for a in read.alleles]"),
    # equivalent: the position of the reference entry is never read (the entry is skipped)
    dict(name="benign: position of the reference entry", module="sam", kind="benign",
         old="hgvs = [(read.pos - 1, \"_\")]", new="hgvs = [(read.pos, \"_\")]"),
    dict(name="R5 VCF route takes user structure", module="genotype", expect="C16.R5",
         old='profile = Profile("user_provided", cn_solution=["1", "1"], **params)',
         new='profile = Profile("user_provided", cn_solution=cn_solution or ["1", "1"], **params)'),
    dict(name="R1 second loader starts emitting insertions without bookkeeping (dump)", module="sam", expect="C16.R1",
         old="            self._fusion_counter,\n            self._indel_sites,\n        ) = pickle.load(",
         new="            self._fusion_counter,\n            _unused,\n        ) = pickle.load(\n            fd\n        )\n        muts[0, \"ins\" + self.name] = []\n        _ = (",
         ),
    dict(name="R6 constructor always reads the first sample", module="sam", expect="C16.R6",
         old="path, profile.vcf_sample_idx if profile else 0", new="path, 0"),
    dict(name="R6 padded substitution of a multi-allelic record dropped", module="sam", expect="C16.R6",
         old="            if len(ref) - off == 1 and len(alt) - off == 1:", new="            if len(ref) == 1 and len(alt) == 1:"),
    dict(name="R6 deletion-insertion taken for a deletion", module="sam", expect="C16.R6",
         old="            elif len(ref) > len(alt) and len(alt) - off == 0:", new="            elif len(ref) > len(alt):"),
    dict(name="R6 unobserved variant reads as one observation", module="coverage", expect="C16.R6",
         old="            return len(self._coverage[mut.pos][mut.op])\n        else:\n            return 0", new="            return len(self._coverage[mut.pos][mut.op])\n        else:\n            return 1"),
    dict(name="R6 indel table consulted for every key", module="coverage", expect="C16.R6",
         old="        if self._indels and (mut.pos, mut.op) in self._indels:\n            return self._indels[mut.pos, mut.op][1]", new="        if self._indels:\n            return self._indels.get((mut.pos, mut.op), (0, 0))[1]"),
    dict(name="R6 alternates read from `alts` (None for a monomorphic record; seeded C16_c3 shape)", module="sam", expect="C16.R6",
         old="for a in read.alleles[1:]]", new="for a in read.alts]"),
    dict(name="R6 a record with one allele of another shape is dropped whole (seeded C16_b3 shape)", module="sam", expect="C16.R6",
         edits=[("                for gt in g:\n                    pos, op = hgvs[gt]\n                    if op is None or op == \"_\":",
                 "                if any(op is None for _, op in hgvs):\n                    continue\n                for gt in g:\n                    pos, op = hgvs[gt]\n                    if op == \"_\":")]),
    dict(name="R6 op spelled from the record's REF (seeded C16_1 shape)", module="sam", expect="C16.R6",
         old='                return off + pos, f"{self.gene[off + pos]}>{alt[off]}"', new='                return off + pos, f"{ref[off]}>{alt[off]}"'),
    dict(name="R6 zero indel entries shadow VCF deletions (seeded C16_4 shape)", module="coverage", expect=["C16.R6"],
         old="            self._indels = {k: (n, y) for k, (n, y) in indel_coverage.items() if y}",
         new="            self._indels = {k: (n, y) for k, (n, y) in indel_coverage.items()}"),
    dict(name="R6 deletion keyed at the anchor base", module="sam", expect="C16.R6",
         old='                return off + pos, f"del{self.gene[off + pos : pos + len(ref)]}"', new='                return pos, f"del{self.gene[off + pos : pos + len(ref)]}"'),
    # benign
    dict(name="benign: `not op` test", module="sam", kind="benign",
         old='                    if op is None or op == "_":', new='                    if not op or op == "_":'),
    dict(name="benign: separate None test", module="sam", kind="benign",
         old='                    if op is None or op == "_":\n                        continue',
         new='                    if op is None:\n                        continue\n                    if op == "_":\n                        continue'),
    dict(name="benign: arity guard as two ifs", module="sam", kind="benign",
         old="""                if len(g) != 2 or self.gene[read.pos - 1] == "N":
                    continue  # ignore polyploid and incomplete cases""",
         new="""                if len(g) != 2:
                    continue
                if self.gene[read.pos - 1] == "N":
                    continue"""),
]
