"""
The minor-allele model builder (minor.solve_minor_model) folded whole against the recording library (sa.lpmodel).

Two views are taken of one built model:
  * the **report**: what the routine returns through the wrapper's real `solutions()` loop (with max_solutions), and
  * the **admitted set**: every assignment the model admits, translated by the routine's *own* read-out loop -- for this the
    wrapper instance is given a `solutions` that walks all feasible points of the recorded model (exhaustive enumeration,
    best first) instead of cutting; no variable of the model has to be identified by name.
An independent reference enumerates the assignments the statement admits and their objective.
"""

import collections
import itertools

from sa.fold import Lifted, Obj, Raised, Rec, Unfoldable  # noqa: F401
from sa.lpmodel import new_model, wrapper_model


class Mut(collections.namedtuple("Mutation", ["pos", "op"])):
    def __str__(self):
        return f"{self.pos + 1}.{self.op}"


def rdd():
    return collections.defaultdict(rdd)


class SA(Rec):
    """Stands for solutions.SolvedAllele (value equality; printable like the original)."""

    def __str__(self):
        extra = "".join(" +" + str(m) for m in sorted(self.added))
        miss = "".join(" -" + str(m) for m in sorted(self.missing))
        s = f"{self.minor if self.minor else self.major}{extra}{miss}"
        return f"*({s})" if extra or miss else f"*{s}"


def make_sa(gene=None, major=None, minor="", added=None, missing=None):
    return SA(major=major, minor=minor, added=list(added or []), missing=list(missing or []))


class MinorSol:
    _fold_ok = True

    def __init__(self, score=None, solution=None, major_solution=None, profile=None):
        self.score, self.solution, self.major_solution, self.profile = score, solution, major_solution, profile
        self.diplotype = ([], [])

    def _solution_nice(self):
        return ", ".join(str(s) for s in sorted(self.solution, key=lambda x: x.minor))

    def __str__(self):
        return f"MinorSol[{self.score:.2f}; sol=({self._solution_nice()}); major={self.major_solution.label}"

    def get_minor_diplotype(self, legacy=False):
        return self._solution_nice()

    def key(self):
        return tuple(sorted((s.major, s.minor, tuple(sorted(s.added)), tuple(sorted(s.missing))) for s in self.solution))


class Instance:
    """catalogue: {major: (core variants, {minor: silent variants})}; called: {major: copies}; reads: {variant or (pos,'_'): reads};
    copies_at: {pos: gene copies there} (default = total copies); no_cov: {(major, pos)} positions a (fusion) allele has no copy of;
    functional: variants that alter function (core variants of the catalogue are functional)."""

    def __init__(self, catalogue, called, reads, considered=None, no_cov=(), copies_at=None, functional=(), miss=1.5, add=1.0, phases=None,
                 phase_w=0.4, phase_on=True):
        self.catalogue, self.called, self.reads = catalogue, dict(called), dict(reads)
        self.no_cov, self.copies_at = set(no_cov), dict(copies_at or {})
        self.miss, self.add, self.phase_w = miss, add, phase_w
        self.phases = phases
        self.phase_on = phase_on      # the profile's `phase` switch: read groups are ignored when it is off
        own = {m for core, minors in catalogue.values() for m in list(core) + [x for ms in minors.values() for x in ms]}
        self.mutations = sorted(own | set(considered or ()))
        self.functional = set(functional) | {m for core, _ in catalogue.values() for m in core}
        self.total = sum(self.called.values())

    def position_cn(self, pos):
        return self.copies_at.get(pos, self.total)

    def single_copy(self, m):
        pos = m if isinstance(m, int) else m[0]
        cn = self.position_cn(pos)
        if cn == 0:
            return 0
        tot = sum(v for k, v in self.reads.items() if k[0] == pos and not k[1].startswith("ins"))
        return max(1, tot) / cn

    def obs(self, m):
        sc = self.single_copy(m)
        return self.reads.get(m, 0) / sc if sc > 0 else 0

    def describe(self):
        cat = {k: ([str(m) for m in core], {mi: [str(m) for m in ms] for mi, ms in minors.items()}) for k, (core, minors) in self.catalogue.items()}
        return f"catalogue {cat}, called {self.called}, reads {{{', '.join(f'{k}: {v}' for k, v in self.reads.items())}}}"


def fold_solve_minor(repo, inst: Instance, mode, max_solutions=1, wrapper=None):
    """mode 'report' -> the routine's own result; mode 'all' -> every assignment the built model admits (through the routine's
    read-out). -> ('return', [MinorSol]) | ('raise', text)"""
    f = repo.func("minor::solve_minor_model")
    wrapper = wrapper or wrapper_model(repo)
    libs = []

    def mk(name, solver):
        m, lib = new_model(wrapper, name, int_limit=60)
        libs.append(lib)
        if mode == "all":
            def every_point(*a, **k):
                pts = lib.enumerate()
                for obj, val in pts:
                    for v in lib.vars:
                        v.value = val.get(v, 0.0)
                    lib.best = obj
                    yield ("optimal", obj, tuple(sorted(v.name() for v in lib.integer_vars() if v.vtype == "B" and val.get(v) == 1)))
            m.__dict__["solutions"] = every_point
        return m

    alleles = {k: Obj(func_muts=set(core), minors={mi: Obj(neutral_muts=set(ms), alt_name=None) for mi, ms in minors.items()}, cn_config="1")
               for k, (core, minors) in inst.catalogue.items()}
    gene = Obj(name="G", alleles=alleles, has_coverage=lambda a, pos: (a, pos) not in inst.no_cov,
               is_functional=lambda m, infer=True: Mut(*m) in inst.functional, get_rsid=lambda m, default=True: str(Mut(*m)))
    cn = Obj(solution={"1": inst.total}, position_cn=inst.position_cn, max_cn=lambda: inst.total)
    major_sol = Obj(solution=collections.Counter({make_sa(None, k): n for k, n in inst.called.items()}), cn_solution=cn, added=[], label="M",
                    _solution_nice=lambda: "M", score=0.0)
    alleles_list = [make_sa(None, k, mi) for k in inst.catalogue for mi in inst.catalogue[k][1]]

    class Cov:
        _fold_ok = True
        profile = Obj(minor_miss=inst.miss, minor_add=inst.add, minor_phase=inst.phase_w, phase=bool(inst.phases) and inst.phase_on, minor_phase_vars=3000, cn_max=20)
        sam = Obj(phases=dict(inst.phases)) if inst.phases else None

        def __getitem__(self, m):
            return inst.reads.get(Mut(*m), 0)

        def single_copy(self, m, cn_solution):
            return inst.single_copy(m if isinstance(m, int) else Mut(*m))

    fn = Lifted(f, funcs={"lpinterface.model": mk, "Mutation": Mut, "SolvedAllele": make_sa, "MinorSolution": MinorSol, "_print_phase": lambda *a: None,
                          "estimate_diplotype": lambda g, s_: ([], []), "Timing": lambda *a: Obj(), "collections.defaultdict": collections.defaultdict},
                env={"json": rdd(), "os.environ": {}})
    try:
        out = fn(gene, Cov(), major_sol, alleles_list, set(inst.mutations), "any", max_solutions)
    except Raised as r:
        return "raise", str(r)
    return "return", list(out)


# -- the documented model, read independently ---------------------------------------------------------------------------
def reference(inst: Instance):
    """{assignment key: objective} for every assignment the documented rules admit. An assignment gives every called copy one
    catalogued minor allele of its major allele, the definition variants it keeps and the considered variants it gains."""
    per_major = []
    muts = inst.mutations
    for k, n in sorted(inst.called.items()):
        core, minors = inst.catalogue[k]
        options = []
        for mi, silent in sorted(minors.items()):
            definition = sorted(set(core) | set(silent))
            must_keep = [m for m in definition if m in inst.functional]                      # rule 2: core variants are never dropped
            cannot_keep = [m for m in definition if (k, m.pos) in inst.no_cov]                # rule 3: no copies at that position
            if set(must_keep) & set(cannot_keep):
                continue
            free = [m for m in definition if m not in must_keep and m not in cannot_keep]
            addable = [m for m in muts if m not in definition and (k, m.pos) not in inst.no_cov]
            for r in range(len(free) + 1):
                for kept_free in itertools.combinations(free, r):
                    kept = tuple(sorted(set(must_keep) | set(kept_free)))
                    for r2 in range(len(addable) + 1):
                        for added in itertools.combinations(addable, r2):
                            carried = list(kept) + list(added)
                            pos_count = collections.Counter(m.pos for m in carried)
                            if any(c > 1 for c in pos_count.values()):                       # rule 4: one variant per position and allele
                                continue
                            options.append((mi, kept, tuple(added), tuple(m for m in definition if m not in kept), tuple(definition), tuple(addable)))
        per_major.append((k, n, options))
    out = {}
    for choice in itertools.product(*[list(itertools.combinations_with_replacement(range(len(opts)), n)) for _, n, opts in per_major]):
        copies = []
        for (k, n, opts), idxs in zip(per_major, choice):
            for i in idxs:
                copies.append((k,) + opts[i])
        carriers = collections.Counter(m for c in copies for m in list(c[2]) + list(c[3]))
        ok = True
        strict = True
        for m in muts:                                                                       # rule 5
            if inst.position_cn(m.pos) == 0 or inst.reads.get(m, 0) == 0:
                ok = ok and carriers[m] == 0
            else:
                ok = ok and 1 <= carriers[m]
                strict = strict and carriers[m] <= inst.reads[m]                             # (optional strengthening: a read for every carried copy)
        if not ok:
            continue
        positions = sorted({m.pos for m in muts})
        for p in positions:                                                                  # rule 6
            slots = 0
            mx = 0
            for c in copies:
                here = [m for m in list(c[5]) + list(c[6]) if m.pos == p]
                mx_all = len(here)
                carried_here = sum(1 for m in list(c[2]) + list(c[3]) if m.pos == p)
                slots += mx_all - carried_here
                mx = max(mx, mx_all)
            # the bound uses the largest per-allele count over *all* candidate alleles; candidates of the called majors suffice here
            cand_mx = 0
            for k, (core, minors) in inst.catalogue.items():
                for mi, silent in minors.items():
                    definition = set(core) | set(silent)
                    n_here = sum(1 for m in definition if m.pos == p) + sum(1 for m in muts if m not in definition and m.pos == p and (k, p) not in inst.no_cov)
                    cand_mx = max(cand_mx, n_here)
            if slots == 0 and cand_mx == 0:
                continue
            if inst.position_cn(p) == 0:
                strict = strict and slots <= 0                                               # (optional strengthening)
            else:
                strict = strict and slots <= max(inst.position_cn(p), inst.reads.get(Mut(p, "_"), 0), cand_mx)
        # objective
        err = sum(abs(inst.obs(m) - carriers[m]) for m in muts)
        for p in positions:
            refc = 0
            for c in copies:
                if (c[0], p) in inst.no_cov:
                    continue
                refc += 1 - sum(1 for m in list(c[2]) + list(c[3]) if m.pos == p and not m.op.startswith("ins"))
            err += abs(inst.obs(Mut(p, "_")) - refc)
        dropped = sum(len(c[4]) for c in copies)
        added = sum(len(c[3]) for c in copies)
        novel = {m for c in copies for m in c[3] if m in inst.functional and m not in inst.catalogue[c[0]][0]}
        score = err + inst.miss * dropped + inst.add * added + inst.add / 2 * len(novel)
        if inst.phases and inst.phase_on:                                                    # rule 7: each read group is explained by one called copy
            mut_pos = {m.pos for m in muts}
            modes = collections.Counter()
            for rv in inst.phases.values():
                c_ = tuple(sorted((k_, v_) for k_, v_ in rv.items() if k_ in mut_pos))
                if len(c_) > 1:
                    modes[c_] += 1
            for mode, cnt in modes.items():
                r = dict(mode)
                best = None
                for c in copies:
                    here = [m for m in muts if m.pos in r and (c[0], m.pos) not in inst.no_cov]
                    if len(here) < 2:
                        continue
                    carried = set(c[2]) | set(c[3])
                    e = sum(1 for m in here if m.op == r[m.pos] and m not in carried) + sum(1 for m in here if m.op != r[m.pos] and m in carried)
                    best = e if best is None else min(best, e)
                if best is None:
                    any_candidate = any(len([m for m in muts if m.pos in r and (k_, m.pos) not in inst.no_cov]) >= 2 for k_ in inst.catalogue)
                    if any_candidate:
                        ok = False
                    continue
                score += inst.phase_w * cnt * best
            if not ok:
                continue
        key = tuple(sorted((c[0], c[1], tuple(sorted(c[3])), tuple(sorted(c[4]))) for c in copies))
        if key not in out or score < out[key][0]:
            out[key] = (score, strict)
    return out
