"""
C08 -- a catalogued variant denotes the same haplotype in every coordinate system.

Decided, by lifting the loader's coordinate code and folding it on generated sample genes (both
strands, gap-free and gapped alignment strings, every variant kind at several positions):
(R1/R2) applying the variant as loaded to the genome-oriented reference and orienting to the
gene's strand gives exactly the sequence obtained by applying the variant as written to the RefSeq
sequence; (R3) the position maps are mutually inverse and agree with the alignment string, and the
genome-oriented lookup sequence agrees with the maps; (R4) the stored notation read back by
get_refseq / get_rsid / get_functional is the notation written in the database, and the reverse
conversion inverts the forward one; (R5) the indel-realignment bridge hands over reference-true
alleles and keys insertions / deletions where the read parser looks them up.
Not decided: that the shipped databases' reference alleles match the reference (data).
"""

import ast
import collections
import itertools

from checks._reads import fn_body
from sa.fold import Evaluator, Obj, Raised, Unfoldable, module_consts
from sa.loader import AnalysisError, call_name, calls_in, walk_local

PROPERTY = "C08"
EXPLANATION = (
    "Lifted fragments folded on a generated sample domain: Gene._init_basic on 8 (strand x alignment string) mappings "
    "-> inverse-map and lookup-sequence obligations against an independent reading of the alignment string; the nested "
    "converter process_mutation of Gene._init_alleles on every variant kind (substitution, multi-nucleotide substitution, "
    "insertion, deletion, deletion-insertion) x positions x both strands -> sequence-level haplotype equality; "
    "get_refseq / get_rsid / get_functional / _reverse_op on the stored tuples; the head of Sample._realign_indels with a "
    "recording Variant stub -> reference-true alleles and the equivalent-key convention used by _parse_read; the same routine on a "
    "repeat-rich reference where every equivalent placement (brute force over the reference) must be registered under the parser's key for that "
    "placement; every slice of Gene.__getitem__ around the ends of the lookup range. Class-level attributes are shared by the folds of a run."
)
ASSUMPTIONS = ["catalogue convention: an insertion at position p is placed after base p (database and genome side alike)",
               "read-side convention: an inserted run is keyed at the next reference position (C06 table)"]

SEQ = "ACGGTCATTGCAGCTAGGCTTACGATCCGTAAGCTTGGAC"
START1 = 1001  # 1-based genome start of the mapping
COMP = {"A": "T", "T": "A", "C": "G", "G": "C"}
Mut = collections.namedtuple("Mutation", ["pos", "op"])


def rc(s):
    return "".join(COMP.get(x, x) for x in reversed(s))


def spec_maps(cigar, strand):
    """Independent reading of the alignment string: (chr_to_ref, ref_to_chr, genome length)."""
    c2r, r2c = {}, {}
    pr = 0 if strand > 0 else len(SEQ) - 1
    pc = START1 - 1
    for tok in cigar.split():
        op, n = tok[0], int(tok[1:])
        if op == "M":
            for i in range(n):
                c2r[pc + i] = pr + i * strand
                r2c[pr + i * strand] = pc + i
            pc += n
            pr += n * strand
        elif op == "I":
            pr += n * strand
        elif op == "D":
            pc += n
    return c2r, r2c, pc - (START1 - 1)


CIGARS = ["M40", "M10 I2 M12 D3 M16", "M5 D4 M35", "M30 I3 M7"]


def alignment_strings():
    """Quick: four fixed strings. Thorough: plus seeded random strings consuming exactly the 40 RefSeq bases."""
    import random

    from sa.report import seed, thorough

    out = list(CIGARS)
    if thorough():
        rnd = random.Random(seed())
        for _ in range(24):
            left, toks = len(SEQ), []
            while left > 0:
                m = min(left, rnd.randint(1, 12))
                toks.append(f"M{m}")
                left -= m
                if left > 0:
                    if rnd.random() < 0.5:
                        i = min(left - 1, rnd.randint(1, 3)) if left > 1 else 0
                        if i:
                            toks.append(f"I{i}")
                            left -= i
                    else:
                        toks.append(f"D{rnd.randint(1, 4)}")
            if toks[-1][0] != "M":
                toks.pop()
            out.append(" ".join(toks))
    return out


def yml_for(strand, cigar):
    glen = spec_maps(cigar, 1 if strand == "+" else -1)[2]
    return {"name": "G", **_yml_rest(strand, cigar, glen)}


PATCHED = (7, 31)  # 0-based RefSeq positions whose base in the raw database sequence is wrong and corrected by reference:patches


def raw_seq():
    raw = list(SEQ)
    for p in PATCHED:
        raw[p] = COMP[SEQ[p]]
    return "".join(raw)


def _yml_rest(strand, cigar, glen):
    raw = raw_seq()
    return {"version": "1", "generated": "x", "pharmvar": None, "ensembl": None,
            "reference": {"name": "NG_1", "seq": raw[:20] + "\n" + raw[20:], "mappings": {"hg19": ["1", START1, START1 + glen, strand, cigar]},
                          "patches": [[p + 1, SEQ[p]] for p in PATCHED], "exons": [[5, 20]]}}


def fold_init_basic(repo, strand, cigar):
    f = repo.func("gene::Gene._init_basic")
    consts = module_consts(repo.mod("common"))
    rcf = repo.func("common::rev_comp")

    def rev_comp(s):
        k, v = Evaluator({"seq": s}, consts=consts).run(fn_body(rcf))
        if k != "return":
            raise Raised(str(v))
        return v

    me = Obj(genome="hg19")
    ev = Evaluator({"self": me, "yml": yml_for(strand, cigar)}, funcs={"rev_comp": rev_comp, "seq_to_amino": lambda s: ""})
    kind, val = ev.run(fn_body(f))
    if kind == "raise":
        raise Raised(val)
    return me, rev_comp


def me_arg(fn):
    """Name of the first parameter after `self`."""
    return fn.args.args[1].arg


def r3(repo, res):
    f = repo.func("gene::Gene._init_basic")
    gi = repo.func("gene::Gene.__getitem__")
    res.analysed(f, gi)
    n = 0
    for strand, cigar in itertools.product("+-", alignment_strings()):
        s = 1 if strand == "+" else -1
        try:
            me, _ = fold_init_basic(repo, strand, cigar)
        except Unfoldable as e:
            res.err("C08.R3", f"Gene._init_basic outside folding language: {e}")
            return
        except Raised as e:
            res.ob("C08.R3", f, f, False, expected=f"strand {strand}, alignment '{cigar}': maps are built", found=f"raises {e.kind}",
                   key=f"maps:{strand}:{cigar}")
            continue
        c2r, r2c, glen = spec_maps(cigar, s)
        inv = all(me.ref_to_chr.get(me.chr_to_ref[c]) == c for c in me.chr_to_ref) and \
            all(me.chr_to_ref.get(me.ref_to_chr[r]) == r for r in me.ref_to_chr)
        agree = me.chr_to_ref == c2r and me.ref_to_chr == r2c and me.strand == s and me.seq == SEQ  # SEQ = raw sequence with the patches applied
        n += 1
        res.ob("C08.R3", f, f, inv and agree,
               expected=f"strand {strand}, alignment '{cigar}': position maps mutually inverse and equal to the alignment string's reading",
               found="ok" if inv and agree else f"inverse: {inv}; equal to specification: {agree}",
               clause="the genome/RefSeq position maps are mutually inverse", key=f"maps:{strand}:{cigar}")
        # genome-oriented lookup sequence agrees with the maps
        lo, hi = me._lookup_range
        want = "".join((SEQ[c2r[c]] if s > 0 else COMP[SEQ[c2r[c]]]) if c in c2r else "N" for c in range(lo, hi))
        ok = (lo, hi) == (START1 - 1, START1 - 1 + glen) and me._lookup_seq == want
        res.ob("C08.R3", f, f, ok,
               expected=f"strand {strand}, alignment '{cigar}': lookup[c] = RefSeq base at chr_to_ref[c] (complemented on the reverse strand), N where unmapped",
               found="ok" if ok else f"range {(lo, hi)}; first difference at offset "
                                     f"{next((i for i, (a, b) in enumerate(zip(me._lookup_seq, want)) if a != b), None)}",
               clause="applying the variant as loaded to the genome-oriented reference", key=f"lookup:{strand}:{cigar}")
        # accessor
        try:
            vals = []
            for i in (lo - 1, lo, lo + 7, hi - 1, hi):
                k, v = Evaluator({"self": me, "i": i}).run(fn_body(gi))
                vals.append(v)
            k, sl = Evaluator({"self": me, "i": slice(lo - 2, lo + 3)}).run(fn_body(gi))
            okg = vals == ["N", want[0], want[7], want[-1], "N"] and sl == "NN" + want[:3]
            # every slice around the two ends of the lookup range (and across it) reads base by base what single positions read
            edge = [lo - 3, lo - 1, lo, lo + 1, lo + 5, hi - 2, hi - 1, hi, hi + 1, hi + 3]
            for a_ in edge:
                for b_ in edge:
                    if a_ > b_:
                        continue
                    k, got_ = Evaluator({"self": me, "i": slice(a_, b_)}).run(fn_body(gi))
                    spec_ = "".join(want[c_ - lo] if lo <= c_ < hi else "N" for c_ in range(a_, b_))
                    if got_ != spec_ and okg:
                        okg = False
                        sl = f"gene[{a_ - lo:+d}:{b_ - lo:+d}] relative to the range start = {got_!r}, expected {spec_!r}"
        except (Unfoldable, Raised) as e:
            res.err("C08.R3", f"Gene.__getitem__ outside folding language: {e}")
            return
        res.ob("C08.R3", gi, gi, okg, expected="gene[i] / gene[i:j] read the lookup sequence at genome positions, N outside", found=f"{vals} / {sl}",
               key=f"getitem:{strand}:{cigar}")
        # membership: a genome position is "in" the gene exactly if it has a RefSeq counterpart
        gc = repo.func("gene::Gene.__contains__")
        res.analysed(gc)
        try:
            wrong = [c_ for c_ in range(lo - 2, hi + 2)
                     if bool(Evaluator({"self": me, me_arg(gc): c_}).run(fn_body(gc))[1]) != (c_ in me.chr_to_ref)]
        except (Unfoldable, Raised) as e:
            res.err("C08.R3", f"Gene.__contains__ outside folding language: {e}")
            return
        res.ob("C08.R3", gc, gc, not wrong, expected="`position in gene` holds exactly for the genome positions that have a RefSeq counterpart",
               found="agrees" if not wrong else f"differs at genome positions {wrong[:5]}", clause="the genome/RefSeq position maps are mutually inverse",
               key=f"contains:{strand}:{cigar}")
    res.count("C08.R3:mappings folded", n)


def apply_variant(seq, p, op):
    """Apply `op` at 0-based index p of `seq` (catalogue convention: insertion goes after base p)."""
    if ">" in op:
        l, r = op.split(">")
        if seq[p:p + len(l)] != l:
            return None
        return seq[:p] + r + seq[p + len(l):]
    if op.startswith("ins"):
        return seq[:p + 1] + op[3:] + seq[p + 1:]
    if op.startswith("del"):
        if "ins" in op[3:]:
            d, i = op[3:].split("ins")
        else:
            d, i = op[3:], ""
        if seq[p:p + len(d)] != d:
            return None
        return seq[:p] + i + seq[p + len(d):]
    return None


def sample_variants():
    from sa.report import thorough

    out = []
    positions = range(2, 38) if thorough() else (3, 11, 24, 37)
    for p in positions:  # 1-based RefSeq positions
        b = SEQ[p - 1]
        alt = {"A": "C", "C": "G", "G": "T", "T": "A"}[b]
        out.append((p, f"{b}>{alt}"))
        mn = SEQ[p - 1:p + 2]
        out.append((p, f"{mn}>{rc(mn)[::-1][::-1].translate(str.maketrans('ACGT', 'CATG'))}"))
        out.append((p, "insGA"))
        out.append((p, "insT"))
        out.append((p, f"del{SEQ[p - 1:p + 1]}"))
        out.append((p, f"del{SEQ[p - 1]}"))
        out.append((p, f"del{SEQ[p - 1:p + 2]}insTT"))
        out.append((p, f"del{SEQ[p - 1:p + 1]}insGCA"))
    return out


def converter(repo):
    f = repo.func("gene::Gene._init_alleles")
    # the nested routine that turns a database row into Mutation records (by role, not by name): it builds Mutation(...) from a row
    # (allele, position, change, annotation); a generator or a function returning the record (or None)
    pm = [n for n in f.body if isinstance(n, ast.FunctionDef) and any(isinstance(c, ast.Call) and call_name(c) == "Mutation" for c in ast.walk(n))
          and len(n.args.args) >= 3]
    if len(pm) != 1:
        raise AnalysisError("nested variant converter (a routine building Mutation records from a database row) not found in Gene._init_alleles")
    return f, pm[0]


def define_nested(ev, f):
    """Every nested helper of `f` is defined in the evaluator (the converter may delegate to a sibling helper)."""
    for n in f.body:
        if isinstance(n, ast.FunctionDef):
            ev._exec(n)


def records(value):
    """What the converter produced for one row, as a list: a generator / list of records, one record, or None."""
    if value is None:
        return []
    if isinstance(value, tuple):
        return [value]
    return list(value)


def r12(repo, res):
    try:
        f, pm = converter(repo)
    except AnalysisError as e:
        res.err("C08.R1", str(e))
        return
    res.analysed(pm)
    stored = {}
    nv = 0
    for strand in "+-":
        s = 1 if strand == "+" else -1
        try:
            me, rev_comp = fold_init_basic(repo, strand, "M40")
        except (Unfoldable, Raised) as e:
            res.err("C08.R1", f"Gene._init_basic outside folding language: {e}")
            return
        G = me._lookup_seq
        lo = me._lookup_range[0]
        me.name, me.pseudogenes, me.refseq, me.mutations = "G", [], "NG_1", {}
        me.region_at = lambda p: (0, "e1")
        env = {"self": me, "custom_cn": {}, "fusions_left": {}, "fusions_right": {}}
        for p, op in sample_variants():
            try:
                ev = Evaluator(env, funcs={"rev_comp": rev_comp, "Mutation": Mut})
                define_nested(ev, f)
                ys = records(ev.locals[pm.name]("a1", p, op, ["rs1", "X1Y"]))
            except (Unfoldable, Raised) as e:
                res.err("C08.R1", f"process_mutation outside folding language: {e}")
                return
            kind = ("substitution" if ">" in op and len(op) == 3 else "multi-substitution" if ">" in op else
                    "insertion" if op.startswith("ins") else "deletion-insertion" if "ins" in op else "deletion")
            hapR = apply_variant(SEQ, p - 1, op)
            ok = False
            found = "nothing loaded"
            if len(ys) == 1:
                gpos, gop = ys[0]
                hapG = apply_variant(G, gpos - lo, gop)
                oriented = hapG if (hapG is None or s > 0) else rc(hapG)
                ok = hapG is not None and oriented == hapR
                found = f"loaded as {gpos}:{gop}; " + ("reference allele does not match the genome-oriented reference" if hapG is None
                                                      else "haplotypes equal" if ok else "haplotypes differ")
            nv += 1
            res.ob("C08.R1", pm, pm, ok,
                   expected=f"strand {strand}, RefSeq {p}{op} ({kind}): genome-side haplotype, oriented to the gene strand, equals the RefSeq-side haplotype",
                   found=found,
                   clause="applying the variant as loaded to the genome-oriented reference yields, after orienting to the gene's strand, exactly the "
                          "sequence obtained by applying the variant as written to the RefSeq sequence",
                   key=f"haplotype:{strand}:{kind}:{p}:{op[:14]}")
        stored[strand] = (me, dict(me.mutations))
    res.count("C08.R1:variants folded", nv)
    return stored


def _linlen(e, pos_name):
    """Linear form {atom: coef, 1: const} of an integer expression over len(<name>) atoms and the position itself."""
    if isinstance(e, ast.Constant) and isinstance(e.value, int):
        return {1: e.value}
    if isinstance(e, ast.Name):
        return {("name", e.id): 1}
    if isinstance(e, ast.Call) and isinstance(e.func, ast.Name) and e.func.id == "len" and len(e.args) == 1:
        a = e.args[0]
        if isinstance(a, ast.Name):
            return {("len", a.id): 1}
        if isinstance(a, ast.Subscript) and isinstance(a.value, ast.Name) and isinstance(a.slice, ast.Slice) \
                and a.slice.upper is None and a.slice.step is None and isinstance(a.slice.lower, ast.Constant):
            return {("len", a.value.id): 1, 1: -a.slice.lower.value}
        return None
    if isinstance(e, ast.BinOp) and isinstance(e.op, (ast.Add, ast.Sub)):
        l, r = _linlen(e.left, pos_name), _linlen(e.right, pos_name)
        if l is None or r is None:
            return None
        out = dict(l)
        sg = 1 if isinstance(e.op, ast.Add) else -1
        for k, v in r.items():
            out[k] = out.get(k, 0) + sg * v
        return {k: v for k, v in out.items() if v}
    return None


def r1_symbolic(repo, res):
    """Syntactic cross-check of the reverse-strand offset table (per variant kind) in process_mutation."""
    try:
        f, pm = converter(repo)
    except AnalysisError:
        return
    strand_if = [n for n in ast.walk(pm) if isinstance(n, ast.If) and "self.strand" in ast.unparse(n.test)]
    if not strand_if:
        res.note("C08.R1: no `if self.strand < 0` block in process_mutation; only the folded haplotype table is checked")
        return
    table = {}

    def kind_of(test):
        t = ast.unparse(test)
        if "'>' in" in t:
            return "substitution"
        if "== 'ins'" in t and "[:3]" in t:
            return "insertion"
        if "'ins' in" in t:
            return "deletion-insertion"
        if "== 'del'" in t:
            return "deletion"
        return None

    def delta(stmts, pos="pos"):
        tot = {}
        for st in stmts:
            if isinstance(st, ast.AugAssign) and isinstance(st.target, ast.Name) and st.target.id == pos and isinstance(st.op, (ast.Add, ast.Sub)):
                d = _linlen(st.value, pos)
                if d is None:
                    return None
                for k, v in d.items():
                    tot[k] = tot.get(k, 0) + (v if isinstance(st.op, ast.Add) else -v)
            elif isinstance(st, ast.Assign) and isinstance(st.targets[0], ast.Name) and st.targets[0].id == pos:
                d = _linlen(st.value, pos)
                if d is None or d.get(("name", pos)) != 1:
                    return None
                for k, v in d.items():
                    if k != ("name", pos):
                        tot[k] = tot.get(k, 0) + v
        return {k: v for k, v in tot.items() if v}

    def walk(ifnode, outer_kind=None):
        cur = ifnode
        while isinstance(cur, ast.If):
            k = kind_of(cur.test) or outer_kind
            inner = [s_ for s_ in cur.body if isinstance(s_, ast.If)]
            if k == "deletion" and inner:
                walk(inner[0], "deletion")
            elif k:
                kk = k
                if outer_kind == "deletion" and "'ins' in" in ast.unparse(cur.test):
                    kk = "deletion-insertion"
                table[kk] = delta(cur.body)
            if len(cur.orelse) == 1 and isinstance(cur.orelse[0], ast.If):
                cur = cur.orelse[0]
            else:
                if cur.orelse and outer_kind == "deletion":
                    table["deletion"] = delta(cur.orelse)
                cur = None

    body_if = [s_ for s_ in strand_if[0].body if isinstance(s_, ast.If)]
    if not body_if:
        res.note("C08.R1: strand block of process_mutation is not an if/elif chain over variant kinds; folded table only")
        return
    walk(body_if[0])
    # which local holds which part: l = left allele, pd = deleted part, op = 'del' + deleted
    want = {"substitution": [{("len", "l"): 1, 1: -1}], "insertion": [{1: 1}],
            "deletion-insertion": [{("len", "pd"): 1, 1: -1}], "deletion": [{("len", "op"): 1, 1: -4}]}
    for kind, exp in want.items():
        got = table.get(kind)
        if got is None:
            res.note(f"C08.R1: offset of the {kind} branch is not in the syntactic language; folded table only")
            continue
        shown = " + ".join(f"{v}*{k[0]}({k[1]})" if k != 1 else str(v) for k, v in sorted(got.items(), key=str)) or "0"
        res.count(f"C08.R1:syntactic offset ({kind}) = {shown}", 1)
        if got not in exp:
            # advisory only: the folded haplotype table (above) is the deciding rule; a different spelling of the same offset
            # (e.g. through a local alias) must not raise an alarm
            res.note(f"C08.R1: syntactic offset of the {kind} branch reads `{shown}` (reference spelling "
                     f"`{' + '.join(str(v) + '*' + str(k) for k, v in exp[0].items())}`); decided by the folded haplotype table")


def r4(repo, res, stored):
    if not stored:
        return
    gr = repo.func("gene::Gene.get_refseq")
    rs = repo.func("gene::Gene.get_rsid")
    gf = repo.func("gene::Gene.get_functional")
    ro = repo.func("gene::Gene._reverse_op")
    res.analysed(gr, rs, gf, ro)
    written = {(p, op) for p, op in sample_variants()}
    for strand, (me, muts) in stored.items():
        me.exons = [(4, 19)]
        back = set()
        ok_rs = ok_fn = ok_rev = True
        try:
            _, rev_comp = fold_init_basic(repo, strand, "M40")
            for (gpos, gop), tup in muts.items():
                k, v = Evaluator({"self": me, "args": ((gpos, gop),), "from_atg": False}).run(fn_body(gr))
                back.add(v)
                k, v = Evaluator({"self": me, "args": (gpos, gop), "default": True}).run(fn_body(rs))
                ok_rs = ok_rs and v == "rs1"
                k, v = Evaluator({"self": me, "mut": (gpos, gop), "infer": True}).run(fn_body(gf))
                ok_fn = ok_fn and v == "X1Y"
                if strand == "-" and not ("del" in gop and "ins" in gop[3:]):
                    k, v = Evaluator({"self": me, "op": gop}, funcs={"rev_comp": rev_comp}).run(fn_body(ro))
                    ok_rev = ok_rev and v == tup[4]
        except (Unfoldable, Raised) as e:
            res.err("C08.R4", f"notation accessors outside folding language: {e}")
            return
        want = {f"{p}{op}" for p, op in written}
        res.ob("C08.R4", gr, gr, back == want, expected=f"strand {strand}: get_refseq of every loaded variant returns the position and change it was written with",
               found="all equal" if back == want else f"differs: {sorted(back - want)[:3]} vs {sorted(want - back)[:3]}",
               clause="the reported RefSeq notation of a loaded variant is the notation it was written in", key=f"refseq-notation:{strand}")
        res.ob("C08.R4", rs, rs, ok_rs and ok_fn, expected=f"strand {strand}: dbSNP id and effect are read from the fields they were stored in",
               found=f"rsid ok: {ok_rs}; effect ok: {ok_fn}", key=f"tuple-layout:{strand}")
        if strand == "-":
            res.ob("C08.R4", ro, ro, ok_rev, expected="_reverse_op inverts the forward allele conversion for substitutions, insertions and deletions",
                   found="inverse" if ok_rev else "not inverse", key="reverse-op")
    # 5-way unpack in the probe code and other positional readers agree with the stored tuple's arity
    pm = converter(repo)[1]
    sd = [c for c in ast.walk(pm) if isinstance(c, ast.Call) and isinstance(c.func, ast.Attribute) and c.func.attr == "setdefault"]
    arity = len(sd[0].args[1].elts) if sd and isinstance(sd[0].args[1], ast.Tuple) else None
    res.ob("C08.R4", pm, sd[0] if sd else pm, arity == 5, expected="stored value = (effect, rsid, 0-based RefSeq position of the converted variant, original position - 1, original change)",
           found=f"arity {arity}", key="tuple-arity")


def r6(repo, res):
    """Inferred amino-acid effect of an uncatalogued substitution goes through the same maps and orientation."""
    gf = repo.func("gene::Gene.get_functional")
    ro = repo.func("gene::Gene._reverse_op")
    sa = repo.func("common::seq_to_amino")
    res.analysed(gf, ro, sa)
    consts = module_consts(repo.mod("common"))
    prot = consts.get("PROTEINS")
    if not prot:
        res.err("C08.R6", "codon table PROTEINS not found in common.py")
        return

    def amino(seq):
        k, v = Evaluator({"seq": seq}, consts=consts).run(fn_body(sa))
        if k != "return":
            raise Raised(str(v))
        return v

    exon = (4, 19)  # RefSeq 0-based [4, 19): 5 codons
    ref_aa = "".join(prot[SEQ[i:i + 3]] for i in range(exon[0], exon[1] - (exon[1] - exon[0]) % 3, 3))
    n = 0
    gapped = next((c_ for c_ in CIGARS if "I" in c_ or "D" in c_), "M40")   # an alignment string with gaps: the maps are not an offset
    for strand, cigar in [(st_, cg_) for st_ in "+-" for cg_ in dict.fromkeys(("M40", gapped))]:
        s_ = 1 if strand == "+" else -1
        try:
            me, rev_comp = fold_init_basic(repo, strand, cigar)
        except (Unfoldable, Raised) as e:
            res.err("C08.R6", f"Gene._init_basic outside folding language: {e}")
            return
        me.mutations, me.exons, me.aminoacid = {}, [exon], ref_aa

        def reverse_op(op, rev_comp=rev_comp):
            k, v = Evaluator({"self": me, "op": op}, funcs={"rev_comp": rev_comp}).run(fn_body(ro))
            return v

        me._reverse_op = reverse_op
        bad = None
        for ridx in (5, 6, 7, 11, 17, 25):  # RefSeq indices: inside codons, and one outside the exon
            b = SEQ[ridx]
            for alt in "ACGT":
                if alt == b:
                    continue
                if ridx not in me.ref_to_chr:
                    continue   # a RefSeq base without counterpart in this genome build
                g = me.ref_to_chr[ridx]
                gop = f"{b}>{alt}" if s_ > 0 else f"{COMP[b]}>{COMP[alt]}"
                try:
                    k, v = Evaluator({"self": me, "mut": (g, gop), "infer": True}, funcs={"seq_to_amino": amino, "log.warn": lambda *a: None},
                                     consts=consts).run(fn_body(gf))
                except (Unfoldable,) as e:
                    res.err("C08.R6", f"get_functional outside folding language: {e}")
                    return
                except Raised as e:
                    k, v = "raise", e.kind
                if exon[0] <= ridx < exon[1]:
                    new = SEQ[:ridx] + alt + SEQ[ridx + 1:]
                    aa = "".join(prot[new[i:i + 3]] for i in range(exon[0], exon[1], 3))
                    diff = [i for i in range(len(aa)) if aa[i] != ref_aa[i]]
                    want = f"{ref_aa[diff[0]]}{diff[0] + 1}{aa[diff[0]]}" if diff else None
                else:
                    want = None
                n += 1
                if k != "return" or v != want:
                    bad = bad or f"strand {strand}, alignment {cigar}, RefSeq index {ridx} {b}>{alt} (genome {g}:{gop}): {k} {v!r}, expected {want!r}"
        res.ob("C08.R6", gf, gf, bad is None,
               expected=f"strand {strand}, alignment {cigar}: inferred effect of a genome-side substitution = amino-acid change of the RefSeq-side substitution it denotes",
               found="agrees" if bad is None else bad, clause="amino-acid effect inference uses the same maps", key=f"inferred-effect:{strand}" + ("" if cigar == "M40" else ":gapped"))
    res.count("C08.R6:substitutions folded", n)


class SeqGene:
    _fold_ok = True

    def __init__(self, seq, lo):
        self.seq, self.lo = seq, lo
        self._lookup_range = (lo, lo + len(seq))
        self._lookup_seq = seq
        self.chr = "1"

    def __getitem__(self, i):
        if isinstance(i, slice):
            return "".join(self[j] for j in range(i.start, i.stop))
        return self.seq[i - self.lo] if self.lo <= i < self.lo + len(self.seq) else "N"


def r5(repo, res):
    f = repo.func("sam::Sample._realign_indels")
    res.analysed(f)
    loop = f
    G = "ACGTTGCAACGGATCCTA"
    lo = 500
    gene = SeqGene(G, lo)
    sites = {(503, "insGG"): [0, 0], (506, "delCA"): [0, 0], (510, "delGG"): [0, 0], (512, "delATinsC"): [0, 0]}
    made = []

    def Variant(chrom, pos, ref, alt, reference):
        made.append((pos, ref, alt))
        return Obj(generate_equivalents=lambda: [Obj(pos=pos, ref=ref, alt=alt)], ref=ref, alt=alt)

    me = Obj(_indel_sites=sites, gene=gene, profile=Obj(indelpost=False, min_mapq=10, min_quality=10), _indel_sites_eqs={}, _prefix="")
    from sa.fold import Lifted

    me.gene.chr = "1"
    try:
        Lifted(f, funcs={"Variant": Variant, "pysam.FastaFile": lambda q: Obj(path=q)})(me, "tmpdir", None, "ref.fa")
        kind, val = "return", None
    except Unfoldable as e:
        res.err("C08.R5", f"_realign_indels outside folding language: {e}")
        return
    except Raised as e:
        kind, val = "raise", e.kind
    if kind == "raise":
        res.ob("C08.R5", f, loop, False, expected="bridge folds", found=f"raises {val}", key="bridge")
        return
    bad = None
    for pos1, ref, alt in made:
        p = pos1 - 1
        if gene[p:p + len(ref)] != ref:
            bad = bad or f"variant at 1-based {pos1}: REF {ref!r} is not the reference {gene[p:p + len(ref)]!r}"
    # haplotype equality of what is handed over with the catalogue variant
    for (pos, op) in sites:
        want = apply_variant(G, pos - lo, op)
        hit = [m for m in made if apply_variant_vcf(G, m[0] - 1 - lo, m[1], m[2]) == want]
        if not hit:
            bad = bad or f"catalogue {pos}:{op} is handed over as a different haplotype"
    res.ob("C08.R5", f, loop, bad is None and len(made) == len(sites),
           expected="every catalogued indel is handed to the realigner as (1-based anchor, REF = reference bases, ALT) denoting the same haplotype",
           found=f"{made}" if bad is None else bad, clause="an insertion is located between the same two reference bases wherever it is consumed",
           key="variant-handover")
    eqs = me._indel_sites_eqs
    want_keys = {(504, "insGG"): (503, "insGG"), (506, "delCA"): (506, "delCA"), (510, "delGG"): (510, "delGG")}
    ok = dict(eqs) == want_keys   # nothing else: a deletion-insertion has no equivalent that is a plain insertion or deletion
    res.ob("C08.R5", f, loop, ok,
           expected="equivalent keys use the read parser's convention: insertion keyed at the base after it, deletion at its first deleted base; a deletion-insertion registers none",
           found=str(dict(eqs)), key="equivalent-keys")
    # no reference file given: the routine writes its own FASTA + index for the realigner; the index must address the sequence it wrote,
    # under the contig name handed to the realigner (also when the alignment file spells contigs with a prefix)
    for prefix in ("", "chr"):
        files = {}
        made_n = []

        def opn(name, mode="r"):
            files[name] = []
            return Obj(name=name)

        def prt(*a, sep=" ", end="\n", file=None):
            files[file.name].append(sep.join(str(x) for x in a) + end)

        def VariantN(chrom, pos, ref, alt, reference):
            made_n.append((chrom, reference))
            return Obj(generate_equivalents=lambda: [], ref=ref, alt=alt)

        size = lo + len(G) + 37
        sam_ = Obj(get_reference_length=lambda name: size)
        men = Obj(_indel_sites={(503, "insGG"): [0, 0]}, gene=SeqGene(G, lo), profile=Obj(indelpost=False, min_mapq=10, min_quality=10), _indel_sites_eqs={}, _prefix=prefix)
        men.gene.chr = "1"
        try:
            Lifted(f, funcs={"Variant": VariantN, "pysam.FastaFile": lambda q: Obj(path=q), "open": opn, "print": prt})(men, "tmpdir", sam_, None)
        except Unfoldable as e:
            res.err("C08.R5", f"_realign_indels (own reference) outside folding language: {e}")
            return
        except Raised as e:
            res.ob("C08.R5", f, loop, False, expected="own reference written", found=f"raises {e.kind}", key=f"own-reference:{prefix or 'plain'}")
            continue
        fa = "".join(next((v_ for k_, v_ in files.items() if k_.endswith(".fa")), []))
        fai = "".join(next((v_ for k_, v_ in files.items() if k_.endswith(".fai")), [])).strip().split("\t")
        problems = []
        head, _, body = fa.partition("\n")
        seq_line = body.split("\n")[0]
        if not (head.startswith(">") and made_n and head[1:] == made_n[0][0] == prefix + "1"):
            problems.append(f"FASTA header {head!r}, contig handed to the realigner {made_n[0][0] if made_n else None!r}, contig of the alignment file {prefix + '1'!r}")
        if len(fai) != 5 or fai[0] != head[1:] or int(fai[1]) != size or int(fai[2]) != len(head) + 1 or int(fai[3]) != size or int(fai[4]) != size + 1:
            problems.append(f"index line {fai}: expected name {head[1:]!r}, length {size}, offset {len(head) + 1} (first sequence byte), {size} bases per line of {size + 1} bytes")
        if len(seq_line) != size or seq_line[lo:lo + len(G)] != G or set(seq_line[:lo]) - {"N"} or set(seq_line[lo + len(G):]) - {"N"}:
            problems.append(f"sequence line of {len(seq_line)} bases does not hold the gene's lookup sequence at {lo}..{lo + len(G)} padded with N to {size}")
        if made_n and not str(made_n[0][1].path).endswith(".fa"):
            problems.append(f"realigner reads {made_n[0][1].path!r}")
        res.ob("C08.R5", f, loop, not problems,
               expected=f"contigs {'with' if prefix else 'without'} prefix, no reference given: the FASTA written for the realigner is named like the contig handed to it, its index "
                        "addresses the first sequence byte, and the sequence is the gene's genome-oriented lookup sequence at its genome coordinates",
               found="agrees" if not problems else "; ".join(problems),
               clause="an insertion is located between the same two reference bases wherever it is consumed (database, indel realignment, long-read matching)",
               key=f"own-reference:{prefix or 'plain'}")
    # indels inside repeats: every equivalent placement (found by brute force on the reference: all left-anchored insertions / deletions
    # that give the same haplotype) is registered under the key the read parser would produce for that placement -- position AND bases
    G2 = "ACGTATATCCAGAGAGTTCAAAG"
    gene2 = SeqGene(G2, lo)
    sites2 = {(503, "insAT"): [0, 0], (510, "delAG"): [0, 0], (519, "delA"): [0, 0], (508, "delCCinsT"): [0, 0], (516, "insG"): [0, 0]}

    def equivalents(pos1, ref, alt):
        target = apply_variant_vcf(G2, pos1 - 1 - lo, ref, alt)
        out = []
        d = len(alt) - len(ref)
        for q in range(len(G2)):
            if d > 0:    # insertion of d bases after index q
                x = target[q + 1:q + 1 + d]
                if G2[:q + 1] + x + G2[q + 1:] == target:
                    out.append(Obj(pos=lo + q + 1, ref=G2[q], alt=G2[q] + x))
            elif d < 0 and q + 1 - d <= len(G2):   # deletion of -d bases after index q
                if G2[:q + 1] + G2[q + 1 - d:] == target:
                    out.append(Obj(pos=lo + q + 1, ref=G2[q:q + 1 - d], alt=G2[q]))
        if not out or len(ref) > 1 and len(alt) > 1:
            out = [Obj(pos=pos1, ref=ref, alt=alt)]
        return out

    def Variant2(chrom, pos, ref, alt, reference):
        return Obj(generate_equivalents=lambda: equivalents(pos, ref, alt), ref=ref, alt=alt)

    me2 = Obj(_indel_sites=sites2, gene=gene2, profile=Obj(indelpost=False, min_mapq=10, min_quality=10), _indel_sites_eqs={}, _prefix="")
    try:
        Lifted(f, funcs={"Variant": Variant2, "pysam.FastaFile": lambda q: Obj(path=q)})(me2, "tmpdir", None, "ref.fa")
        got2 = dict(me2._indel_sites_eqs)
    except Unfoldable as e:
        res.err("C08.R5", f"_realign_indels outside folding language: {e}")
        return
    except Raised as e:
        got2 = f"raises {e.kind}"
    want2 = {}
    for (pos, op) in sites2:
        if op.startswith("del") and "ins" in op:
            continue
        target = apply_variant(G2, pos - lo, op)
        L = len(op) - 3
        for q in range(len(G2) + 1):
            if op.startswith("ins"):     # parser key: the base after the inserted bases
                x = target[q:q + L]
                if G2[:q] + x + G2[q:] == target:
                    want2[lo + q, "ins" + x] = (pos, op)
            elif q + L <= len(G2) and G2[:q] + G2[q + L:] == target:
                want2[lo + q, "del" + G2[q:q + L]] = (pos, op)
    res.ob("C08.R5", f, loop, got2 == want2,
           expected=f"indels inside repeats: each of the {len(want2)} placements that give the catalogue variant's haplotype is registered under the read parser's key for "
                    "that placement (its own position and its own, possibly rotated, bases) and points to the catalogue variant; nothing else is registered",
           found="agrees" if got2 == want2 else (got2 if isinstance(got2, str) else
                                                 f"missing {sorted(set(want2) - set(got2))[:4]}, unexpected {sorted(set(got2) - set(want2))[:4]}, "
                                                 f"wrong target {[k for k in want2 if k in got2 and got2[k] != want2[k]][:3]}"),
           clause="an insertion is located between the same two reference bases wherever it is consumed (database, indel realignment, long-read matching)",
           key="equivalent-keys:repeats")
    # the read parser counts a read towards the catalogued indel its own indel is equivalent to (the parser folded whole)
    from checks._reads import START, fold_parse_read, sample_read

    pr = repo.func("sam::Sample._parse_read")
    res.analysed(pr)
    rows = {}
    DB, FAR = (START + 1, "insCC"), (START + 60, "insG")   # the catalogued placement of the read's indel; an indel outside the read
    try:
        for label, k, key in (("insertion", 1, (START + 2, "insCCC")), ("deletion", 2, (START + 2, "delAAA")), ("plain match", 0, (START + 2, "insCCC"))):
            cigar, seq, qual = sample_read(k)
            sites = {DB: [0, 0], FAR: [3, 4]}
            kind, val, norm, muts, me, ev = fold_parse_read(repo, cigar, seq, qual, eqs={key: DB, (START + 61, "insG"): FAR}, indel_sites=sites)
            rows[label] = (kind, {k_: list(v_) for k_, v_ in me._indel_sites.items()})
            kind2, _, _, _, me2, _ = fold_parse_read(repo, cigar, seq, qual, eqs={}, indel_sites={DB: [0, 0]})
            rows[label + ", empty table"] = (kind2, {k_: list(v_) for k_, v_ in me2._indel_sites.items()})
    except (Unfoldable, Raised) as e:
        res.err("C08.R5", f"_parse_read outside folding language: {e}")
        return
    ok = all(rows[l][0] != "raise" for l in rows) \
        and rows["insertion"][1][DB][1] == 1 and rows["deletion"][1][DB][1] == 1 and rows["plain match"][1][DB][1] == 0 \
        and all(rows[l][1][FAR] == [3, 4] for l in ("insertion", "deletion", "plain match")) \
        and all(rows[l + ", empty table"][1] == {DB: [0, 0]} for l in ("insertion", "deletion", "plain match"))
    res.ob("C08.R5", pr, pr, ok, expected="a read whose insertion / deletion is an equivalent placement of a catalogued indel adds one supporting read to exactly that indel; "
                                        "a read without it adds none; an indel the read does not span is untouched; without the equivalents table nothing is counted",
           found="ok" if ok else str(rows), clause="an insertion is located between the same two reference bases wherever it is consumed", key="parser-lookups")


def apply_variant_vcf(seq, p, ref, alt):
    if seq[p:p + len(ref)] != ref:
        return None
    return seq[:p] + alt + seq[p + len(ref):]


def run(repo, res):
    r3(repo, res)
    stored = r12(repo, res)
    r1_symbolic(repo, res)
    r4(repo, res, stored)
    r5(repo, res)
    r6(repo, res)


MUTANTS = [
    dict(name="R1 MNP offset", module="gene", expect="C08.R1",
         old="                        pos = pos + len(l) - 1\n", new="                        pos = pos + len(l)\n"),
    dict(name="R1 insertion shift dropped", module="gene", expect="C08.R1",
         old='                        op = f"ins{rev_comp(op[3:])}"\n                        pos += 1', new='                        op = f"ins{rev_comp(op[3:])}"'),
    dict(name="R1 deletion offset -3", module="gene", expect="C08.R1",
         old="                            pos = pos + len(op) - 4", new="                            pos = pos + len(op) - 3"),
    dict(name="R1 delins uses the inserted length (seeded C08_1 shape)", module="gene", expect="C08.R1",
         old="                            pos = pos + len(pd) - 1", new="                            pos = pos + len(pi) - 1"),
    dict(name="R2 rev_comp missing for the ALT of a substitution", module="gene", expect="C08.R1",
         old='                        op = f"{rev_comp(l)}>{rev_comp(r)}"\n                        pos = pos + len(l) - 1', new='                        op = f"{rev_comp(l)}>{r[::-1]}"\n                        pos = pos + len(l) - 1'),
    dict(name="R2 reverse without complement (insertion)", module="gene", expect="C08.R1",
         old='                        op = f"ins{rev_comp(op[3:])}"\n                        pos += 1', new='                        op = f"ins{op[3:][::-1]}"\n                        pos += 1'),
    dict(name="R3 slice left of the range padded one base short", module="gene", expect="C08.R3",
         old="            loff = max(0, s - i)", new="            loff = max(0, s - i - 1)"),
    dict(name="R3 slice entirely outside the range only when both ends are", module="gene", expect="C08.R3",
         old="            if j <= s or i >= e:", new="            if j <= s and i >= e:"),
    dict(name="R3 slice right overhang lost", module="gene", expect="C08.R3",
         old="            roff = max(0, j - e)", new="            roff = 0"),
    dict(name="R5 deletion-insertion equivalents registered as deletions", module="sam", expect="C08.R5",
         old="                    elif len(ev.ref) > len(ev.alt) and ev.ref.startswith(ev.alt):", new="                    elif len(ev.ref) > len(ev.alt):"),
    dict(name="R5 equivalents keyed with the catalogue's bases (seeded C08_c3 shape)", module="sam", expect="C08.R5",
         edits=[('                        no = "ins" + ev.alt[len(ev.ref) :]', '                        no = op'),
                ('                        no = "del" + ev.ref[len(ev.alt) :]', '                        no = op')]),
    dict(name="R1 strand conversion memoised per class without the strand in the key (seeded C08_c2 shape)", module="gene", expect=["C08.R1", "C08.R4"],
         edits=[("    def _reverse_op(self, op: str) -> str:", "    _conv_cache = {}  # type: ignore\n\n    def _reverse_op(self, op: str) -> str:"),
                ("                if self.strand < 0:\n                    if \">\" in op:\n                        l, r = op.split(\">\")\n                        op = f\"{rev_comp(l)}>{rev_comp(r)}\"\n                        pos = pos + len(l) - 1",
                 "                key_ = (pos, op)\n                if key_ in self._conv_cache:\n                    pos, op = self._conv_cache[key_]\n                elif self.strand < 0:\n                    if \">\" in op:\n                        l, r = op.split(\">\")\n                        op = f\"{rev_comp(l)}>{rev_comp(r)}\"\n                        pos = pos + len(l) - 1"),
                ("                pos -= 1  # Cast to 0-based index", "                self._conv_cache[key_] = (pos, op)\n                pos -= 1  # Cast to 0-based index")]),
    dict(name="R3 membership inverted", module="gene", expect="C08.R3",
         old="        return i in self.chr_to_ref", new="        return i not in self.chr_to_ref"),
    dict(name="R3 membership by the lookup range (unmapped positions inside it are members)", module="gene", expect="C08.R3",
         old="        return i in self.chr_to_ref", new="        return self._lookup_range[0] <= i < self._lookup_range[1]"),
    dict(name="R2 lookup sequence not complemented", module="gene", expect="C08.R3",
         old="                rev_comp(self.seq[self.chr_to_ref[i]])\n                if self.strand < 0", new="                self.seq[self.chr_to_ref[i]]\n                if self.strand < 0"),
    dict(name="R3 lookup sliced from RefSeq on the forward strand (seeded C08_3 shape)", module="gene", expect="C08.R3",
         old="        self._lookup_seq = \"\".join(", new="        self._lookup_seq = self.seq[: end - start] if self.strand > 0 else \"\".join("),
    dict(name="R3 inverse map stored with the wrong key", module="gene", expect="C08.R3",
         old="                    self.ref_to_chr[pos_ref + idx * self.strand] = pos_chr + idx", new="                    self.ref_to_chr[pos_ref + idx] = pos_chr + idx"),
    dict(name="R3 I and D swapped", module="gene", expect="C08.R3",
         old='            elif op == "I":\n                pos_ref += sz * self.strand\n            elif op == "D":\n                pos_chr += sz',
         new='            elif op == "D":\n                pos_ref += sz * self.strand\n            elif op == "I":\n                pos_chr += sz'),
    dict(name="R4 reader index swapped", module="gene", expect="C08.R4",
         old="            pos, op = self.mutations[pos, op][3:5]", new="            pos, op = self.mutations[pos, op][2], self.mutations[pos, op][4]"),
    dict(name="R4 stored original position off by one", module="gene", expect="C08.R4",
         old="                        (function, rsid, pos, orig_pos - 1, orig_op),", new="                        (function, rsid, pos, orig_pos, orig_op),"),
    dict(name="R4 rsid read from the effect slot", module="gene", expect="C08.R4",
         old="            res = self.mutations[pos, op][1]", new="            res = self.mutations[pos, op][0]"),
    dict(name="R5 deletion anchor read from the wrong base (seeded C08_2 shape)", module="sam", expect="C08.R5",
         old="                    p -= 1\n                    o = self.gene[p]\n                    o1, o2 = o + op[3:], o", new="                    p -= 1\n                    o = self.gene[pos]\n                    o1, o2 = o + op[3:], o"),
    dict(name="R5 insertion equivalents keyed at the anchor", module="sam", expect="C08.R5",
         old="                        np += len(ev.ref)\n                        no = \"ins\" + ev.alt[len(ev.ref) :]", new="                        no = \"ins\" + ev.alt[len(ev.ref) :]"),
    dict(name="R5 variant position zero-based", module="sam", expect="C08.R5",
         old="            v = Variant(rname, p + 1, o1, o2, ref)  # type: ignore", new="            v = Variant(rname, p, o1, o2, ref)  # type: ignore"),
    dict(name="R6 inferred effect not re-oriented on the reverse strand", module="gene", expect="C08.R6",
         old="            if self.strand < 0:\n                op = self._reverse_op(op)\n", new=""),
    dict(name="R6 inferred effect uses the genome position as RefSeq index", module="gene", expect="C08.R6",
         old="        pos = self.chr_to_ref[pos]\n        if infer and any(s <= pos < e for s, e in self.exons):", new="        pos = pos - min(self.chr_to_ref)\n        if infer and any(s <= pos < e for s, e in self.exons):"),
    # benign
    dict(name="benign: deletion offset rewritten", module="gene", kind="benign",
         old="                            pos = pos + len(op) - 4", new="                            pos = pos + len(op[3:]) - 1"),
    dict(name="benign: explicit strand test", module="gene", kind="benign",
         old="                if self.strand < 0:\n                    if \">\" in op:", new="                if self.strand == -1:\n                    if \">\" in op:"),
]
