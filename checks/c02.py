"""
C02 -- major star-allele calls are consistent, optimal and complete.

Decided: the major model contains every necessary constraint family: (R1) per-configuration count
equalities, (R2) enough allele copies, (R3) fit equations for every core variant and reference
site (scatter/gather templates evaluated on a sample instance), (R4) exact carried-XOR-novel and OR
gadgets (truth tables), (R5) objective, (R6) enumeration with the gap and identity of solutions,
(R7) candidate selection.  CORD_* / CONE_* / NOVEL_LB are not required.
Not decided: that CBC returns all optima; the noise-free "error zero" claim.
"""

import ast
import collections
import copy
import itertools

from sa.fold import Evaluator, Obj, Raised, Unfoldable, single_defs
from sa.ilp import Model
from sa.lineval import LinEval, bindings, fold_defs, scatter_value, site_values
from sa.loader import AnalysisError, call_name, calls_in, kwarg, walk_local

PROPERTY = "C02"
EXPLANATION = (
    "Constraint-template conformance for major::solve_major_model on a sample instance (6 candidate alleles over two "
    "configurations, substitutions and an insertion sharing a site, a fusion allele without copies at one site): "
    "CSAT equalities evaluated per configuration; allele-copy supply block folded; the scatter table of the fit "
    "equations (three accumulation sites + reference sites) evaluated per key and compared with the documented "
    "expression; XOR/OR gadget sites evaluated on {0,1}^(3+k), k=0..3, against the relation 'carried XOR novel'; "
    "objective template; read-out loop folded on sample yields; _filter_alleles / estimate_major folded."
)
ASSUMPTIONS = ["CORD_* (symmetry), CONE_* (one novel variant per site) and NOVEL_LB are not necessary conditions of the statement"]


class Mut(collections.namedtuple("Mutation", ["pos", "op"])):
    def __str__(self):
        return f"{self.pos + 1}.{self.op}"


M1, M2, M3, INS = Mut(100, "A>G"), Mut(200, "C>T"), Mut(300, "G>A"), Mut(100, "insT")


def sample():
    allele = lambda cfg, muts: Obj(cn_config=cfg, func_muts=set(muts), minors={}, name="")  # noqa
    alleles = {"1": allele("1", []), "2": allele("1", [M1]), "4": allele("1", [M1, M2]), "15": allele("1", [INS]),
               "10": allele("1", [M3]), "36": allele("36", [M2])}
    no_cov = {("36", 300)}
    gene = Obj(name="G", alleles=alleles,
               mutations={tuple(m): ("fn", "rs", 0, 0, "") for m in (M1, M2, M3, INS)},
               is_functional=lambda m, infer=True: True,
               has_coverage=lambda a, pos: (a, pos) not in no_cov)
    structure = Obj(solution=collections.Counter({"1": 2, "36": 1}))
    return gene, alleles, structure


def copies(f, gene, allele_dict, structure):
    loc = fold_defs(f, {"alleles"}, {"allele_dict": allele_dict, "cn_solution": structure, "gene": gene})
    if "alleles" not in loc:
        raise AnalysisError("allele-copy table `alleles` not found in solve_major_model")
    return loc["alleles"]


def r12(repo, res, m):
    f = m.func
    gene, alleles, structure = sample()
    try:
        A = copies(f, gene, alleles, structure)
    except (Unfoldable, Raised) as e:
        res.err("C02.R2", f"allele-copy block outside folding language: {e}")
        return None
    want = {(an, i) for an, a in alleles.items() for i in range(structure.solution[a.cn_config])}
    node = [n for n in walk_local(f) if isinstance(n, ast.Assign) and ast.unparse(n.targets[0]) == "alleles"]
    res.ob("C02.R2", f, node[0] if node else f, set(A) == want and all(A[k] is alleles[k[0]] or A[k].func_muts == alleles[k[0]].func_muts for k in A),
           expected="every candidate allele has copies 0 .. count(its configuration) - 1",
           found=f"missing {sorted(want - set(A))} extra {sorted(set(A) - want)}",
           clause="completeness: a combination using one allele on every copy of a configuration must be expressible", key="copy-supply")
    V = [n for n, c in m.fams.containers.items() if any(i["prefix"].startswith("A_") and i["vtype"] == "B" for i in c["infos"])]
    if len(V) != 1:
        res.err("C02.R1", f"allele selector family (binary A_...) not found uniquely: {V}")
        return None
    V = V[0]
    comp = m.fams.containers[V]["comp"]
    ok = isinstance(comp, ast.DictComp) and ast.unparse(comp.generators[0].iter) == "alleles"
    res.ob("C02.R2", f, m.fams.containers[V]["site"], ok, expected="one binary selector per allele copy", found=ast.unparse(comp)[:90] if comp else "?",
           key="selector-per-copy")
    # R1 -- CSAT
    x = {k: round(0.13 + 0.07 * i + 0.013 * VAL_SEED * ((i * 5) % 7), 3) for i, k in enumerate(sorted(A))}
    env = {"alleles": A, "cn_solution": structure, V: {k: k for k in A}}
    hit = None
    for a, b in m.equalities():
        sums = a.lin.sum_terms()
        if len(sums) == 1 and not a.lin.var_terms() and any(t.kind == "var" and t.fam == V for _, t in sums[0][1].body.terms):
            hit = a
    bad = None
    if hit is not None:
        try:
            vals = site_values(hit, env, lambda fam, keys, comp: x[keys[0] if len(keys) == 1 else keys])
            got = {}
            for loc, v in vals:
                cnf = [val for k_, val in loc.items() if val in structure.solution]
                got[cnf[0] if cnf else None] = v
            for cnf, cnt in structure.solution.items():
                want_v = sum(x[k] for k in A if A[k].cn_config == cnf) - cnt
                g = got.get(cnf)
                if g is None or min(abs(g - want_v), abs(g + want_v)) > 1e-9:
                    bad = f"configuration {cnf}: template {g}, documented {want_v}"
        except (Unfoldable, Raised, KeyError) as e:
            res.err("C02.R1", f"CSAT template outside folding language: {e}")
            return V
    res.ob("C02.R1", f, hit.call if hit is not None else f, hit is not None and bad is None,
           expected="for every (configuration, count) of the structure: sum of selectors of that configuration == count (both senses)",
           found=("agrees on the sample instance" if bad is None else bad) if hit is not None else "no such equality",
           clause="each structural configuration gets exactly as many alleles as the structure has copies of it", key="csat")
    return V


def fams_by_prefix(m, prefix, vtype=None):
    return [n for n, c in m.fams.containers.items() if any(i["prefix"].startswith(prefix) and (vtype is None or i["vtype"] == vtype)
                                                          for i in c["infos"])]


def r3(repo, res, m, V):
    f = m.func
    gene, alleles, structure = sample()
    A = copies(f, gene, alleles, structure)
    N = fams_by_prefix(m, "N_", "B")
    Efam = fams_by_prefix(m, "E_")
    if len(N) != 1 or len(Efam) != 1:
        res.err("C02.R3", f"novel / error families not found uniquely: {N} {Efam}")
        return None, None
    N, Efam = N[0], Efam[0]
    func_muts = {M1, M2, M3, INS}
    x = {k: round(0.13 + 0.07 * i + 0.013 * VAL_SEED * ((i * 5) % 7), 3) for i, k in enumerate(sorted(A))}
    nv = {M1: 0.5, M2: 0.25, M3: 1.0, INS: 0.0}
    err = collections.defaultdict(lambda: 0.125)
    tables = [t for t in ("constraints",) if any(True for _ in m.scatter(t))]
    # the gather site
    gather = None
    for a, b in m.equalities():
        if any(t.kind == "table" for _, t in a.lin.terms):
            gather = a
    if gather is None:
        res.ob("C02.R3", f, f, False, expected="fit equation `expr + E == cov` (both senses) for every key of the equation table",
               found="no equality over the scatter table", key="fit-gather")
        return N, Efam
    tname = [t for _, t in gather.lin.terms if t.kind == "table"][0].name
    defs = single_defs(f)
    keys0 = {m_: 0 for m_ in func_muts}
    env = {"alleles": A, "gene": gene, "func_muts": func_muts, V: {k: k for k in A}, N: {k: k for k in func_muts},
           Efam: {k: k for k in list(func_muts)}, "constraints": dict(keys0), "cn_solution": structure}

    def varval(fam, keys, comp):
        k = keys[0] if len(keys) == 1 else keys
        if fam == V:
            return x[k]
        if fam == N:
            return nv[k]
        if fam == Efam:
            return err[k]
        raise Unfoldable(f"unexpected family {fam}")

    bad = None
    nkeys = 0
    try:
        allkeys = list(func_muts) + [Mut(p, "_") for p in (100, 200, 300)]
        for key in allkeys:
            got = scatter_value(m, tname, key, env, varval, funcs={"Mutation": Mut}, defs=defs)
            if key.op != "_":
                want = sum(x[k] for k in A if key in A[k].func_muts) + nv[key]
            else:
                want = sum(x[k] for k in A if gene.has_coverage(k[0], key.pos)
                           and not any(mm.pos == key.pos and mm.op[:3] != "ins" for mm in A[k].func_muts))
            nkeys += 1
            if abs(got - want) > 1e-9:
                bad = f"key {key}: accumulated template {got:.4f}, documented {want:.4f}"
                break
    except (Unfoldable, Raised, KeyError) as e:
        res.err("C02.R3", f"fit-equation scatter outside folding language: {e}")
        return N, Efam
    res.ob("C02.R3", f, gather.call, bad is None,
           expected="variant m: sum(selectors of alleles carrying m) + novel[m]; reference site: sum(selectors of alleles with copies there and "
                    "no non-insertion core variant there)",
           found=f"agrees on {nkeys} keys of the sample instance" if bad is None else bad,
           clause="fit error of every core variant and of the reference allele at those sites", key="fit-expressions")
    # gather form: expr + E[m] - cov == 0, E free in sign, for every key
    okg = len(gather.lin.terms) == 2 and any(t.kind == "var" and t.fam == Efam and float(k.num) in (1.0, -1.0) for k, t in gather.lin.terms)
    infos = m.fams.containers[Efam]["infos"]
    free = all(i["lb"] is not None and ast.unparse(i["lb"]).startswith("-") and i["ub"] is not None for i in infos)
    it = ast.unparse(gather.binders[-1][1]) if gather.binders else ""
    res.ob("C02.R3", f, gather.call, okg and free and tname in it,
           expected="table[m] + E[m] == observed copies, E free in sign, for every key of the table",
           found=f"{gather.lin.text()[:80]} over {it[:40]}; E bounds free: {free}", key="fit-gather")
    # observed copies:  coverage[m] / single_copy(m), 0 when the site has no copies
    covdef = [n for n in walk_local(gather.binders and _enclosing_for(gather.call) or f) if isinstance(n, ast.Assign)
              and isinstance(n.targets[0], ast.Name) and n.targets[0].id == "cov"]
    return N, Efam


def _enclosing_for(node):
    p = getattr(node, "_parent", None)
    while p is not None and not isinstance(p, ast.For):
        p = getattr(p, "_parent", None)
    return p


def r3b(repo, res, m):
    """Observed copy number of a key: coverage / single-copy depth with the zero guard."""
    f = m.func
    gather = None
    for a, b in m.equalities():
        if any(t.kind == "table" for _, t in a.lin.terms):
            gather = a
    if gather is None:
        return
    loop = _enclosing_for(gather.call)
    body = [st for st in loop.body if st.lineno < gather.call.lineno and not isinstance(st, ast.Expr)]
    rows = []
    ok = True
    try:
        # single-copy depth of a *variant* (re-aligned indel counts) may differ from the pile-up depth of its position
        for sc_pos, sc_m, cv, want in [(0, 0, 7, 0.0), (7.0, 10.0, 25, 2.5), (5.0, 4.0, 0, 0.0), (9.0, 4.0, 6, 1.5)]:
            def single_copy(q, s_, a=sc_pos, b=sc_m):
                return b if isinstance(q, tuple) else a

            def hook(node, e_, cv=cv, sc=single_copy):
                if isinstance(node, ast.Subscript) and ast.unparse(node.value) == "coverage":
                    return cv
                if isinstance(node, ast.Call) and ast.unparse(node.func) == "coverage.single_copy":
                    return sc(e_.ev(node.args[0]), None)
                return NotImplemented

            ev = Evaluator({"m": M1, "cn_solution": "S"}, hook=hook)
            k, v = ev.run(body)
            got = ev.locals.get("cov")
            rows.append(f"depth/copy at position={sc_pos}, of the variant={sc_m}, reads={cv} -> {got}")
            ok = ok and got == want
    except (Unfoldable, Raised) as e:
        res.err("C02.R3", f"observed-copies definition outside folding language: {e}")
        return
    res.ob("C02.R3", f, loop, ok, expected="observed copies = reads / single-copy depth of that variant (indel-aware), 0 where the structure has no copies",
           found="; ".join(rows), key="observed-copies")


def r4(repo, res, m, V, N):
    f = m.func
    gene, alleles, structure = sample()
    # gadget sites: those mentioning the OR_/XOR_ scalars
    ors = [n for n, i in m.fams.scalars.items() if i["prefix"].startswith("OR_")]
    xors = [n for n, i in m.fams.scalars.items() if i["prefix"].startswith("XOR_")]
    if len(ors) != 1 or len(xors) != 1:
        res.ob("C02.R4", f, f, False, expected="binary helper variables OR_<m> and XOR_<m> per core variant", found=f"{ors} {xors}", key="gadget-vars")
        return
    OR, XOR = ors[0], xors[0]
    sites = [s for s in m.sites if s.lin is not None and any(t.kind == "var" and t.fam in (OR, XOR) for _, t in _all_terms(s.lin))]
    res.floor("C02.R4", "gadget constraint sites", len(sites), 4)
    loopvars = set()
    for s in sites:
        if s.binders:
            loopvars.add(ast.unparse(s.binders[0][0]))
    bad = None
    ncases = 0
    defs = single_defs(f)
    try:
        for k in range(0, 4):
            carriers = [(f"a{j}", 0) for j in range(k)]
            A = {c: Obj(func_muts={M1}, cn_config="1") for c in carriers}
            A[("z", 0)] = Obj(func_muts=set(), cn_config="1")
            for bits in itertools.product((0, 1), repeat=3 + k):
                nvl, orv, xorv, vas = bits[0], bits[1], bits[2], bits[3:]
                xa = dict(zip(carriers, vas))
                xa[("z", 0)] = 1

                def varval(fam, keys, comp):
                    if fam == OR:
                        return orv
                    if fam == XOR:
                        return xorv
                    if fam == N:
                        return nvl
                    if fam == V:
                        return xa[keys[0] if len(keys) == 1 else keys]
                    raise Unfoldable(f"unexpected family {fam} in gadget")

                env = {"alleles": A, V: {c: c for c in A}, N: {M1: M1}, "func_muts": [M1], "m": M1}
                feas = True
                for s in sites:
                    # outer loop variable (the core variant) is fixed to M1; inner binders are enumerated
                    skip = 1 if s.binders and ast.unparse(s.binders[0][1]) in ("func_muts",) else 0
                    for loc, val in site_values(s, env, varval, defs=defs, skip_binders=skip):
                        if s.sense == "==" and abs(val) > 1e-9:
                            feas = False
                        elif s.sense != "==" and val > 1e-9:
                            feas = False
                want = xorv == 1 and orv == int(any(vas)) and nvl + orv == 1
                ncases += 1
                if feas != want:
                    bad = f"{k} carrier(s): novel={nvl}, OR={orv}, XOR={xorv}, selectors={list(vas)}: feasible={feas}, relation says {want}"
                    break
            if bad:
                break
    except (Unfoldable, Raised, KeyError) as e:
        res.err("C02.R4", f"XOR/OR gadget outside folding language: {e}")
        return
    res.ob("C02.R4", f, sites[0].call, bad is None,
           expected="feasible set = {XOR = 1, OR = any(selectors of carriers), novel + OR = 1} for 0..3 carriers",
           found=f"exact on {ncases} assignments" if bad is None else bad,
           clause="either a called allele carries it or it is flagged as novel, never both and never neither", key="xor-gadget")
    # the gadget exists for every core variant present in the sample
    s0 = sites[0]
    ok = bool(s0.binders) and ast.unparse(s0.binders[0][1]) == "func_muts"
    res.ob("C02.R4", f, s0.call, ok, expected="one gadget per observed core variant", found=ast.unparse(s0.binders[0][1]) if s0.binders else "no loop",
           key="gadget-domain")


def _all_terms(l):
    for k, t in l.terms:
        yield k, t
        if t.kind == "sum":
            yield from _all_terms(t.body)


def r5(repo, res, m, V, N, Efam):
    f = m.func
    obj = m.objective_lin()
    if obj is None:
        res.err("C02.R5", "setObjective not found")
        return
    zs = [n for n, i in m.fams.scalars.items() if i["prefix"] == "NOVEL"]
    nv = {M1: 1, M2: 0, M3: 1}
    seen = []

    def atomval(t):
        if getattr(t, "tag", "") == "abssum":
            seen.append(ast.unparse(t.node.args[0]))
            return 3.25
        return NotImplemented

    def varval(fam, keys, comp):
        if fam == N:
            return nv[keys[0]]
        if zs and fam == zs[0]:
            return 1
        raise Unfoldable(f"unexpected family {fam} in objective")

    try:
        env = {N: {k: k for k in nv}, "coverage": Obj(profile=Obj(major_novel=21.0))}
        got = LinEval(env, varval, atomval=atomval).lin(obj)
    except (Unfoldable, Raised, KeyError) as e:
        res.err("C02.R5", f"objective outside folding language: {e}")
        return
    want = 3.25 + 21.0 * 1 + 0.1 * 2
    res.ob("C02.R5", f, m.objectives[-1], abs(got - want) < 1e-9 and len(seen) == 1 and Efam in seen[0],
           expected="abssum(all fit errors) + major_novel * z + 0.1 * sum(novel flags)",
           found=f"template = {got}, documented = {want}; abssum over {seen}", clause="plus the novelty penalties", key="objective")
    # z >= every novel flag
    ok = False
    for s in m.sites:
        if s.lin is None or not zs:
            continue
        vt = s.lin.var_terms()
        if len(vt) == 2 and {t.fam for _, t in vt} == {zs[0], N} and s.sense in ("<=", ">="):
            cz = [float(k.num) for k, t in vt if t.fam == zs[0]][0]
            cn = [float(k.num) for k, t in vt if t.fam == N][0]
            if cz == -1.0 and cn == 1.0 and s.binders and N in ast.unparse(s.binders[-1][1]):
                ok = True
    res.ob("C02.R5", f, m.objectives[-1], ok, expected="z >= novel[m] for every observed core variant (the side that matters under minimisation)",
           found="present" if ok else "absent", key="novel-indicator")


def r6(repo, res, m, V, N):
    f = m.func
    sol = m.solutions
    ok = len(sol) == 1 and sol[0].args and ast.unparse(sol[0].args[0]).endswith("profile.gap")
    res.ob("C02.R6", f, sol[0] if sol else f, ok, expected="model.solutions(<profile>.gap)", found=ast.unparse(sol[0]) if sol else "no call",
           clause="every admissible combination within the optimality gap is reported", key="gap-passed")
    loop = None
    for n in walk_local(f):
        if isinstance(n, ast.For) and sol and sol[0] in list(ast.walk(n.iter)):
            loop = n
    lk = [n for n in walk_local(f) if isinstance(n, ast.Assign) and isinstance(n.targets[0], ast.Name) and n.targets[0].id == "lookup"]
    if loop is None or not lk:
        res.err("C02.R6", "read-out loop / lookup table not found")
        return
    try:
        keysA = [("1", 0), ("1", 1), ("4", 0), ("36", 0)]
        nameA = m.fams.containers[V]["infos"][0]["name"]
        nameN = m.fams.containers[N]["infos"][0]["name"]
        compA, compN = m.fams.containers[V]["comp"], m.fams.containers[N]["comp"]
        ta, tn = ast.unparse(compA.generators[0].target), ast.unparse(compN.generators[0].target)
        VA = {k: Evaluator({ta: k}).ev(nameA) for k in keysA}
        VN = {k: Evaluator({tn: k}).ev(nameN) for k in (M1, M2)}
        lookup = Evaluator({V: VA, N: VN, "model": Obj(varName=lambda v: v)}).ev(lk[0].value)
        ys = [("optimal", 1.0, (VA["1", 0], VA["4", 0], VN[M1], "OR_x", "XOR_x")),
              ("optimal", 1.0, (VA["4", 0], VA["1", 0], VN[M1], "XOR_x")),
              ("optimal", 1.25, (VA["1", 0], VA["1", 1], "NOVEL")),
              ("optimal", 1.25, (VA["1", 0], VA["1", 1], VN[M1], VN[M2]))]
        made = []
        env = {"lookup": lookup, "gene": "G", "cn_solution": "CN", "coverage": Obj(profile=Obj(gap=0.1)),
               "model": Obj(solutions=lambda g=None: ys), "debug_info": {"sol": []}}
        funcs = {"sorted_tuple": lambda it: tuple(sorted(it)),
                 "SolvedAllele": lambda gene, major=None: ("SA", major),
                 "MajorSolution": lambda score=None, solution=None, cn_solution=None, added=None: made.append(
                     Obj(score=score, solution=solution, cn_solution=cn_solution, added=added, _solution_nice=lambda: "")) or made[-1],
                 "collections.Counter": collections.Counter}
        ev = Evaluator(env, funcs=funcs)
        ev.locals["result"] = {}
        kind, val = ev.run([loop])
        result = ev.locals["result"]
    except (Unfoldable, Raised, KeyError) as e:
        res.err("C02.R6", f"read-out loop outside folding language: {e}")
        return
    got = [(k, v.score, dict(v.solution), v.added, v.cn_solution) for k, v in result.items()]
    want_keys = [(("1", "4"), (M1,)), (("1", "1"), ()), (("1", "1"), (M1, M2))]
    ok = [g[0] for g in got] == want_keys and [g[1] for g in got] == [1.0, 1.25, 1.25] \
        and got[0][2] == {("SA", "1"): 1, ("SA", "4"): 1} and got[1][2] == {("SA", "1"): 2} \
        and got[2][3] == [M1, M2] and all(g[4] == "CN" for g in got)
    res.ob("C02.R6", f, loop, ok,
           expected="solutions keyed by (sorted alleles, sorted novel variants) read back through the A_/N_ names; first occurrence kept; score = objective; added = novel variants",
           found=str([(g[0], g[1]) for g in got])[:200], clause="every admissible combination within the gap is reported exactly once", key="identity")


def r7(repo, res):
    f = repo.func("major::_filter_alleles")
    res.analysed(f)
    gene, alleles, structure = sample()
    alleles["99"] = Obj(cn_config="68", func_muts=set(), minors={}, name="")
    gene.get_rsid = lambda m: "rs"
    cov = collections.defaultdict(int, {M1: 4, M2: 0, M3: 2, INS: 1})
    try:
        loc = fold_defs(f, {"alleles"}, {"gene": gene, "cn_solution": structure, "cov": cov, "log.trace": None},
                        funcs={"copy.deepcopy": copy.deepcopy, "natsorted": sorted})
    except (Unfoldable, Raised) as e:
        res.err("C02.R7", f"_filter_alleles tail outside folding language: {e}")
        return
    got = set(loc.get("alleles", {}))
    want = {"1", "2", "15", "10"}  # "4" and "36" need M2 (unsupported); "99" has a configuration outside the structure
    res.ob("C02.R7", f, f, got == want and set(gene.alleles) == set(alleles),
           expected="an allele is a candidate iff its configuration is in the structure and every core variant has filtered support",
           found=f"kept {sorted(got)} (expected {sorted(want)}); catalogue untouched: {set(gene.alleles) == set(alleles)}",
           clause="candidate selection", key="candidate-filter")
    # the support test reads the twice-filtered coverage: C15.R1 decides that
    g = repo.func("major::estimate_major")
    res.analysed(g)
    out = []
    try:
        for have36 in (True, False):
            al = {"1": Obj(cn_config="1"), "2": Obj(cn_config="1")}
            if have36:
                al["36"] = Obj(cn_config="36")
            env = {"gene": "G", "coverage": Obj(dump=lambda x: None), "cn_solution": Obj(solution={"1": 2, "36": 1}, _solution_nice=lambda: ""),
                   "solver": "any", "identifier": 0, "debug": None, "log.trace": None}
            k, v = Evaluator(env, funcs={"_filter_alleles": lambda g_, c, s, al=al: (al, Obj(dump=lambda x: None)),
                                         "solve_major_model": lambda *a, **kw: ["SOLVED"]}).run(
                [s for s in g.body if not (isinstance(s, ast.Expr) and isinstance(s.value, ast.Constant))])
            out.append((k, v))
    except (Unfoldable, Raised) as e:
        res.err("C02.R7", f"estimate_major outside folding language: {e}")
        return
    ok = out[0] == ("return", ["SOLVED"]) and out[1] == ("return", [])
    res.ob("C02.R7", g, g, ok, expected="no candidate for some configuration of the structure -> no solution; otherwise the model is solved",
           found=str(out), key="empty-configuration")


VAL_SEED = 0


def r8(repo, res, m, N):
    """Optional families may be absent, but must not be stronger than documented: the one-novel-per-site rule exempts
    insertions (an insertion and a substitution at one site can both be novel) and never spans two sites."""
    f = m.func
    n = 0
    for s in m.sites:
        if s.lin is None or s.lin.var_terms() or s.sense == "==":
            continue
        sums = s.lin.sum_terms()
        if len(sums) != 1 or s.lin.const_value({}) is None:
            continue
        k, t = sums[0]
        body = t.body
        if not (len(body.terms) == 1 and body.terms[0][1].kind == "var" and body.terms[0][1].fam == N and float(k.num) > 0):
            continue
        if len(t.binders) != 1 or not any("pos" in ast.unparse(x) for x, _ in t.filters):
            continue
        n += 1
        bound = -s.lin.const_value({}) / float(k.num)
        cands = [Mut(100, "A>G"), Mut(100, "A>T"), Mut(100, "insT"), Mut(200, "C>T")]
        inc = []
        try:
            for c_ in cands:
                ev = Evaluator({N: {x: x for x in cands}, "pos": 100})
                tgt, it = t.binders[0]
                for item in list(ev.ev(it)):
                    ev._assign(tgt, item)
                    key = ev.ev(body.terms[0][1].keys[0])
                    if key == c_ and all(bool(ev.ev(flt)) == pol for flt, pol in t.filters):
                        inc.append(c_)
        except (Unfoldable, Raised) as e:
            res.note(f"C02.R8: one-novel-per-site family not in the folding language ({e}); not judged")
            continue
        ok = set(inc) <= {Mut(100, "A>G"), Mut(100, "A>T")} and bound >= 1
        res.ob("C02.R8", f, s.call, ok,
               expected="at most one novel *non-insertion* variant per site (insertions and other sites are not part of the sum)",
               found=f"sum ranges over {sorted(map(str, inc))} <= {bound:g}",
               clause="every admissible combination within the optimality gap is reported (an over-tight optional rule makes admissible combinations infeasible)",
               key="one-novel-per-site")
    res.count("C02.R8:one-novel-per-site sites", n)


def run(repo, res):
    global VAL_SEED
    from sa.report import seed as _seed, thorough

    rounds = [0] if not thorough() else [0] + [1 + (_seed() + j) % 97 for j in range(4)]
    for sd in rounds:
        VAL_SEED = sd
        _run(repo, res)
    res.count("C02:valuations evaluated per template", len(rounds))
    VAL_SEED = 0


def _run(repo, res):
    f = repo.func("major::solve_major_model")
    res.analysed(f)
    m = Model(f, ["constraints"])
    res.floor("C02", "addConstr sites", len(m.sites), 8)
    res.count("C02:constraint sites", len(m.sites))
    V = r12(repo, res, m)
    if V is None:
        return
    N, Efam = r3(repo, res, m, V)
    if N is None:
        return
    r3b(repo, res, m)
    r4(repo, res, m, V, N)
    r5(repo, res, m, V, N, Efam)
    r6(repo, res, m, V, N)
    r8(repo, res, m, N)
    r7(repo, res)


MUTANTS = [
    dict(name="R1 CSAT side dropped", module="major", expect="C02.R1",
         old='        model.addConstr(expr >= cnt, name=f"CSAT_{cnf}")\n', new=""),
    dict(name="R1 CSAT counts copies of any configuration", module="major", expect="C02.R1",
         old="        expr = sum(VA[a] for a in VA if alleles[a].cn_config == cnf)", new="        expr = sum(VA[a] for a in VA)"),
    dict(name="R2 one copy too few", module="major", expect="C02.R2",
         old="        for i in range(1, max_cn):\n            alleles[an, i] = alleles[an, 0]", new="        for i in range(1, max_cn - 1):\n            alleles[an, i] = alleles[an, 0]"),
    dict(name="R3 fit side dropped", module="major", expect="C02.R3",
         old='        model.addConstr(expr + VERR[m] >= cov, name=f"CFUNC_{m.pos}_{m.op}")\n', new=""),
    dict(name="R3 novel variant not in its equation", module="major", expect="C02.R3",
         old="    for m, v in VNEW.items():\n        constraints[m] += v\n", new=""),
    dict(name="R3 has_coverage test removed from reference equation", module="major", expect="C02.R3",
         old="            if not gene.has_coverage(a[0], pos):\n                continue\n            # An insertion", new="            # An insertion"),
    dict(name="R3 insertion exemption removed", module="major", expect="C02.R3",
         old='            if any(ma[0] == pos and ma[1][:3] != "ins" for ma in alleles[a].func_muts):',
         new="            if any(ma[0] == pos for ma in alleles[a].func_muts):"),
    dict(name="R3 error variable non-negative", module="major", expect="C02.R3",
         old='        m: model.addVar(lb=-model.INF, ub=model.INF, name=f"E_{m.pos}_{m.op}")', new='        m: model.addVar(lb=0, ub=model.INF, name=f"E_{m.pos}_{m.op}")'),
    dict(name="R3 zero guard dropped", module="major", expect="C02.R3",
         old="        if coverage.single_copy(m.pos, cn_solution) == 0:\n            cov = 0.0\n        else:\n            cov = coverage[m] / coverage.single_copy(m, cn_solution)",
         new="        cov = coverage[m] / max(1e-9, coverage.single_copy(m, cn_solution))"),
    dict(name="R4 VXOR >= 1 dropped", module="major", expect="C02.R4",
         old='        model.addConstr(VXOR >= 1, name="CXOR")\n', new=""),
    dict(name="R4 XOR upper bound dropped (both allowed)", module="major", expect="C02.R4",
         old='        model.addConstr(VXOR <= 2 - VNEW[m] - VOR, name="CXOR")\n', new=""),
    dict(name="R4 XOR other upper bound dropped (neither allowed)", module="major", expect="C02.R4",
         old='        model.addConstr(VXOR <= VNEW[m] + VOR, name="CXOR")\n', new=""),
    dict(name="R4 OR lower bounds dropped", module="major", expect="C02.R4",
         old='        for a in m_all:\n            model.addConstr(VOR >= VA[a], name="COR")\n', new=""),
    dict(name="R4 OR upper bound dropped", module="major", expect="C02.R4",
         old='        model.addConstr(VOR <= model.quicksum(VA[a] for a in m_all), name="COR")\n', new=""),
    dict(name="R5 0.1 term dropped", module="major", expect="C02.R5",
         old="    objective += 0.1 * model.quicksum(VNEW[m] for m in VNEW)\n", new=""),
    dict(name="R5 novelty penalty dropped", module="major", expect="C02.R5",
         old="    objective += coverage.profile.major_novel * z\n", new=""),
    dict(name="R5 z not tied to the flags", module="major", expect="C02.R5",
         old='        model.addConstr(z >= VNEW[m], name=f"NOVEL_UB_{VNEW[m]}")', new="        pass"),
    dict(name="R6 gap not passed", module="major", expect="C02.R6",
         old="    for status, opt, sol in model.solutions(coverage.profile.gap):", new="    for status, opt, sol in model.solutions():"),
    dict(name="R6 identity by alleles only", module="major", expect="C02.R6",
         old="        if (solved_alleles, novel_muts) not in result:", new="        if (solved_alleles, ()) not in result and not any(k[0] == solved_alleles for k in result):"),
    dict(name="R6 novel variants not reported", module="major", expect="C02.R6",
         old="                added=list(novel_muts),", new="                added=[],"),
    dict(name="R7 unsupported allele kept", module="major", expect="C02.R7",
         old="        elif any(cov[m] <= 0 for m in a.func_muts):", new="        elif all(cov[m] <= 0 for m in a.func_muts) and a.func_muts:"),
    dict(name="R7 missing configuration ignored", module="major", expect="C02.R7",
         old="    if set(cn_solution.solution) - set(a.cn_config for a in alleles.values()):", new="    if not alleles:"),
    dict(name="R3 observed copies divided by the pile-up depth (seeded C02_b1 shape)", module="major", expect="C02.R3",
         old="            cov = coverage[m] / coverage.single_copy(m, cn_solution)", new="            cov = coverage[m] / coverage.single_copy(m.pos, cn_solution)"),
    dict(name="R8 one-novel-per-site also counts insertions (seeded C02_b4 shape)", module="major", expect="C02.R8",
         old='            v for m, v in VNEW.items() if m[0] == pos and m[1][:3] != "ins"', new="            v for m, v in VNEW.items() if m[0] == pos"),
    # benign
    dict(name="benign: CSAT as ==", module="major", kind="benign",
         old='        model.addConstr(expr <= cnt, name=f"CSAT_{cnf}")\n        model.addConstr(expr >= cnt, name=f"CSAT_{cnf}")',
         new='        model.addConstr(expr == cnt, name=f"CSAT_{cnf}")'),
    dict(name="benign: CORD dropped", module="major", kind="benign",
         old='            model.addConstr(VA[a, ai] <= VA[a, ai - 1], name=f"CORD_{a}_{ai}")', new="            pass"),
    dict(name="benign: CONE dropped", module="major", kind="benign",
         old='        model.addConstr(z <= 1, name=f"CONE_{pos}")', new="        pass"),
    dict(name="benign: XOR as one equality", module="major", kind="benign",
         old='''        model.addConstr(VXOR <= VNEW[m] + VOR, name="CXOR")
        model.addConstr(VXOR <= 2 - VNEW[m] - VOR, name="CXOR")
        model.addConstr(VXOR >= VNEW[m] - VOR, name="CXOR")
        model.addConstr(VXOR >= VOR - VNEW[m], name="CXOR")
        model.addConstr(VXOR >= 1, name="CXOR")''',
         new='''        model.addConstr(VNEW[m] + VOR == 1, name="CXOR")
        model.addConstr(VXOR >= 1, name="CXOR")'''),
    dict(name="benign: NOVEL_LB dropped", module="major", kind="benign",
         old='    model.addConstr(z <= model.quicksum(VNEW[m] for m in VNEW), name="NOVEL_LB")\n', new=""),
]
