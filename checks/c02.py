"""
C02 -- major star-allele calls are consistent, optimal and complete.

Decided by whole-function folding against the recording MILP library (sa.lpmodel): major.solve_major_model and the
solver wrapper class of /repo are executed by the analysis' interpreter on sample instances.
(R9) Given a `solutions` that walks every feasible point of the recorded model, the routine's own read-out lists every
     combination its model admits, with its score: this set
     equals the independent reading of the statement (each configuration gets exactly its copies; every observed core
     variant is carried or novel, never both, never neither; score = fit error + novelty penalties); the only tolerated
     extra restriction is "one novel substitution per site".
(R10) With gap 0 / 0.1 / 0.5 the report is exactly the admissible combinations within (1 + gap) x best, best first, once.
(R7) candidate selection (_filter_alleles folded whole on a two-stage evidence stub) and estimate_major's empty-configuration
     short cut.
The template rules R1-R6/R8 of the first build (per-constraint normal forms keyed by local names) were retired for R9/R10.
Not decided: that CBC returns all optima; the noise-free "error zero" claim on the shipped databases.
"""

import ast
import collections
import copy
import itertools

from sa.fold import Evaluator, Obj, Raised, Unfoldable, single_defs
from sa.ilp import Model
from sa.lineval import LinEval, bindings, fold_defs, scatter_value, site_values
from sa.loader import AnalysisError, call_name, calls_in, kwarg, walk_local

PROPERTY = "C02"
EXPLANATION = (
    "Model extraction by whole-function folding: solve_major_model + lpinterface.CBC/Gurobi of /repo run in the analysis' interpreter "
    "against a recording library stand-in whose Solve() enumerates the integer variables exhaustively (continuous part by the "
    "analysis' own simplex). Per sample instance (4 fixed + 4 / 24 seeded random: 2-6 candidate alleles over 1-2 configurations, "
    "substitutions, an insertion and a deletion sharing sites, fusion alleles without copies at a site, unexplained variants, "
    "variant-specific single-copy depth, zero depth, non-default novelty penalty) the complete report (gap = 1e9) is compared with an "
    "independent enumeration of all admissible combinations and their fit errors; the reports at gap 0/0.1/0.5 with the within-gap sets. "
    "_filter_alleles and estimate_major folded whole."
)
ASSUMPTIONS = ["CONE_* (at most one novel substitution per site) is tolerated as an extra restriction: combinations that need two are don't-care"]


class Mut(collections.namedtuple("Mutation", ["pos", "op"])):
    def __str__(self):
        return f"{self.pos + 1}.{self.op}"


M1, M2, M3, INS = Mut(100, "A>G"), Mut(200, "C>T"), Mut(300, "G>A"), Mut(100, "insT")


def sample():
    allele = lambda cfg, muts: Obj(cn_config=cfg, func_muts=set(muts), minors={}, name="")  # noqa
    alleles = {"1": allele("1", []), "2": allele("1", [M1]), "4": allele("1", [M1, M2]), "15": allele("1", [INS]),
               "10": allele("1", [M3]), "36": allele("36", [M2])}
    no_cov = {("36", 300)}
    gene = Obj(name="G", alleles=alleles,
               mutations={tuple(m): ("fn", "rs", 0, 0, "") for m in (M1, M2, M3, INS)},
               is_functional=lambda m, infer=True: True,
               has_coverage=lambda a, pos: (a, pos) not in no_cov)
    structure = Obj(solution=collections.Counter({"1": 2, "36": 1}))
    return gene, alleles, structure


def r7(repo, res):
    from sa.fold import Lifted

    f = repo.func("major::_filter_alleles")
    res.analysed(f)
    gene, alleles, structure = sample()
    alleles["99"] = Obj(cn_config="68", func_muts=set(), minors={}, name="")
    gene.get_rsid = lambda m: "rs"
    structure.position_cn = lambda pos: 2
    structure.max_cn = lambda: 3
    support = collections.defaultdict(int, {M1: 4, M2: 0, M3: 2, INS: 1})
    passes = []

    class Cov:
        _fold_ok = True
        profile = Obj(debug_probe="", cn_max=20)

        def __init__(self, stage=0):
            self.stage = stage

        def filtered(self, fn):
            passes.append(fn)
            return Cov(self.stage + 1)

        def __getitem__(self, m):
            return support[Mut(*m)] if self.stage == 2 else 99   # only the twice-filtered evidence shows the unsupported variant

        def dump(self, *a):
            return None

    try:
        out = Lifted(f, funcs={"copy.deepcopy": copy.deepcopy, "natsorted": lambda it, key=None: sorted(it, key=key)},
                     env={"Coverage": Obj(quality_filter="QUALITY")})(gene, Cov(), structure)
    except (Unfoldable, Raised) as e:
        res.err("C02.R7", f"_filter_alleles outside folding language: {e}")
        return
    got = set(out[0]) if isinstance(out, tuple) and len(out) == 2 else None
    want = {"1", "2", "15", "10"}  # "4" and "36" need M2 (unsupported); "99" has a configuration outside the structure
    twice = isinstance(out, tuple) and len(out) == 2 and getattr(out[1], "stage", None) == 2 and passes[:1] == ["QUALITY"]
    res.ob("C02.R7", f, f, got == want and set(gene.alleles) == set(alleles) and twice,
           expected="an allele is a candidate iff its configuration is in the structure and every core variant has support in the quality- and threshold-filtered evidence, which is what is returned",
           found=f"kept {sorted(got) if got is not None else out} (expected {sorted(want)}); catalogue untouched: {set(gene.alleles) == set(alleles)}; evidence filtered {getattr(out[1], 'stage', None) if isinstance(out, tuple) else None}x",
           clause="candidate selection", key="candidate-filter")
    # the support test reads the twice-filtered coverage: C15.R1 decides that
    g = repo.func("major::estimate_major")
    res.analysed(g)
    out = []
    try:
        for have36 in (True, False):
            al = {"1": Obj(cn_config="1"), "2": Obj(cn_config="1")}
            if have36:
                al["36"] = Obj(cn_config="36")
            env = {"gene": "G", "coverage": Obj(dump=lambda x: None), "cn_solution": Obj(solution={"1": 2, "36": 1}, _solution_nice=lambda: ""),
                   "solver": "any", "identifier": 0, "debug": None, "log.trace": None}
            k, v = Evaluator(env, funcs={"_filter_alleles": lambda g_, c, s, al=al: (al, Obj(dump=lambda x: None)),
                                         "solve_major_model": lambda *a, **kw: ["SOLVED"]}).run(
                [s for s in g.body if not (isinstance(s, ast.Expr) and isinstance(s.value, ast.Constant))])
            out.append((k, v))
    except (Unfoldable, Raised) as e:
        res.err("C02.R7", f"estimate_major outside folding language: {e}")
        return
    ok = out[0] == ("return", ["SOLVED"]) and out[1] == ("return", [])
    res.ob("C02.R7", g, g, ok, expected="no candidate for some configuration of the structure -> no solution; otherwise the model is solved",
           found=str(out), key="empty-configuration")


VAL_SEED = 0


def major_instances():
    """Sample instances of the major stage: fixed ones and seeded random ones (planted combination, multiplicative noise)."""
    import random

    from checks._majormodel import Instance, Mut as MM
    from sa.report import seed as _seed, thorough

    rnd = random.Random(_seed() + 40)
    A1, A2, A3, AI, A4, AD = MM(100, "A>G"), MM(200, "C>T"), MM(300, "G>A"), MM(100, "insT"), MM(100, "A>T"), MM(250, "delAC")
    DI = MM(250, "delGCinsA")
    pool = {"1": ("1", []), "2": ("1", [A1]), "4": ("1", [A1, A2]), "15": ("1", [AI]), "10": ("1", [A3]), "17": ("1", [A4, A3]),
            "9": ("1", [AD]), "27": ("1", [DI]), "36": ("36", [A2]), "57": ("36", [A2, A3]), "13": ("13", [A1]),
            "68#2": ("36", [A2]), "4.021": ("1", [A1, A2])}   # names the solver interface has to escape ('#', '.')
    out = [
        Instance({k: pool[k] for k in ("1", "2", "4.021", "15", "10", "68#2")}, {"1": 2, "36": 1},
                 {A1: 11, A2: 19, A3: 2, AI: 4, MM(100, "_"): 18, MM(200, "_"): 12, MM(300, "_"): 27}, no_cov={("68#2", 300)},
                 single={AI: 4.0}),   # the insertion has its own (indel-aware) single-copy depth
        # two unexplained substitutions at one site (the one-novel-per-site rule bites) and an unexplained insertion there
        Instance({k: pool[k] for k in ("1", "10")}, {"1": 2}, {A1: 9, A4: 8, AI: 5, A3: 10, MM(100, "_"): 3, MM(300, "_"): 10}, present=[A1, A4, AI]),
        # a position without single-copy depth; a non-default novelty penalty
        Instance({k: pool[k] for k in ("1", "2", "9")}, {"1": 3}, {A1: 20, AD: 7, MM(100, "_"): 10, MM(250, "_"): 21}, single={250: 0.0}, major_novel=2.5),
        # a deletion-insertion core variant (it is not an insertion: its carrier is no reference copy at that site)
        Instance({k: pool[k] for k in ("1", "27")}, {"1": 2}, {DI: 10, MM(250, "_"): 10}),
        # observed copies in thirds (single-copy depth 18.75 = 75 reads / 4 copies): tied combinations whose float sums differ in the last digits
        Instance({k: pool[k] for k in ("1", "2", "10", "4")}, {"1": 4}, {A1: 50, A2: 25, A3: 25, MM(100, "_"): 25, MM(200, "_"): 50, MM(300, "_"): 50},
                 single={100: 18.75, 200: 18.75, 300: 18.75}),
        # two combinations that tie exactly (5/7-th copies) while their floating-point sums differ in the last digit: both are optimal
        Instance({k: pool[k] for k in ("1", "2", "4")}, {"1": 4}, {A1: 15, MM(100, "_"): 55, A2: 40, MM(200, "_"): 30}, single={100: 17.5, 200: 17.5}),
        # one copy of one configuration, nothing observed
        Instance({"1": pool["1"]}, {"1": 1}, {}),
        # the catalogue knows core variants nobody observed (no read) and no candidate carries: they play no part
        Instance({k: pool[k] for k in ("1", "2")}, {"1": 2}, {A1: 9, MM(100, "_"): 11, A3: 0, MM(300, "_"): 20}, present=[A3, AD]),
        # an allele for every subset of three variants, three copies, a wide gap: 41 combinations within (1 + 7) x best, five of them tied for best
        Instance({"1": ("1", []), "2": ("1", [A1]), "31": ("1", [A2]), "10": ("1", [A3]), "4": ("1", [A1, A2]), "32": ("1", [A1, A3]), "33": ("1", [A2, A3]),
                  "34": ("1", [A1, A2, A3])}, {"1": 3}, {A1: 12, A2: 9, A3: 11, MM(100, "_"): 19, MM(200, "_"): 21, MM(300, "_"): 20}, gaps=(0.0, 7.0)),
    ]

    def random_instance():
        names = ["1"] + rnd.sample([k for k in pool if k != "1"], rnd.randint(1, 5))
        cfgs = sorted({pool[k][0] for k in names})
        structure = {c: rnd.randint(1, 2 if len(cfgs) > 1 else 3) for c in cfgs}
        planted = [rnd.choice([k for k in names if pool[k][0] == c]) for c, n_ in structure.items() for _ in range(n_)]
        no_cov = {(k, 300) for k in names if pool[k][0] == "36"} if rnd.random() < 0.5 else set()
        vars_ = sorted({m for k in names for m in pool[k][1]})
        reads = {}
        for m in vars_:
            c = sum(1 for k in planted if m in pool[k][1])
            reads[m] = max(1, int(round(10 * c * rnd.uniform(0.6, 1.4)))) if c or rnd.random() < 0.8 else rnd.randint(1, 4)
        extra = [m for m in (A4, AI) if m not in vars_ and rnd.random() < 0.3]
        for m in extra:
            reads[m] = rnd.randint(2, 9)
        for p_ in sorted({m.pos for m in list(reads)}):
            c = sum(1 for k in planted if (k, p_) not in no_cov and not any(m.pos == p_ and not m.op.startswith("ins") for m in pool[k][1]))
            reads[MM(p_, "_")] = int(round(10 * c * rnd.uniform(0.7, 1.3)))
        return Instance({k: pool[k] for k in names}, structure, reads, no_cov=no_cov, present=extra,
                        major_novel=rnd.choice([21.0, 21.0, 3.0]))

    for _ in range(24 if thorough() else 4):
        out.append(random_instance())
    return out


def r9(repo, res):
    """solve_major_model folded whole against the recording library. (R9) the routine's own read-out over every feasible point of the
    recorded model lists every admissible combination with its score: compared with the independent reading of the statement. (R10) with gap 0 / 0.1 /
    0.5: the report is exactly the admissible combinations within the gap, best first, each once."""
    from checks._majormodel import fold_solve_major, reference
    from sa.fold import module_consts
    from sa.lpmodel import wrapper_model

    f = repo.func("major::solve_major_model")
    res.analysed(f)
    prec = module_consts(repo.mod("lpinterface")).get("SOLVER_PRECISON", 1e-5)
    wrapper = wrapper_model(repo)
    bad = {}
    n = combos = 0

    def key(row):
        return (tuple(sorted(a for a, c in row[1].items() for _ in range(c))), row[2])

    for inst in major_instances():
        ref = reference(inst)
        combos += len(ref)
        try:
            kind, rows = fold_solve_major(repo, inst, 0.0, wrapper, every=True)
        except Unfoldable as e:
            res.err("C02.R9", f"solve_major_model outside the folding language: {e}")
            continue   # no verdict on this instance; what the others show is still reported
        n += 1
        tag = inst.describe()
        if kind == "raise":
            bad.setdefault("runs", f"{tag}: raises {rows}")
            continue
        got = {}
        for row in rows:
            if key(row) in got:
                bad.setdefault("repeat", f"{tag}: combination {key(row)} is reported twice")
            got[key(row)] = row[0]
            if not row[3]:
                bad.setdefault("chain", f"{tag}: a reported combination does not carry the gene structure it was computed for")
        exact = {k_: v_[2] for k_, v_ in ref.items()}
        ref = {k_: (v_[0], v_[1]) for k_, v_ in ref.items()}
        must = {k_ for k_, (sc, one) in ref.items() if one}          # admissible under every reading
        may = set(ref)                                              # admissible if the one-novel-per-site rule is not applied
        extra = sorted(set(got) - may)
        missing = sorted(must - set(got))
        if extra:
            k_ = extra[0]
            cnt = collections.Counter(k_[0])
            why = "its alleles do not match the structure's configurations" if {c: sum(v for a, v in cnt.items() if inst.alleles.get(a, ("?",))[0] == c)
                                                                                for c in inst.structure} != dict(inst.structure) else \
                  "an observed core variant is carried and flagged novel, or neither"
            bad.setdefault("admissible", f"{tag}: reports alleles {k_[0]} with novel {[str(m) for m in k_[1]]}: {why}")
        if missing:
            k_ = missing[0]
            bad.setdefault("complete", f"{tag}: the admissible combination {k_[0]} with novel {[str(m) for m in k_[1]]} (fit error {ref[k_][0]:.4f}) cannot be expressed / is never reported")
        diff = [(k_, got[k_], ref[k_][0]) for k_ in got if k_ in ref and abs(got[k_] - ref[k_][0]) > 1e-6]
        if diff:
            k_, a_, b_ = diff[0]
            bad.setdefault("score", f"{tag}: combination {k_[0]} with novel {[str(m) for m in k_[1]]} is scored {a_:.6f}; its fit error is {b_:.6f}")
        # the report at the documented gaps
        for gap in inst.gaps:
            try:
                kind, rows = fold_solve_major(repo, inst, gap, wrapper)
            except Unfoldable as e:
                res.err("C02.R10", f"solve_major_model outside the folding language: {e}")
                continue   # no verdict on this instance; what the others show is still reported
            if kind == "raise":
                bad.setdefault("runs", f"{tag}, gap {gap}: raises {rows}")
                continue
            rep = [(key(r_), r_[0]) for r_ in rows]
            allowed = {k_: sc for k_, (sc, one) in ref.items() if k_ in got}   # what this model can express (decided above)
            if not allowed:
                if rep:
                    bad.setdefault("report", f"{tag}, gap {gap}: reports {rep} although no combination is admissible")
                continue
            best = min(allowed.values())
            ub = (1 + gap) * best
            want = {k_ for k_, sc in allowed.items() if sc <= ub + prec}
            from fractions import Fraction
            best_exact = min(exact[k_] for k_ in allowed)
            # a combination whose documented objective is exactly within (1 + gap) x best must be reported, whatever the rounding of the sums
            sure = {k_ for k_ in allowed if exact[k_] <= (1 + Fraction(str(gap))) * best_exact and allowed[k_] <= ub + prec}
            keys = [k_ for k_, _ in rep]
            if len(set(keys)) != len(keys):
                bad.setdefault("report", f"{tag}, gap {gap}: a combination is reported twice: {keys}")
            if not (sure <= set(keys) <= want):
                bad.setdefault("report", f"{tag}, gap {gap}: reports {sorted(set(keys), key=str)}; the combinations within (1 + gap) x {best:.4f} are {sorted(want, key=str)}")
            if rep and abs(rep[0][1] - best) > 1e-6:
                bad.setdefault("report", f"{tag}, gap {gap}: the first reported combination scores {rep[0][1]:.6f}, the best admissible one {best:.6f}")
            if any(rep[i][1] > rep[i + 1][1] + 1e-9 for i in range(len(rep) - 1)):
                bad.setdefault("report", f"{tag}, gap {gap}: not best first: {[round(x[1], 4) for x in rep]}")
    res.count("C02.R9:instances folded", n)
    res.count("C02.R9:admissible combinations compared", combos)
    clauses = {
        "runs": ("C02.R9", "the model is built and solved on every sample instance", ""),
        "admissible": ("C02.R9", "every combination the model admits gives each configuration exactly its copies and accounts for every observed core variant exactly once",
                       "gives each structural configuration exactly as many alleles as the structure has copies of it and accounts for every observed core variant exactly once"),
        "complete": ("C02.R9", "every admissible combination can be expressed (one novel substitution per site at most is the only tolerated extra restriction)",
                     "every admissible combination within the optimality gap is reported"),
        "score": ("C02.R9", "score = sum |observed - called copies| over core variants and reference alleles at their sites + novelty penalties",
                  "the reported score equals the fit error of that combination"),
        "repeat": ("C02.R9", "no combination is reported twice", "reported exactly once"),
        "chain": ("C02.R9", "a reported combination carries the gene structure it was computed for", ""),
        "report": ("C02.R10", "for gap 0 / 0.1 / 0.5 the report is exactly the admissible combinations within (1 + gap) x best, best first, each once",
                   "no admissible combination scores lower, and every admissible combination within the optimality gap is reported exactly once"),
    }
    for key_, (rule, exp, clause) in clauses.items():
        res.ob(rule, f, f, key_ not in bad, expected=exp, found=f"{n} instances, {combos} admissible combinations agree" if key_ not in bad else bad[key_],
               clause=clause, key=f"model:{key_}")


def run(repo, res):
    r9(repo, res)
    r7(repo, res)


MUTANTS = [
    dict(name="R9 novel candidates without support test (formerly C15.R4)", module="major", expect=["C02.R9", "C02.R10"],
         old="        if gene.is_functional(m) and coverage[Mutation(*m)] > 0", new="        if gene.is_functional(m)"),
    dict(name="R5 read-back keyed by raw name", module="major", expect=["C02.R9", "C02.R10"],
         old="        **{model.varName(v): a for a, v in VA.items()},", new='        **{f"A_{a[0]}_{a[1]}": a for a, v in VA.items()},'),
    dict(name="R1 CSAT side dropped", module="major", expect=["C02.R9", "C02.R10"],
         old='        model.addConstr(expr >= cnt, name=f"CSAT_{cnf}")\n', new=""),
    dict(name="R1 CSAT counts copies of any configuration", module="major", expect=["C02.R9", "C02.R10"],
         old="        expr = sum(VA[a] for a in VA if alleles[a].cn_config == cnf)", new="        expr = sum(VA[a] for a in VA)"),
    dict(name="R2 one copy too few", module="major", expect=["C02.R9", "C02.R10"],
         old="        for i in range(1, max_cn):\n            alleles[an, i] = alleles[an, 0]", new="        for i in range(1, max_cn - 1):\n            alleles[an, i] = alleles[an, 0]"),
    dict(name="R3 fit side dropped", module="major", expect=["C02.R9", "C02.R10"],
         old='        model.addConstr(expr + VERR[m] >= cov, name=f"CFUNC_{m.pos}_{m.op}")\n', new=""),
    dict(name="R3 novel variant not in its equation", module="major", expect=["C02.R9", "C02.R10"],
         old="    for m, v in VNEW.items():\n        constraints[m] += v\n", new=""),
    dict(name="R3 has_coverage test removed from reference equation", module="major", expect=["C02.R9", "C02.R10"],
         old="            if not gene.has_coverage(a[0], pos):\n                continue\n            # An insertion", new="            # An insertion"),
    dict(name="R3 insertion exemption removed", module="major", expect=["C02.R9", "C02.R10"],
         old='            if any(ma[0] == pos and ma[1][:3] != "ins" for ma in alleles[a].func_muts):',
         new="            if any(ma[0] == pos for ma in alleles[a].func_muts):"),
    dict(name="R3 error variable non-negative", module="major", expect=["C02.R9", "C02.R10"],
         old='        m: model.addVar(lb=-model.INF, ub=model.INF, name=f"E_{m.pos}_{m.op}")', new='        m: model.addVar(lb=0, ub=model.INF, name=f"E_{m.pos}_{m.op}")'),
    dict(name="R3 zero guard dropped", module="major", expect=["C02.R9", "C02.R10"],
         old="        if coverage.single_copy(m.pos, cn_solution) == 0:\n            cov = 0.0\n        else:\n            cov = coverage[m] / coverage.single_copy(m, cn_solution)",
         new="        cov = coverage[m] / max(1e-9, coverage.single_copy(m, cn_solution))"),
    dict(name="R4 VXOR >= 1 dropped", module="major", expect=["C02.R9", "C02.R10"],
         old='        model.addConstr(VXOR >= 1, name="CXOR")\n', new=""),
    dict(name="R4 XOR upper bound dropped (both allowed)", module="major", expect=["C02.R9", "C02.R10"],
         old='        model.addConstr(VXOR <= 2 - VNEW[m] - VOR, name="CXOR")\n', new=""),
    dict(name="R4 XOR other upper bound dropped (neither allowed)", module="major", expect=["C02.R9", "C02.R10"],
         old='        model.addConstr(VXOR <= VNEW[m] + VOR, name="CXOR")\n', new=""),
    dict(name="R4 OR lower bounds dropped", module="major", expect=["C02.R9", "C02.R10"],
         old='        for a in m_all:\n            model.addConstr(VOR >= VA[a], name="COR")\n', new=""),
    dict(name="R4 OR upper bound dropped", module="major", expect=["C02.R9", "C02.R10"],
         old='        model.addConstr(VOR <= model.quicksum(VA[a] for a in m_all), name="COR")\n', new=""),
    dict(name="R5 0.1 term dropped", module="major", expect=["C02.R9", "C02.R10"],
         old="    objective += 0.1 * model.quicksum(VNEW[m] for m in VNEW)\n", new=""),
    dict(name="R5 novelty penalty dropped", module="major", expect=["C02.R9", "C02.R10"],
         old="    objective += coverage.profile.major_novel * z\n", new=""),
    dict(name="R5 z not tied to the flags", module="major", expect=["C02.R9", "C02.R10"],
         old='        model.addConstr(z >= VNEW[m], name=f"NOVEL_UB_{VNEW[m]}")', new="        pass"),
    dict(name="R6 gap not passed", module="major", expect=["C02.R9", "C02.R10"],
         old="    for status, opt, sol in model.solutions(coverage.profile.gap):", new="    for status, opt, sol in model.solutions():"),
    dict(name="benign: identity by alleles only (the novel set is a function of the called alleles)", module="major", kind="benign",
         old="        if (solved_alleles, novel_muts) not in result:", new="        if (solved_alleles, ()) not in result and not any(k[0] == solved_alleles for k in result):"),
    dict(name="R6 novel variants not reported", module="major", expect=["C02.R9", "C02.R10"],
         old="                added=list(novel_muts),", new="                added=[],"),
    dict(name="R7 unsupported allele kept", module="major", expect="C02.R7",
         old="        elif any(cov[m] <= 0 for m in a.func_muts):", new="        elif all(cov[m] <= 0 for m in a.func_muts) and a.func_muts:"),
    dict(name="R7 missing configuration ignored", module="major", expect="C02.R7",
         old="    if set(cn_solution.solution) - set(a.cn_config for a in alleles.values()):", new="    if not alleles:"),
    dict(name="R3 observed copies divided by the pile-up depth (seeded C02_b1 shape)", module="major", expect=["C02.R9", "C02.R10"],
         old="            cov = coverage[m] / coverage.single_copy(m, cn_solution)", new="            cov = coverage[m] / coverage.single_copy(m.pos, cn_solution)"),
    dict(name="R8 one-novel-per-site also counts insertions (seeded C02_b4 shape)", module="major", expect=["C02.R9", "C02.R10"],
         old='            v for m, v in VNEW.items() if m[0] == pos and m[1][:3] != "ins"', new="            v for m, v in VNEW.items() if m[0] == pos"),
    # benign
    dict(name="benign: CSAT as ==", module="major", kind="benign",
         old='        model.addConstr(expr <= cnt, name=f"CSAT_{cnf}")\n        model.addConstr(expr >= cnt, name=f"CSAT_{cnf}")',
         new='        model.addConstr(expr == cnt, name=f"CSAT_{cnf}")'),
    dict(name="benign: CORD dropped", module="major", kind="benign",
         old='            model.addConstr(VA[a, ai] <= VA[a, ai - 1], name=f"CORD_{a}_{ai}")', new="            pass"),
    dict(name="benign: CONE dropped", module="major", kind="benign",
         old='        model.addConstr(z <= 1, name=f"CONE_{pos}")', new="        pass"),
    dict(name="benign: XOR as one equality", module="major", kind="benign",
         old='''        model.addConstr(VXOR <= VNEW[m] + VOR, name="CXOR")
        model.addConstr(VXOR <= 2 - VNEW[m] - VOR, name="CXOR")
        model.addConstr(VXOR >= VNEW[m] - VOR, name="CXOR")
        model.addConstr(VXOR >= VOR - VNEW[m], name="CXOR")
        model.addConstr(VXOR >= 1, name="CXOR")''',
         new='''        model.addConstr(VNEW[m] + VOR == 1, name="CXOR")
        model.addConstr(VXOR >= 1, name="CXOR")'''),
    dict(name="benign: NOVEL_LB dropped", module="major", kind="benign",
         old='    model.addConstr(z <= model.quicksum(VNEW[m] for m in VNEW), name="NOVEL_LB")\n', new=""),
]
