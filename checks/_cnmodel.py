"""
The structure-stage model builder (cn.solve_cn_model) folded whole against the recording library (sa.lpmodel), and an
independently written reference of the documented model on the same sample instance.
"""

import collections
import copy
import itertools

from checks._cn import CT
from sa.fold import Lifted, Obj, Raised, Unfoldable  # noqa: F401
from sa.lpmodel import new_model, wrapper_model


def cfg(cn, kind):
    return Obj(cn=cn, kind=kind, alleles=set(), description="")


def rdd():
    return collections.defaultdict(rdd)


class Instance:
    """One sample instance of the structure stage."""

    def __init__(self, configs, regions, unique, cov, max_cn, profile, parts=2, deletion="5", fusion_support=None):
        self.configs, self.regions, self.unique, self.cov, self.max_cn = configs, regions, unique, cov, max_cn
        self.profile, self.parts, self.deletion, self.fusion_support = profile, parts, deletion, fusion_support

    def describe(self):
        return (f"configurations {{{', '.join(f'{k}:{v.kind}' for k, v in self.configs.items())}}}, max copies {self.max_cn}, depth {self.cov}, "
                f"gap {self.profile.gap}" + (f", fusion support {self.fusion_support}" if self.fusion_support else ""))


def fold_solve_cn(repo, inst: Instance, wrapper=None):
    """-> (kind, value, library): value = list of (score, Counter of configurations) as returned by the routine."""
    f = repo.func("cn::solve_cn_model")
    wrapper = wrapper or wrapper_model(repo)
    made = []

    def mk(name, solver):
        m, lib = new_model(wrapper, name)
        made.append(lib)
        return m

    gene = Obj(name="G", regions=[{r: None for r in inst.regions}] * inst.parts, unique_regions=list(inst.unique), cn_configs=inst.configs,
               deletion_allele=lambda: inst.deletion)
    fn = Lifted(f, funcs={"lpinterface.model": mk, "copy.deepcopy": copy.deepcopy, "CNConfig": lambda cn, kind, alleles, desc: cfg(cn, kind),
                          "CNSolution": lambda g, score, sol: Obj(score=score, solution=collections.Counter(sol)),
                          "sorted_tuple": lambda it: tuple(sorted(it))},
                env={"json": rdd(), "CNConfigType": CT})
    before = copy.deepcopy({k: v.cn for k, v in inst.configs.items()})
    try:
        out = fn(gene, inst.profile, inst.configs, inst.max_cn, dict(inst.cov), "any", None, inst.fusion_support)
    except Raised as r:
        return "raise", str(r), (made[0] if made else None)
    untouched = before == {k: v.cn for k, v in inst.configs.items()}
    return "return", ([(o.score, dict(o.solution)) for o in out], untouched), (made[0] if made else None)


# -- the documented model, written down independently ------------------------------------------------------------------
def reference_slots(inst: Instance):
    """slot -> per-part copy vectors. (c,0),(c,-1) complete configurations; (default,i>0) extra gene copies (pseudogene parts
    decremented); ('PSEUDO',i) free pseudogene copies carrying the deletion configuration's vector."""
    slots = collections.OrderedDict()
    fs = inst.fusion_support
    for c, conf in inst.configs.items():
        if fs and not (c == "1" or (inst.deletion and c == inst.deletion) or (c in fs and fs[c] >= 1 / (2 * inst.max_cn))):
            continue
        slots[c, 0] = [dict(p) for p in conf.cn]
        slots[c, -1] = [dict(p) for p in conf.cn]
        if conf.kind == CT.DEFAULT:
            for i in range(1, inst.max_cn):
                slots[c, i] = [dict(conf.cn[0])] + [{r: v - 1 for r, v in p.items()} for p in conf.cn[1:]]
    if inst.parts > 1 and inst.deletion:
        for i in range(1, inst.max_cn + 1):
            slots["PSEUDO", i] = [dict(p) for p in inst.configs[inst.deletion].cn]
    return slots


def reference_points(inst: Instance):
    """{frozenset(active slots): objective} for every admissible selection of slots (exhaustive)."""
    slots = reference_slots(inst)
    keys = list(slots)
    p = inst.profile
    U = len(inst.unique)
    base = 7.5 / U
    pen = {}
    for (c, i) in keys:
        extra = 0.0
        if c in inst.configs:
            if inst.configs[c].kind == CT.RIGHT_FUSION:
                extra = p.cn_fusion_right
            elif inst.configs[c].kind == CT.LEFT_FUSION:
                extra = p.cn_fusion_left
        pen[c, i] = base * (1 + extra)
    out = {}
    complete = [k for k in keys if k[1] <= 0]
    others = [k for k in keys if k[1] > 0]
    for csel in itertools.combinations(complete, 2):
        cs = set(csel)
        if any((c, -1) in cs and (c, 0) not in cs for c, _ in csel):
            continue
        for r in range(len(others) + 1):
            for osel in itertools.combinations(others, r):
                sel = cs | set(osel)
                # ordering of the extra copies: slot i > 1 needs slot i - 1
                if any(i > 1 and (c, i - 1) not in sel for c, i in osel):
                    continue
                # a double deletion stands alone
                if inst.deletion and (inst.deletion, -1) in sel and any(c != inst.deletion for c, _ in sel):
                    continue
                obj = 0.0
                ok = True
                for reg in inst.unique:
                    c0, c1 = inst.cov[reg]
                    g0 = sum(slots[s][0].get(reg, 0) for s in sel)
                    g1 = sum(slots[s][1].get(reg, 0) for s in sel) if inst.parts > 1 else 0
                    eg = c0 - g0
                    scale = max(c0, c1) + 1
                    e = ((c0 - c1) - (g0 - g1)) / scale
                    if abs(eg) > p.cn_max + 1e-9 or abs(e) > p.cn_max + 1e-9:
                        ok = False
                        break
                    w = p.cn_pce_penalty if reg == "pce" else 1.0
                    obj += p.cn_diff / U * w * abs(e) + p.cn_fit / U * abs(eg)
                if not ok:
                    continue
                obj += p.cn_parsimony * sum(pen[s] for s in sel)
                out[frozenset(sel)] = obj
    return out


def reference_report(inst: Instance, points, precision):
    """What the stage reports, read off the statement: walk the admissible selections best first; a selection that contains
    an already taken one is skipped; stop beyond (1 + gap) x best; per structure (multiset of configurations without the
    deletion and the free pseudogene copies) keep the first."""
    order = sorted(points.items(), key=lambda t: (t[1], sorted(map(str, t[0]))))
    taken, report = [], collections.OrderedDict()
    best = None
    for sel, obj in order:
        if any(t <= sel for t in taken):
            continue
        if best is None:
            best = obj
        ub = (1 + inst.profile.gap) * best
        if abs(obj - ub) >= precision and obj > ub:
            break
        taken.append(sel)
        key = tuple(sorted(c for c, _ in sel if c != inst.deletion and c != "PSEUDO"))
        report.setdefault(key, obj)
    return report


def slot_of(name):
    """Slot a structure variable stands for, read off its name `<prefix>_<configuration>_<index>` (index -1 is written m1)."""
    import re

    m = re.match(r"^[A-Za-z]+_(.+)_(m?\d+)$", name)
    if not m:
        raise Unfoldable(f"structure variable name {name!r} does not show its slot")
    idx = m.group(2)
    return (m.group(1), -int(idx[1:]) if idx.startswith("m") else int(idx))


def code_points(lib):
    """{frozenset(active slots): objective} of the model the routine built (cuts added by the read-out loop set aside)."""
    saved = lib.cons
    lib.cons = lib.cons[:lib.built] if lib.built is not None else lib.cons
    try:
        pts = lib.enumerate()
    finally:
        lib.cons = saved
    iv = lib.integer_vars()
    names = {v: slot_of(v.name()) for v in iv}
    out = {}
    for obj, val in pts:
        out[frozenset(names[v] for v in iv if val[v] == 1)] = obj
    return out, set(names.values())
