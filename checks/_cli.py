"""
The command-line entry point (__main__.main) folded whole: argv -> recorded calls of genotype() / the profile writer.

argparse is replaced by a small model of the features the parser definition uses (sub-commands with parents, positional
and optional arguments, actions store / store_true / append, nargs None ? + *, defaults): the definition in `_get_args`
is executed by the analysis' interpreter against the model, then `parse_args(argv)` answers as argparse would.
"""

import collections

from sa.fold import Lifted, Obj, Raised, Unfoldable, lift_module_helpers  # noqa: F401


class Namespace:
    _fold_ok = True

    def __init__(self, **kw):
        self.__dict__.update(kw)

    def __contains__(self, k):
        return k in self.__dict__

    def __repr__(self):
        return f"Namespace({self.__dict__})"


class Parser:
    _fold_ok = True

    def __init__(self, *a, **kw):
        self.args = []          # (names, options)
        self.parents = list(kw.get("parents", []))
        self.sub = None
        self.helped = False

    def add_argument(self, *names, **kw):
        self.args.append((names, kw))
        return None

    def add_subparsers(self, dest=None, **kw):
        self.sub = SubParsers(dest)
        return self.sub

    def print_help(self, *a):
        self.helped = True

    def all_args(self):
        out = []
        for p in self.parents:
            out += p.all_args()
        return out + self.args

    def parse_args(self, argv):
        argv = list(argv)
        ns = {}
        parser = self
        if self.sub is not None:
            name = argv.pop(0) if argv and not argv[0].startswith("-") else None
            ns[self.sub.dest] = name
            if name is None:
                return Namespace(**ns)
            if name not in self.sub.parsers:
                raise SystemExit(2)
            parser = self.sub.parsers[name]
        specs = parser.all_args()
        optional, positional = {}, []
        for names, kw in specs:
            if names[0].startswith("-"):
                dest = kw.get("dest") or next(n for n in names if n.startswith("--")).lstrip("-").replace("-", "_")
                for n in names:
                    optional[n] = (dest, kw)
                action = kw.get("action", "store")
                ns[dest] = kw.get("default", False if action == "store_true" else None)
            else:
                positional.append((names[0], kw))
                ns[names[0]] = kw.get("default")
        i = 0
        pos_i = 0
        while i < len(argv):
            tok = argv[i]
            if tok.startswith("-") and tok in optional:
                dest, kw = optional[tok]
                action = kw.get("action", "store")
                nargs = kw.get("nargs")
                i += 1
                if action == "store_true":
                    ns[dest] = True
                    continue
                vals = []
                if nargs in ("+", "*"):
                    while i < len(argv) and not argv[i].startswith("-"):
                        vals.append(argv[i])
                        i += 1
                    if nargs == "+" and not vals:
                        raise SystemExit(2)
                    val = vals
                else:
                    if i >= len(argv):
                        raise SystemExit(2)
                    val = argv[i]
                    i += 1
                if action == "append":
                    cur = ns[dest]
                    ns[dest] = (list(cur) if cur else []) + [val]
                else:
                    ns[dest] = val
            elif tok.startswith("-"):
                raise SystemExit(2)
            else:
                if pos_i >= len(positional):
                    raise SystemExit(2)
                ns[positional[pos_i][0]] = tok
                pos_i += 1
                i += 1
        return Namespace(**ns)


class SubParsers:
    _fold_ok = True

    def __init__(self, dest):
        self.dest = dest
        self.parsers = {}

    def add_parser(self, name, aliases=(), parents=(), **kw):
        p = Parser(parents=list(parents))
        self.parsers[name] = p
        for a in aliases:
            self.parsers[a] = p
        return p


class _Ctx:
    _fold_ok = True
    _fold_enter = True

    def __init__(self, value):
        self.value = value

    def __enter__(self):
        return self.value

    def __exit__(self, *a):
        return False


def _splitext(q):
    q = str(q)
    base = q.rsplit("/", 1)[-1]
    if "." in base.lstrip("."):
        i = q.rindex(".")
        return q[:i], q[i:]
    return q, ""


def yaml_scalar(text):
    """What PyYAML's safe_load answers for a one-line plain scalar (YAML 1.1 implicit resolver): a model of the library, used
    when the driver hands command-line text to it."""
    import re

    if not isinstance(text, str):
        raise Raised("AttributeError")
    t = text.strip()
    if "#" in t and re.search(r"(^|\s)#", t):
        t = re.split(r"(^|\s)#", t)[0].strip()
    if t[:1] in ("'", '"') and t[-1:] == t[:1] and len(t) >= 2:
        return t[1:-1]
    if (t and t[0] in "[{&*!|>%@`") or t.startswith("- ") or t == "-" or re.match(r"[0-9]{4}-[0-9]{1,2}-[0-9]{1,2}", t) or re.search(r":(\s|$)", t) or t.startswith("? "):
        raise Unfoldable(f"structured YAML text {text!r}")
    if t in ("", "~", "null", "Null", "NULL"):
        return None
    if t in ("yes", "Yes", "YES", "true", "True", "TRUE", "on", "On", "ON"):
        return True
    if t in ("no", "No", "NO", "false", "False", "FALSE", "off", "Off", "OFF"):
        return False
    u = t.replace("_", "")
    if re.fullmatch(r"[-+]?0b[0-1_]+", t):
        return int(u, 2)
    if re.fullmatch(r"[-+]?0x[0-9a-fA-F_]+", t):
        return int(u, 16)
    if re.fullmatch(r"[-+]?0[0-7_]+", t):
        return int(u, 8)
    if re.fullmatch(r"[-+]?(0|[1-9][0-9_]*)", t):
        return int(u)
    if re.fullmatch(r"[-+]?[1-9][0-9_]*(:[0-5]?[0-9])+", t):
        sign = -1 if t[0] == "-" else 1
        v = 0
        for part in u.lstrip("+-").split(":"):
            v = v * 60 + int(part)
        return sign * v
    if re.fullmatch(r"[-+]?([0-9][0-9_]*)\.[0-9_]*([eE][-+][0-9]+)?", t) or re.fullmatch(r"\.[0-9][0-9_]*([eE][-+][0-9]+)?", t):
        return float(u)
    if re.fullmatch(r"[-+]?[0-9][0-9_]*(:[0-5]?[0-9])+\.[0-9_]*", t):
        sign = -1 if t[0] == "-" else 1
        v = 0.0
        for part in u.lstrip("+-").split(":"):
            v = v * 60 + float(part)
        return sign * v
    if re.fullmatch(r"[-+]?\.(inf|Inf|INF)", t):
        return float("-inf") if t[0] == "-" else float("inf")
    if t in (".nan", ".NaN", ".NAN"):
        return float("nan")
    return t


def fold_main(repo, argv, profile_result=None, genotype_raises=None):
    """-> (kind, value, calls): calls = [('genotype', kwargs) | ('profile', args, kwargs) | ('print', text)]"""
    f = repo.func("__main__::main")
    calls = []

    def genotype(*a, **k):
        calls.append(("genotype", a, k))
        return {}

    def profile_data(*a, **k):
        calls.append(("profile", a, k))
        return profile_result if profile_result is not None else {"neutral": {}}

    funcs = {
        "argparse.ArgumentParser": Parser, "td": lambda s_: s_, "genotype": genotype, "Profile.get_sam_profile_data": profile_data,
        "yaml.dump": lambda d, *a, **k: f"YAML{d!r}", "print": lambda *a, **k: calls.append(("print", " ".join(map(str, a)))),
        "parse_cn_region": lambda r: ("REGION", r) if r else None, "vars": lambda o: dict(o.__dict__),
        "logbook.more.ColorizedStderrHandler": lambda **k: Obj(push_application=lambda: None),
        "logbook.FileHandler": lambda *a, **k: Obj(push_application=lambda: None, formatter=None),
        "os.path.basename": lambda q: str(q).rsplit("/", 1)[-1], "os.path.exists": lambda q: True, "open": lambda *a, **k: Obj(close=lambda: None, name=a[0]),
        "script_path": lambda q: q, "exit": lambda code=0: (_ for _ in ()).throw(SystemExit(code)),
        "tempfile.TemporaryDirectory": lambda *a, **k: _Ctx("/scratch/T"), "os.path.splitext": _splitext,
        "os.system": lambda cmd: calls.append(("system", cmd)) or 0, "yaml.safe_load": yaml_scalar,
    }
    funcs["open"] = lambda name, mode="r", *a, **k: (calls.append(("open", name, mode)), _Ctx(Obj(close=lambda: None, name=name, write=lambda t: None)))[1]
    funcs["yaml.dump"] = lambda d, stream=None, *a, **k: (calls.append(("yaml", getattr(stream, "name", None))), f"YAML{d!r}")[1]
    if genotype_raises:
        def genotype(*a, **k):  # noqa: F811
            calls.append(("genotype", a, k))
            raise Raised(genotype_raises)
        funcs["genotype"] = genotype
    env = {"yaml": Obj(Dumper=Obj(ignore_aliases=None)), "common": Obj(json={}), "common.json": {}, "logbook": Obj(base=Obj(_reverse_level_names={"INFO": 2, "DEBUG": 1, "TRACE": 0, "WARNING": 3}),
                          more=Obj(ColorizedStderrHandler=lambda **k: Obj(push_application=lambda: None))),
           "sys.stdout": Obj(name="<stdout>"), "sys": Obj(stdout=Obj(name="<stdout>"))}
    fn = Lifted(f, funcs=funcs, env=env)
    fn.funcs = funcs
    lift_module_helpers(repo.mod("__main__").tree, funcs, None, env, {}, skip=("main",))
    try:
        return "return", fn(list(argv)), calls
    except Raised as r:
        return "raise", str(r), calls
    except SystemExit as e:
        return "exit", e.code, calls
