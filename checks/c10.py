"""
C10 -- reported solutions are the best candidates and are internally consistent.

Decided: (R1) empty-stage guards dominate every use of a stage result and every later stage call;
(R2) the carried score differences and the rescaling are the documented formula (lifted and folded
on a numeric grid; the minimum is taken over the unfiltered list of the same stage); (R3) the two
selection statements keep exactly `score - min - gap < SOLUTION_PRECISION` and list best first
(folded on shuffled sample lists); (R4) re-wrapped solutions take every field from the same source
element in dataclass field order, the diplotype is copied from that element, and the returned
mapping holds the filtered, sorted list.
Not decided: copy-for-copy consistency inside a chain (C02.R1 / C04.R1), the diplotype (C11).
"""

import ast
import itertools

from sa.cfg import cfg_of
from sa.dataflow import reaching
from sa.fold import Evaluator, Obj, Raised, Unfoldable, module_consts
from sa.guards import exiting_guards, find_calls, fmt_tests, guard_table
from sa.loader import AnalysisError, call_name, calls_in, kwarg, walk_local

PROPERTY = "C10"
EXPLANATION = (
    "Guard dominance (raise on empty stage result before min()/later stages) on the CFG of genotype(); "
    "def-use expansion + finite-domain folding of the score-carry statements in genotype() and estimate_minor() "
    "against the documented formula on a numeric grid; the two filter+sort statements lifted and folded on shuffled "
    "sample lists for gap in {0, 0.1, 0.3}; positional wiring of the MajorSolution/MinorSolution re-wraps checked "
    "against the dataclass field order read from solutions.py; reaching definitions of the returned list."
)
ASSUMPTIONS = ["gap >= 0 (so the best element of a non-empty list always survives the filter)"]


def mk(score, name="x", **kw):
    return Obj(score=score, _solution_nice=lambda: name, **kw)


def r1(repo, res):
    f = repo.func("genotype::genotype")
    res.analysed(f)
    c = cfg_of(f)
    stage_lists = {"cn_sols": ["estimate_major"], "major_sols": ["estimate_minor"],
                   "minor_sols": ["write_vcf", "write_decomposition"]}
    n = 0
    for lst, later in stage_lists.items():
        sinks = []
        for call in calls_in(f):
            if call_name(call) == "min" and call.args and any(
                    isinstance(x, ast.Name) and x.id == lst for x in ast.walk(call.args[0])):
                sinks.append(("min over " + lst, call))
        for suf in later:
            sinks += [(suf, x) for x in find_calls(f, suf)]
        if not sinks:
            res.err("C10.R1", f"no use of stage result `{lst}` found in genotype()")
            continue
        for label, call in sinks:
            gs = exiting_guards(c, c.node_of(call), kinds=("raise",))
            tab = guard_table(gs, [{"v": []}, {"v": [mk(1.0)]}], lambda p: {lst: p["v"]})
            n += 1
            res.ob("C10.R1", f, call, tab[0] and not tab[1],
                   expected=f"`raise` when `{lst}` is empty dominates this use (and does not fire for a non-empty list)",
                   found="dominating raising guards: " + fmt_tests(gs),
                   clause="when no admissible solution exists at some stage, no genotype is reported and an error says so",
                   key=f"{lst}|{label}")
    res.floor("C10.R1", "guarded uses of stage results", n, 7)
    # the error type
    for r in [x for x in walk_local(f) if isinstance(x, ast.Raise)]:
        pass


def _aug_score_sites(func):
    """`<elem>.score += <delta>` statements."""
    return [n for n in walk_local(func) if isinstance(n, ast.AugAssign) and isinstance(n.op, ast.Add)
            and isinstance(n.target, ast.Attribute) and n.target.attr == "score"]


def _loop_of(node):
    p = getattr(node, "_parent", None)
    while p is not None and not isinstance(p, ast.For):
        p = getattr(p, "_parent", None)
    return p


def _def_before(func, name, node):
    """The unique reaching definition (plain assignment) of `name` at `node`."""
    c = cfg_of(func)
    IN, defs = reaching(c, name)
    ds = IN[c.node_of(node)]
    if len(ds) != 1:
        return None
    d = defs[next(iter(ds))]
    return d if isinstance(d, ast.Assign) else None


def r2(repo, res):
    consts = module_consts(repo.mod("common"))
    g = repo.func("genotype::genotype")
    em = repo.func("minor::estimate_minor")
    res.analysed(g, em)
    # --- (a) major score carries the structure score difference ---------------------------------
    for func, label, src_stage, lst_name in ((g, "major<-structure", "estimate_major", "cn_sols"),
                                             (em, "minor<-major", "solve_minor_model", "major_sols")):
        sites = _aug_score_sites(func)
        if len(sites) != 1:
            res.err("C10.R2", f"expected one `<solution>.score += ...` in {func.name}, found {len(sites)}")
            continue
        st = sites[0]
        inner = _loop_of(st)  # for s in sols
        outer = _loop_of(inner) if inner is not None else None
        ok_src = False
        outer_var = None
        if inner is not None and outer is not None and isinstance(inner.iter, ast.Name):
            d = _def_before(func, inner.iter.id, inner)
            if d is not None and isinstance(d.value, ast.Call) and call_name(d.value).endswith(src_stage):
                # the parent solution the stage was called with
                ov = outer.target.elts[-1] if isinstance(outer.target, ast.Tuple) else outer.target
                outer_var = ov.id if isinstance(ov, ast.Name) else None
                passed = [ast.unparse(a) for a in d.value.args] + [ast.unparse(k.value) for k in d.value.keywords]
                ok_src = outer_var in passed and isinstance(st.target.value, ast.Name) \
                    and st.target.value.id == (inner.target.id if isinstance(inner.target, ast.Name) else None)
        res.ob("C10.R2", func, st, ok_src,
               expected=f"the increment is applied to every solution returned by {src_stage}(...<parent>...) for that parent",
               found=f"loop over `{ast.unparse(inner.iter) if inner else None}` inside loop over `{outer_var}`",
               key=f"{label}:applies-to")
        # fold the increment: parent.score - min(parent list)
        names = {n.id for n in ast.walk(st.value) if isinstance(n, ast.Name)}
        min_names = [n for n in names if n != outer_var]
        okf, found = False, ""
        try:
            vals = []
            for ps, mn in itertools.product([0.0, 1.25, 3.5], [0.0, 0.5]):
                env = {outer_var: mk(ps)}
                for mnn in min_names:
                    env[mnn] = mn
                vals.append((ps, mn, Evaluator(env, consts=consts).ev(st.value)))
            okf = all(abs(v - (ps - mn)) < 1e-12 for ps, mn, v in vals)
            found = ast.unparse(st.value)
        except (Unfoldable, Raised) as e:
            res.err("C10.R2", f"score increment in {func.name} outside folding language: {e}")
            continue
        res.ob("C10.R2", func, st, okf, expected="increment = parent.score - min(parent scores)", found=found,
               clause="a candidate's score carries over the score differences of the solutions it was derived from",
               key=f"{label}:increment")
        # the minimum is over the full parent list
        for mnn in min_names:
            d = _def_before(func, mnn, st)
            okm, found = False, "no unique definition"
            if d is not None:
                try:
                    lst = [mk(2.0, "b"), mk(0.75, "a"), mk(5.0, "c")]
                    names_in = {n.id for n in ast.walk(d.value) if isinstance(n, ast.Name)} - {"min", "m", "x"}
                    v = Evaluator({lst_name: lst}, consts=consts).ev(d.value)
                    okm = abs(v - 0.75) < 1e-12 and lst_name in names_in
                    found = ast.unparse(d.value)
                except (Unfoldable, Raised) as e:
                    found = f"unfoldable: {e}"
            res.ob("C10.R2", func, d if d is not None else st, okm,
                   expected=f"{mnn} = minimum score over the whole list `{lst_name}`", found=found, key=f"{label}:min")
        # the list the minimum ranges over is the unfiltered stage result
        if func is g:
            defs = [n for n in walk_local(g) if isinstance(n, ast.Assign) and isinstance(n.targets[0], ast.Name)
                    and n.targets[0].id == lst_name]
            okl = all((isinstance(n.value, ast.Call) and (call_name(n.value).endswith("estimate_cn")
                                                          or (call_name(n.value) == "sorted" and
                                                              ast.unparse(n.value.args[0]) == lst_name)))
                      for n in defs)
            res.ob("C10.R2", g, defs[0] if defs else g, okl and bool(defs),
                   expected="the structure list is the stage result, only re-sorted (never filtered) before the minimum is taken",
                   found="; ".join(ast.unparse(n.value)[:60] for n in defs), key=f"{label}:unfiltered")
    # --- (b) rescaling of the minor score --------------------------------------------------------
    ctor = [x for x in calls_in(g) if call_name(x).endswith("MinorSolution")]
    if len(ctor) != 1:
        res.err("C10.R2", f"expected one MinorSolution re-wrap in genotype(), found {len(ctor)}")
        return
    sc = ctor[0].args[0] if ctor[0].args else kwarg(ctor[0], "score")
    loop = _loop_of(ctor[0])
    src = loop.target.id if loop is not None and isinstance(loop.target, ast.Name) else None
    try:
        ok = True
        slack_names = [n.id for n in ast.walk(sc) if isinstance(n, ast.Name) and n.id not in (src,)]
        for s_min, s_cn, m_cn in itertools.product([0.0, 1.5], [0.0, 0.4, 2.0], [0.0, 0.4]):
            if m_cn > s_cn:
                continue
            env = {src: mk(s_min, major_solution=Obj(cn_solution=mk(s_cn))), "min_cn_score": m_cn, "SLACK": 1}
            v = Evaluator(env, defs={k: v for k, v in _simple_defs(g).items() if k == "SLACK"}).ev(sc)
            want = s_min * (s_cn + 1) / (m_cn + 1)
            ok = ok and abs(v - want) < 1e-9
        res.ob("C10.R2", g, sc, ok, expected="score * (S_cn + 1) / (min S_cn + 1)", found=ast.unparse(sc)[:120],
               clause="rescaled by the structure score", key="minor:rescale")
    except (Unfoldable, Raised) as e:
        res.err("C10.R2", f"rescale expression outside folding language: {e}")
    d = _def_before(g, "min_cn_score", ctor[0])
    res.ob("C10.R2", g, d if d is not None else g, d is not None, expected="min_cn_score has one definition reaching the rescale",
           found=ast.unparse(d.value) if d is not None else "ambiguous", key="minor:rescale-min")


def _simple_defs(func):
    return {n.targets[0].id: n.value for n in walk_local(func)
            if isinstance(n, ast.Assign) and isinstance(n.targets[0], ast.Name) and isinstance(n.value, ast.Constant)}


def r3(repo, res):
    consts = module_consts(repo.mod("common"))
    prec = consts.get("SOLUTION_PRECISION")
    if prec is None:
        res.err("C10.R3", "SOLUTION_PRECISION not found in common.py")
        return
    g = repo.func("genotype::genotype")
    scores = [0.5, 0.0101, 0.25, 0.0099, 0.005, 0.105, 0.1099, 0.0, 0.31, 0.3099, 0.0]
    for lst, minname in (("major_sols", "min_major_score"), ("minor_sols", "min_minor_score")):
        sel = [n for n in walk_local(g) if isinstance(n, ast.Assign) and isinstance(n.targets[0], ast.Name)
               and n.targets[0].id == lst and isinstance(n.value, ast.Call) and call_name(n.value) == "sorted"
               and isinstance(n.value.args[0], ast.ListComp) and n.value.args[0].generators[0].ifs]
        if len(sel) != 1:
            res.err("C10.R3", f"selection statement for `{lst}` not found")
            continue
        st = sel[0]
        dmin = _def_before(g, minname, st)
        if dmin is None:
            # the minimum may carry another name: take the name used in the filter
            cand = [n.id for n in ast.walk(st.value.args[0].generators[0].ifs[0]) if isinstance(n, ast.Name)
                    and n.id not in (lst, "profile", "SOLUTION_PRECISION")
                    and n.id != st.value.args[0].generators[0].target.id]
            for cnm in cand:
                dmin = _def_before(g, cnm, st)
                if dmin is not None:
                    minname = cnm
                    break
        if dmin is None:
            res.err("C10.R3", f"definition of the minimum used by the `{lst}` filter not found")
            continue
        all_ok = True
        detail = ""
        try:
            for gap in (0.0, 0.1, 0.3):
                items = [mk(s, f"n{i}") for i, s in enumerate(scores)]
                ev = Evaluator({"profile.gap": gap}, consts=consts)
                ev.locals[lst] = list(items)
                kind, v = ev.run([dmin, st])
                out = ev.locals[lst]
                mn = min(scores)
                want = sorted([s for s in scores if s - mn - gap < prec])
                got = [o.score for o in out]
                ordered = all(got[i] <= got[i + 1] + 1e-3 for i in range(len(got) - 1))
                if sorted(got) != want or not ordered or got[0] != mn:
                    all_ok = False
                    detail = f"gap={gap}: kept {got}, expected {want} best first"
        except (Unfoldable, Raised) as e:
            res.err("C10.R3", f"selection of `{lst}` outside folding language: {e}")
            continue
        res.ob("C10.R3", g, st, all_ok,
               expected="keep exactly score - min(all) - gap < SOLUTION_PRECISION, listed best first",
               found="ok on 3 gaps x 11 scores" if all_ok else detail,
               clause="exactly those candidates whose combined score lies within the gap (plus the precision) of the best, best first",
               key=f"select:{lst}")
        # minimum over the list *before* filtering: its definition precedes the selection and reads the same list
        c = cfg_of(g)
        ok = c.dominates(c.node_of(dmin), c.node_of(st)) and any(
            isinstance(n, ast.Name) and n.id == lst for n in ast.walk(dmin.value))
        res.ob("C10.R3", g, dmin, ok, expected=f"minimum computed over `{lst}` before it is filtered",
               found=ast.unparse(dmin.value), key=f"min-before-filter:{lst}")


def dataclass_fields(repo, cls):
    c = repo.cls(f"solutions::{cls}")
    return [n.target.id for n in c.body if isinstance(n, ast.AnnAssign) and isinstance(n.target, ast.Name)]


def r4(repo, res):
    g = repo.func("genotype::genotype")
    for cls, exempt in (("MajorSolution", set()), ("MinorSolution", {"profile"})):
        fields = dataclass_fields(repo, cls)
        ctors = [x for x in calls_in(g) if call_name(x).endswith(cls)]
        if not ctors:
            res.err("C10.R4", f"no {cls} re-wrap in genotype()")
            continue
        for x in ctors:
            # source element
            src = None
            p = x._parent
            while p is not None and src is None:
                if isinstance(p, (ast.ListComp, ast.GeneratorExp)):
                    src = p.generators[0].target.id if isinstance(p.generators[0].target, ast.Name) else None
                elif isinstance(p, ast.For):
                    src = p.target.id if isinstance(p.target, ast.Name) else None
                p = getattr(p, "_parent", None)
            pairs = list(zip(fields, x.args)) + [(k.arg, k.value) for k in x.keywords if k.arg]
            bad = []
            for fld, arg in pairs:
                if fld in exempt:
                    continue
                direct = {n.attr for n in ast.walk(arg) if isinstance(n, ast.Attribute)
                          and isinstance(n.value, ast.Name) and n.value.id == src}
                if fld == "score":
                    if "score" not in direct:
                        bad.append(f"{fld}<-{ast.unparse(arg)[:40]}")
                elif ast.unparse(arg) != f"{src}.{fld}":
                    bad.append(f"{fld}<-{ast.unparse(arg)[:40]}")
            need = [f_ for f_ in fields if f_ not in exempt]
            missing = [f_ for f_ in need if f_ not in [p_[0] for p_ in pairs]]
            res.ob("C10.R4", g, x, not bad and not missing and src is not None,
                   expected=f"{cls}({', '.join(src + '.' + f_ if src else f_ for f_ in need)}) -- every field from the same source element",
                   found=("ok" if not bad and not missing else f"mismatch {bad} missing {missing}"),
                   clause="every reported solution is a consistent chain", key=f"rewrap:{cls}")
    # diplotype copied from the same element; appended to the reported list
    sd = find_calls(g, "set_diplotype")
    ok = False
    if sd:
        x = sd[0]
        loop = _loop_of(x)
        src = loop.target.id if loop is not None and isinstance(loop.target, ast.Name) else None
        ok = bool(x.args) and ast.unparse(x.args[0]) == f"{src}.get_diplotype()"
    res.ob("C10.R4", g, sd[0] if sd else g, ok, expected="diplotype copied from the element being re-wrapped",
           found=ast.unparse(sd[0]) if sd else "no set_diplotype call", key="diplotype-copy")
    # the returned mapping holds the filtered, sorted list
    rets = [n for n in walk_local(g) if isinstance(n, ast.Return) and isinstance(n.value, ast.Dict)]
    c = cfg_of(g)
    okr = False
    found = "no dict return"
    if rets:
        r = rets[-1]
        v = r.value.values[0] if r.value.values else None
        if isinstance(v, ast.Name):
            IN, defs = reaching(c, v.id)
            ds = [defs[d] for d in IN[c.node_of(r)]]
            okr = len(ds) == 1 and isinstance(ds[0], ast.Assign) and isinstance(ds[0].value, ast.Call) \
                and call_name(ds[0].value) == "sorted"
            found = "; ".join(ast.unparse(d)[:70] for d in ds)
    res.ob("C10.R4", g, rets[-1] if rets else g, okr,
           expected="genotype() returns the list produced by the final filter+sort statement", found=found, key="returned-list")
    # the writers and the log loop iterate that same list
    for suf in ("write_vcf", "write_decomposition"):
        cs = find_calls(g, suf)
        if cs:
            args = [ast.unparse(a) for a in cs[0].args]
            ok = "minor_sols" in args or "minor_sol" in args
            res.ob("C10.R4", g, cs[0], ok, expected="writers receive the selected solutions", found=", ".join(args)[:100],
                   key=f"writer-input:{suf}")


def _loop_relative_guards(c, loop, node):
    """Guard facts of `node` that arise inside `loop` (facts that already hold at the loop head are dropped)."""
    head = {(id(t), p) for t, p in c.guards(c.node_of(loop))}
    out = []
    for t, p in c.guards(c.node_of(node)):
        if (id(t), p) in head or t is loop:
            continue
        out.append((t, p))
    return out


def r5(repo, res):
    """Every candidate produced by one stage is handed to the next (no pruning before the final, relative filter)."""
    g = repo.func("genotype::genotype")
    em = repo.func("minor::estimate_minor")
    cg, ce = cfg_of(g), cfg_of(em)
    plan = [(g, cg, "estimate_major", "cn_sols"), (em, ce, "solve_minor_model", None)]
    for func, c, callee, lst in plan:
        calls = find_calls(func, callee)
        if not calls:
            res.err("C10.R5", f"call of {callee} not found in {func.name}")
            continue
        call = calls[0]
        loops = []
        p = call
        while p is not None and p is not func:
            if isinstance(p, ast.For):
                loops.append(p)
            p = getattr(p, "_parent", None)
        if not loops:
            res.ob("C10.R5", func, call, False, expected=f"{callee} is called once per candidate of the previous stage", found="not inside a loop",
                   key=f"all-candidates:{callee}")
            continue
        outer = loops[-1]
        extra = [(t, p_) for t, p_ in _loop_relative_guards(c, outer, call) if not isinstance(t, ast.For)]
        inner_loops = [t for t, p_ in _loop_relative_guards(c, outer, call) if isinstance(t, ast.For)]
        ok = not extra
        res.ob("C10.R5", func, call, ok,
               expected=f"{callee} runs for every element of the loop(s) around it -- no skip, break or condition before it",
               found="unconditional" if ok else "guarded by " + "; ".join(("" if p_ else "not ") + ast.unparse(t)[:70] for t, p_ in extra),
               clause="the reported solutions are exactly those candidates within the gap of the best *combined* score "
                      "(a candidate may only be dropped by the final, relative filter)",
               key=f"all-candidates:{callee}")
        # the results of the call are accumulated unconditionally as well
        acc = [n for n in walk_local(outer) if isinstance(n, ast.AugAssign) and isinstance(n.op, ast.Add)
               and isinstance(n.target, ast.Name) and isinstance(n.value, ast.Name) and n.target.id.endswith("_sols")]
        ok2 = bool(acc) and not [x for x in _loop_relative_guards(c, outer, acc[0]) if not isinstance(x[0], ast.For)]
        res.ob("C10.R5", func, acc[0] if acc else outer, ok2, expected="every solution returned by the stage is collected",
               found=ast.unparse(acc[0]) if acc else "no accumulation statement", key=f"collect:{callee}")
        if lst:
            it = ast.unparse(outer.iter)
            ok3 = it in (lst, f"enumerate({lst})")
            res.ob("C10.R5", func, outer, ok3, expected=f"the loop ranges over the whole list `{lst}`", found=it, key=f"whole-list:{callee}")
    # estimate_minor: the structure groups partition the whole input list
    try:
        ms = [mk(1.0, "a", cn_solution="c1"), mk(2.0, "b", cn_solution="c2"), mk(3.0, "c", cn_solution="c1")]
        groups = [n for n in walk_local(em) if isinstance(n, ast.Assign) and isinstance(n.targets[0], ast.Name) and n.targets[0].id == "majors"]
        cs = [n for n in walk_local(em) if isinstance(n, ast.Assign) and isinstance(n.targets[0], ast.Name) and n.targets[0].id == "cn_sols"]
        if groups and cs:
            cn_sols = Evaluator({"major_sols": ms}).ev(cs[0].value)
            seen = []
            for c_ in cn_sols:
                seen += Evaluator({"major_sols": ms, "c": c_}).ev(groups[0].value)
            ok = sorted(id(x) for x in seen) == sorted(id(x) for x in ms)
        else:
            ok = False
    except (Unfoldable, Raised) as e:
        res.err("C10.R5", f"structure grouping in estimate_minor outside folding language: {e}")
        return
    res.ob("C10.R5", em, groups[0] if groups else em, ok, expected="grouping by structure covers every major solution exactly once",
           found="partition" if ok else "not a partition", key="grouping-partition")
    # genotype(): every refined candidate is re-wrapped and collected
    app = [n for n in walk_local(g) if isinstance(n, ast.Call) and isinstance(n.func, ast.Attribute) and n.func.attr == "append"
           and ast.unparse(n.func.value) == "minor_sols"]
    okw = False
    if app:
        lp = _loop_of(app[0])
        okw = lp is not None and any(isinstance(x, ast.Call) and call_name(x).endswith("estimate_minor") for x in ast.walk(lp.iter)) \
            and not [x for x in _loop_relative_guards(cg, lp, app[0]) if not isinstance(x[0], ast.For)]
    res.ob("C10.R5", g, app[0] if app else g, okw, expected="every solution returned by estimate_minor is re-wrapped and collected", found="ok" if okw else "conditional / missing",
           key="collect:estimate_minor")
    mc = find_calls(g, "estimate_minor")
    if mc:
        a = [ast.unparse(x) for x in mc[0].args]
        res.ob("C10.R5", g, mc[0], "major_sols" in a, expected="the minor stage receives the selected major solutions", found=", ".join(a)[:80],
               key="minor-input")


def run(repo, res):
    r5(repo, res)
    r1(repo, res)
    r2(repo, res)
    r3(repo, res)
    r4(repo, res)


MUTANTS = [
    dict(name="R1 structure guard removed", module="genotype", expect="C10.R1",
         old="    if len(cn_sols) == 0:\n", new="    if len(cn_sols) < 0:\n"),
    dict(name="R1 major guard after min()", module="genotype", expect="C10.R1",
         old="    if len(major_sols) == 0:\n", new="    if major_sols is None:\n"),
    dict(name="R1 minor guard removed", module="genotype", expect="C10.R1",
         old="    if len(minor_sols) == 0:\n", new="    if False:\n"),
    dict(name="R2 structure difference not carried", module="genotype", expect="C10.R2",
         old="            s.score += cn_sol.score - min_cn_score", new="            s.score += 0"),
    dict(name="R2 difference without the minimum", module="genotype", expect="C10.R2",
         old="            s.score += cn_sol.score - min_cn_score", new="            s.score += cn_sol.score"),
    dict(name="R2 minor carries nothing", module="minor", expect="C10.R2",
         old="                s.score += major_sol.score - min_score", new="                s.score += major_sol.score - major_sol.score"),
    dict(name="R2 minor min over one structure's candidates only", module="minor", expect="C10.R2",
         old="    min_score = min(m.score for m in major_sols)\n", new="    min_score = min(m.score for m in major_sols[:1])\n"),
    dict(name="R2 rescale inverted", module="genotype", expect="C10.R2",
         old="            * ((m.major_solution.cn_solution.score + SLACK) / (min_cn_score + SLACK)),",
         new="            * ((min_cn_score + SLACK) / (m.major_solution.cn_solution.score + SLACK)),"),
    dict(name="R2 rescale dropped", module="genotype", expect="C10.R2",
         old="            * ((m.major_solution.cn_solution.score + SLACK) / (min_cn_score + SLACK)),",
         new="            * 1,"),
    dict(name="R3 gap ignored in final selection", module="genotype", expect="C10.R3",
         old="            if m.score - min_minor_score - profile.gap < SOLUTION_PRECISION\n",
         new="            if m.score - min_minor_score < SOLUTION_PRECISION\n"),
    dict(name="R3 major filter keeps everything", module="genotype", expect="C10.R3",
         old="            if m.score - min_major_score - profile.gap < SOLUTION_PRECISION\n",
         new="            if m.score - min_major_score - profile.gap < 1\n"),
    dict(name="R3 sorted by name first", module="genotype", expect="C10.R3", count=2,
         old="key=lambda m: (int(1000 * m.score), m._solution_nice()),", new="key=lambda m: (m._solution_nice(), int(1000 * m.score)),"),
    dict(name="R3 worst first", module="genotype", expect="C10.R3",
         old="""            if m.score - min_minor_score - profile.gap < SOLUTION_PRECISION
        ],
        key=lambda m: (int(1000 * m.score), m._solution_nice()),
    )""", new="""            if m.score - min_minor_score - profile.gap < SOLUTION_PRECISION
        ],
        key=lambda m: (int(1000 * m.score), m._solution_nice()),
        reverse=True,
    )"""),
    dict(name="R4 re-wrap swaps fields", module="genotype", expect="C10.R4",
         old="            m.solution,\n            m.cn_solution,\n            m.added,", new="            m.solution,\n            m.cn_solution,\n            [],"),
    dict(name="R4 returns unfiltered list", module="genotype", expect=["C10.R4"],
         old="    return {gene_db: minor_sols}", new="    minor_sols = list(minor_sols) + []\n    return {gene_db: minor_sols}"),
    dict(name="R5 structures pruned before the major stage (seeded C10_2 shape)", module="genotype", expect="C10.R5",
         old="    for i, cn_sol in enumerate(cn_sols):\n        sols = major.estimate_major(",
         new="    for i, cn_sol in enumerate(cn_sols):\n        if cn_sol.score - min_cn_score - profile.gap >= SOLUTION_PRECISION:\n            break\n        sols = major.estimate_major("),
    dict(name="R5 only the best structure is explored", module="genotype", expect="C10.R5",
         old="    for i, cn_sol in enumerate(cn_sols):\n        sols = major.estimate_major(", new="    for i, cn_sol in enumerate(cn_sols[:1]):\n        sols = major.estimate_major("),
    dict(name="R5 minor solutions of later majors skipped", module="minor", expect="C10.R5",
         old="        for major_sol in natsorted(majors, key=lambda s: str(s.solution)):\n            sols = solve_minor_model(",
         new="        for major_sol in natsorted(majors, key=lambda s: str(s.solution)):\n            if minor_sols:\n                continue\n            sols = solve_minor_model("),
    # benign
    dict(name="benign: min via generator", module="genotype", kind="benign",
         old="min_cn_score = min(cn_sols, key=lambda m: m.score).score", new="min_cn_score = min(m.score for m in cn_sols)"),
    dict(name="benign: `not cn_sols`", module="genotype", kind="benign",
         old="    if len(cn_sols) == 0:\n", new="    if not cn_sols:\n"),
    dict(name="benign: increment rewritten", module="genotype", kind="benign",
         old="            s.score += cn_sol.score - min_cn_score", new="            s.score += -(min_cn_score - cn_sol.score)"),
    dict(name="benign: filter rewritten with <=", module="genotype", kind="benign",
         old="            if m.score - min_minor_score - profile.gap < SOLUTION_PRECISION\n",
         new="            if m.score < min_minor_score + profile.gap + SOLUTION_PRECISION\n"),
]
