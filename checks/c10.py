"""
C10 -- reported solutions are the best candidates and are internally consistent.

Decided by whole-function folding (the analysis' own interpreter runs the two routines of /repo on scenarios of
stage results; every collaborator is a recording stub):
(R6) genotype(): for every scenario of structures / major candidates / refinements and gap, the majors handed to
the minor stage, the reported list with its order and scores, the chain of every reported solution (major,
structure, diplotype copied) and the written decompositions equal an independent reading of the statement; a
scenario with an empty stage ends in AldyException with nothing written.
(R7) estimate_minor(): every major candidate is refined exactly once, on the evidence filtered for its own gene
structure, every refinement is returned, and its score carries the major candidate's difference to the best one.
Earlier structural rules (guard dominance, shape of the selection statements, positional re-wrap wiring) were
retired in favour of these two: they decided the same clauses but depended on statement shapes and local names.
Not decided: copy-for-copy consistency inside a chain (C02.R1 / C04.R1), the diplotype (C11).
"""

import collections

from sa.fold import Obj, Raised, Rec, Unfoldable

PROPERTY = "C10"
EXPLANATION = (
    "Whole-function folding: genotype() and estimate_minor() are executed by the analysis' interpreter (sa.fold.Lifted) "
    "with recording stubs for every collaborator, over fixed and seeded random scenarios of stage results "
    "(1-3 structures, 0-3 major candidates each, 0-2 refinements each, gap in {0, .05, .1, .3}); the outcome is "
    "compared with an independent reading of the statement (carried differences, rescaling, relative filter with "
    "the solution precision, best-first order, chain consistency, error on an empty stage)."
)
ASSUMPTIONS = ["gap >= 0 (so the best element of a non-empty list always survives the filter)",
               "the combined score of a refinement is its score times (structure score + 1) / (best structure score + 1), and a major "
               "candidate carries its structure's score difference additively -- the reading confirmed on the pinned tree"]


def spec_selection(sc, gap, prec):
    """Independent reading of the statement: -> 'raise' | (majors handed to the minor stage, reported list)."""
    if not sc.cn:
        return "raise"
    mincn = min(s for _, s in sc.cn)
    majors = [(ml, ms + s - mincn, l, s) for l, s in sc.cn for ml, ms in sc.majors.get(l, [])]
    if not majors:
        return "raise"
    mm = min(x[1] for x in majors)
    kept = sorted([x for x in majors if x[1] - mm - gap < prec], key=lambda x: (int(1000 * x[1]), x[0]))
    minors = [(nl, ns * (cs + 1) / (mincn + 1), ml, cl) for ml, _, cl, cs in kept for nl, ns in sc.minors.get(ml, [])]
    if not minors:
        return "raise"
    mn = min(x[1] for x in minors)
    out = sorted([x for x in minors if x[1] - mn - gap < prec], key=lambda x: (int(1000 * x[1]), x[0]))
    return [(x[0], x[1]) for x in kept], out


def selection_scenarios():
    import random

    from sa.report import seed, thorough

    rnd = random.Random(seed() + 10)
    grid = [0.0, 0.0, 0.04, 0.1, 0.25, 0.3, 0.5, 1.0, 2.0]
    out = []
    fixed = [
        dict(cn=[("A", 0.5), ("B", 0.2)], majors={"A": [("A1", 0.0), ("A2", 0.3)], "B": [("B1", 0.2)]},
             minors={"A1": [("A1a", 1.0), ("A1b", 1.05)], "A2": [("A2a", 0.9)], "B1": [("B1a", 1.1), ("B1b", 1.0)]}),
        dict(cn=[("A", 1.0), ("B", 1.0)], majors={"A": [("A1", 0.1)], "B": [("B1", 0.1)]}, minors={"A1": [("A1a", 0.5)], "B1": [("B1a", 0.5)]}),
        dict(cn=[("A", 0.0), ("B", 0.2)], majors={"A": [], "B": [("B1", 0.2)]}, minors={"B1": [("B1a", 1.1)]}),   # best-ranked structure without majors
        dict(cn=[("A", 0.3), ("B", 0.2)], majors={"A": [("A1", 0.0)], "B": []}, minors={"A1": [("A1a", 0.4)]}),
        dict(cn=[("A", 0.0), ("B", 0.2)], majors={"A": [("A1", 0.0)], "B": [("B1", 0.0)]}, minors={"A1": [], "B1": [("B1a", 1.1)]}),  # best major has no refinement
        dict(cn=[], majors={}, minors={}),
        dict(cn=[("A", 0.0)], majors={"A": []}, minors={}),
        dict(cn=[("A", 0.0)], majors={"A": [("A1", 0.0)]}, minors={"A1": []}),
    ]
    for f_ in fixed:
        for gap in (0.0, 0.1, 0.3):
            out.append((f_, gap))
    for _ in range(400 if thorough() else 40):
        ncn = rnd.randint(1, 3)
        cn = [(chr(65 + i), rnd.choice(grid)) for i in range(ncn)]
        majors = {l: [(f"{l}{j}", rnd.choice(grid)) for j in range(rnd.randint(0 if rnd.random() < 0.1 else 1, 3))] for l, _ in cn}
        minors = {ml: [(f"{ml}{k}", rnd.choice(grid) + rnd.choice([0, 0.001, 0.5])) for k in "ab"[:rnd.randint(0 if rnd.random() < 0.1 else 1, 2)]]
                  for ms in majors.values() for ml, _ in ms}
        out.append((dict(cn=cn, majors=majors, minors=minors), rnd.choice([0.0, 0.05, 0.1, 0.3])))
    return out


def r6(repo, res):
    """genotype() folded whole on scenarios of stage results: the reported list, its order and scores, the majors handed
    to the minor stage, the chain of every reported solution and the error on an empty stage equal the independent reading."""
    from checks._genotype import GenotypeModel, Scenario, events

    g = repo.func("genotype::genotype")
    res.analysed(g)
    gm = GenotypeModel(repo)
    prec = gm.consts.get("SOLUTION_PRECISION")
    if prec is None:
        res.err("C10.R6", "SOLUTION_PRECISION not found in common.py")
        return
    bad = collections.OrderedDict()
    n = 0
    for desc, gap in selection_scenarios():
        out = Obj(name="out.aldy")
        sc = Scenario(args=dict(output_file=out), params=dict(gap=gap), **desc)
        try:
            kind, val, trace, printed = gm.run(sc)
        except Unfoldable as e:
            res.err("C10.R6", f"genotype() outside the folding language: {e}")
            continue   # no verdict on this instance; what the others show is still reported
        n += 1
        want = spec_selection(sc, gap, prec)
        tag = f"structures {desc['cn']}, majors {desc['majors']}, minors {desc['minors']}, gap {gap}"
        if want == "raise":
            if not (kind == "raise" and val == "AldyException"):
                bad.setdefault("empty-stage", f"{tag}: a stage has no solution, yet genotype() gives {kind} {str(val)[:80]}")
            if events(trace, "write_decomposition") or events(trace, "write_vcf"):
                bad.setdefault("empty-stage", f"{tag}: output written although a stage has no solution")
            continue
        kept, rep = want
        if kind != "return" or not isinstance(val, dict) or len(val) != 1:
            bad.setdefault("reported-list", f"{tag}: {kind} {str(val)[:80]}")
            continue
        got = list(val.values())[0]
        em = events(trace, "estimate_minor")
        handed = em[0][1] if len(em) == 1 else None
        if handed is None or [h[0] for h in handed] != [k[0] for k in kept] or any(abs(h[1] - k[1]) > 1e-9 for h, k in zip(handed, kept)):
            bad.setdefault("majors-selected", f"{tag}: minor stage receives {handed}; candidates within the gap of the best carried score are {kept}")
        for mj in (em[0][3] if len(em) == 1 else []):
            if getattr(mj, "added", None) != ["+" + str(mj.solution)] or getattr(getattr(mj, "cn_solution", None), "label", None) not in [c_[0] for c_ in desc["cn"]
                                                                                   if any(ml == mj.solution for ml, _ in desc["majors"].get(c_[0], []))]:
                bad.setdefault("chain", f"{tag}: major candidate {mj.solution} reaches the minor stage with novel variants {getattr(mj, 'added', None)} "
                                        f"and structure {getattr(getattr(mj, 'cn_solution', None), 'label', None)}: not what the major stage returned")
        labels = [(m.solution, m.score) for m in got]
        if [l for l, _ in labels] != [r_[0] for r_ in rep] or any(abs(a_[1] - b_[1]) > 1e-9 for a_, b_ in zip(labels, rep)):
            bad.setdefault("reported-list", f"{tag}: reported {labels}; expected (best first, within the gap) {[(r_[0], round(r_[1], 6)) for r_ in rep]}")
            continue
        for m, (nl, nsc, ml, cl) in zip(got, rep):
            mj = getattr(m, "major_solution", None)
            if mj is None or mj.solution != ml or getattr(mj.cn_solution, "label", None) != cl or m.diplotype != f"D[{nl}]":
                bad.setdefault("chain", f"{tag}: reported {nl} is chained to major {getattr(mj, 'solution', None)} / structure "
                                        f"{getattr(getattr(mj, 'cn_solution', None), 'label', None)} with diplotype {m.diplotype}; expected {ml} / {cl} / D[{nl}]")
        wd = events(trace, "write_decomposition")
        if [(w[4], w[5].solution) for w in wd] != [(i + 1, r_[0]) for i, r_ in enumerate(rep)]:
            bad.setdefault("written", f"{tag}: decomposition written for {[(w[4], w[5].solution) for w in wd]}; expected every reported solution once, numbered from 1")
    res.count("C10.R6:scenarios folded", n)
    clauses = {"empty-stage": "when no admissible solution exists at some stage, no genotype is reported and an error says so",
               "majors-selected": "a candidate's score carries over the score differences of the structure and major-allele solutions it was derived from",
               "reported-list": "exactly those refined candidates whose combined score lies within the gap (plus the solution precision) of the best combined score, listed best first",
               "chain": "every reported solution is a consistent chain", "written": "the solutions finally reported"}
    for key, clause in clauses.items():
        res.ob("C10.R6", g, g, key not in bad, expected=f"on every scenario: {clause}", found=f"{n} scenarios agree" if key not in bad else bad[key],
               clause=clause, key=f"pipeline:{key}")


def r7(repo, res):
    """estimate_minor folded whole: every major candidate it is given is refined exactly once, on the evidence filtered
    for that candidate's own gene structure; every refinement is returned; its score carries the major candidate's
    score difference to the best major candidate."""
    import random

    from sa.fold import ClassModel, Lifted
    from sa.report import seed, thorough

    em = repo.func("minor::estimate_minor")
    res.analysed(em)
    rnd = random.Random(seed() + 20)
    bad = collections.OrderedDict()
    n = 0
    for trial in range(60 if thorough() else 12):
        ncn = rnd.randint(1, 3)
        # gene structures are value-equal records (a dataclass in /repo): two candidates may carry equal but separately built ones
        cns = [Rec(label=f"C{i}", _solution_nice=(lambda i=i: f"C{i}"), position_cn=lambda p: 2, max_cn=lambda: 2, solution={"1": 2}, region_cn=[{}]) for i in range(ncn)]
        rnd.shuffle(cns)
        majors = []
        for j in range(rnd.randint(1, 5)):
            c = rnd.choice(cns)
            if rnd.random() < 0.4:
                c = Rec(**dict(c.__dict__))
            majors.append(Obj(label=f"M{j}", score=rnd.choice([0.0, 0.25, 0.5, 1.0, 1.5]), cn_solution=c, added=[],
                              solution={Obj(major=f"{j + 1}"): 2}, _solution_nice=(lambda j=j: f"M{j}")))
        stage = {m.label: [(f"{m.label}{k}", rnd.choice([0.0, 0.1, 0.7])) for k in "ab"[:rnd.randint(0, 2)]] for m in majors}
        calls = []

        def solve(gene, cov, major_sol, alleles, mutations, solver, max_solutions=1, **kw):
            calls.append((major_sol.label, getattr(cov, "for_structure", None), max_solutions))
            return [Obj(label=l, score=s_, major_solution=major_sol) for l, s_ in stage[major_sol.label]]

        def filtered(fn_):
            # the quality filter gives the base evidence; a structure filter is probed for the structure it was made for
            o = Obj(filtered=filtered_again, _coverage={})
            return o

        def filtered_again(fn_):
            probe = []
            mut = Obj(pos=5, op="_")
            cov_probe = Obj(basic_filter=lambda m, cn=None: probe.append(cn) or True)
            try:
                fn_(cov_probe, mut)
            except TypeError:
                pass
            return Obj(for_structure=fn_.structure if hasattr(fn_, "structure") else None, _coverage={}, filtered=filtered_again)

        def partial(f_, *a):
            def g_(*b):
                return f_(*a, *b)
            g_.structure = a[0].label if a and isinstance(a[0], Obj) and "label" in a[0].__dict__ else None
            return g_

        gene = Obj(alleles={f"{j + 1}": Obj(minors={}, func_muts=set()) for j in range(6)}, random_mutations=set(), region_at=lambda p: None)
        cov_model = ClassModel(repo.cls("coverage::Coverage"), env={"Coverage": Obj(quality_filter="QUALITY")})
        coverage = cov_model.instance(filtered=filtered, profile=Obj(cn_max=20, threshold=0.5, min_coverage=2.0, min_quality=10, min_mapq=10), _coverage={}, _indels=None)
        try:
            fn = Lifted(em, funcs={"SolvedAllele": lambda *a: a, "functools.partial": partial, "natsorted": lambda it, key=None: sorted(it, key=key),
                                   "_print_candidates": lambda *a: None, "solve_minor_model": solve, "Mutation": lambda *a: a},
                        env={"Coverage": Obj(quality_filter="QUALITY")})
            shown = list(majors)
            rnd.shuffle(shown)
            out = fn(gene, coverage, shown, "any", max_solutions=3)
        except Unfoldable as e:
            res.err("C10.R7", f"estimate_minor outside the folding language: {e}")
            continue   # no verdict on this instance; what the others show is still reported
        except Raised as e:
            bad.setdefault("all-candidates", f"majors {[(m.label, m.cn_solution.label) for m in majors]}: raises {e}")
            continue
        n += 1
        tag = f"majors {[(m.label, m.score, m.cn_solution.label) for m in shown]}"
        if sorted(c_[0] for c_ in calls) != sorted(m.label for m in majors):
            bad.setdefault("all-candidates", f"{tag}: refined {sorted(c_[0] for c_ in calls)}")
        by = {m.label: m for m in majors}
        wrong = [(l, st_) for l, st_, _ in calls if st_ != by[l].cn_solution.label]
        if wrong:
            bad.setdefault("own-structure", f"{tag}: candidate refined on evidence filtered for another structure: {wrong[:3]}")
        if any(mx != 3 for _, _, mx in calls):
            bad.setdefault("all-candidates", f"{tag}: max_solutions not forwarded: {calls[:2]}")
        mn = min(m.score for m in majors)
        want = sorted((l, round(s_ + by[ml].score - mn, 9)) for ml in by for l, s_ in stage[ml])
        got = sorted((o.label, round(o.score, 9)) for o in (out or []))
        if got != want:
            bad.setdefault("carry", f"{tag}, refinements {stage}: returned {got}; expected every refinement with score + (major score - best major score): {want}")
    res.count("C10.R7:scenarios folded", n)
    for key, clause in (("all-candidates", "every major candidate handed to the minor stage is refined exactly once"),
                        ("own-structure", "each candidate is refined on the evidence filtered for its own gene structure"),
                        ("carry", "a candidate's score carries over the score differences of the ... major-allele solutions it was derived from")):
        res.ob("C10.R7", em, em, key not in bad, expected=f"on every scenario: {clause}", found=f"{n} scenarios agree" if key not in bad else bad[key],
               clause=clause, key=f"minor-stage:{key}")


def run(repo, res):
    r7(repo, res)
    r6(repo, res)


MUTANTS = [
    dict(name="R6 structure ratio applied at the major stage too (seeded C10_b2 shape)", module="genotype", expect="C10.R6",
         old="            m.score,  # * ((m.cn_solution.score + SLACK) / (min_cn_score + SLACK)),", new="            m.score * ((m.cn_solution.score + SLACK) / (min_cn_score + SLACK)),"),
    dict(name="R6 minor stage receives the unfiltered majors", module="genotype", expect=["C10.R6", "C10.R7"],
         old="            if m.score - min_major_score - profile.gap < SOLUTION_PRECISION\n", new="            if True\n"),
    dict(name="R6 diplotype not copied", module="genotype", expect=["C10.R6", "C10.R7"],
         old="        n.set_diplotype(m.get_diplotype())\n", new=""),
    dict(name="benign: selection written as a loop", module="genotype", kind="benign",
         old="""    minor_sols = sorted(
        [
            m
            for m in minor_sols
            if m.score - min_minor_score - profile.gap < SOLUTION_PRECISION
        ],
        key=lambda m: (int(1000 * m.score), m._solution_nice()),
    )""",
         new="""    _kept = []
    for _cand in minor_sols:
        if _cand.score - min_minor_score - profile.gap < SOLUTION_PRECISION:
            _kept.append(_cand)
    minor_sols = sorted(_kept, key=lambda m: (int(1000 * m.score), m._solution_nice()))"""),
    dict(name="R1 structure guard removed", module="genotype", expect=["C10.R6", "C10.R7"],
         old="    if len(cn_sols) == 0:\n", new="    if len(cn_sols) < 0:\n"),
    dict(name="R1 major guard after min()", module="genotype", expect=["C10.R6", "C10.R7"],
         old="    if len(major_sols) == 0:\n", new="    if major_sols is None:\n"),
    dict(name="R1 minor guard removed", module="genotype", expect=["C10.R6", "C10.R7"],
         old="    if len(minor_sols) == 0:\n", new="    if False:\n"),
    dict(name="R2 structure difference not carried", module="genotype", expect=["C10.R6", "C10.R7"],
         old="            s.score += cn_sol.score - min_cn_score", new="            s.score += 0"),
    dict(name="R2 difference without the minimum", module="genotype", expect=["C10.R6", "C10.R7"],
         old="            s.score += cn_sol.score - min_cn_score", new="            s.score += cn_sol.score"),
    dict(name="R2 minor carries nothing", module="minor", expect=["C10.R6", "C10.R7"],
         old="                s.score += major_sol.score - min_score", new="                s.score += major_sol.score - major_sol.score"),
    dict(name="R2 minor min over one structure's candidates only", module="minor", expect=["C10.R6", "C10.R7"],
         old="    min_score = min(m.score for m in major_sols)\n", new="    min_score = min(m.score for m in major_sols[:1])\n"),
    dict(name="R2 rescale inverted", module="genotype", expect=["C10.R6", "C10.R7"],
         old="            * ((m.major_solution.cn_solution.score + SLACK) / (min_cn_score + SLACK)),",
         new="            * ((min_cn_score + SLACK) / (m.major_solution.cn_solution.score + SLACK)),"),
    dict(name="R2 rescale dropped", module="genotype", expect=["C10.R6", "C10.R7"],
         old="            * ((m.major_solution.cn_solution.score + SLACK) / (min_cn_score + SLACK)),",
         new="            * 1,"),
    dict(name="R3 gap ignored in final selection", module="genotype", expect=["C10.R6", "C10.R7"],
         old="            if m.score - min_minor_score - profile.gap < SOLUTION_PRECISION\n",
         new="            if m.score - min_minor_score < SOLUTION_PRECISION\n"),
    dict(name="R3 major filter keeps everything", module="genotype", expect=["C10.R6", "C10.R7"],
         old="            if m.score - min_major_score - profile.gap < SOLUTION_PRECISION\n",
         new="            if m.score - min_major_score - profile.gap < 1\n"),
    dict(name="R3 sorted by name first", module="genotype", expect=["C10.R6", "C10.R7"], count=2,
         old="key=lambda m: (int(1000 * m.score), m._solution_nice()),", new="key=lambda m: (m._solution_nice(), int(1000 * m.score)),"),
    dict(name="R3 worst first", module="genotype", expect=["C10.R6", "C10.R7"],
         old="""            if m.score - min_minor_score - profile.gap < SOLUTION_PRECISION
        ],
        key=lambda m: (int(1000 * m.score), m._solution_nice()),
    )""", new="""            if m.score - min_minor_score - profile.gap < SOLUTION_PRECISION
        ],
        key=lambda m: (int(1000 * m.score), m._solution_nice()),
        reverse=True,
    )"""),
    dict(name="R4 re-wrap swaps fields", module="genotype", expect=["C10.R6", "C10.R7"],
         old="            m.solution,\n            m.cn_solution,\n            m.added,", new="            m.solution,\n            m.cn_solution,\n            [],"),
    dict(name="benign: returned list copied", module="genotype", kind="benign",
         old="    return {gene_db: minor_sols}", new="    minor_sols = list(minor_sols) + []\n    return {gene_db: minor_sols}"),
    dict(name="R5 structures pruned before the major stage (seeded C10_2 shape)", module="genotype", expect=["C10.R6", "C10.R7"],
         old="    for i, cn_sol in enumerate(cn_sols):\n        sols = major.estimate_major(",
         new="    for i, cn_sol in enumerate(cn_sols):\n        if cn_sol.score - min_cn_score - profile.gap >= SOLUTION_PRECISION:\n            break\n        sols = major.estimate_major("),
    dict(name="R5 only the best structure is explored", module="genotype", expect=["C10.R6", "C10.R7"],
         old="    for i, cn_sol in enumerate(cn_sols):\n        sols = major.estimate_major(", new="    for i, cn_sol in enumerate(cn_sols[:1]):\n        sols = major.estimate_major("),
    dict(name="R5 minor solutions of later majors skipped", module="minor", expect=["C10.R6", "C10.R7"],
         old="        for major_sol in natsorted(majors, key=lambda s: str(s.solution)):\n            sols = solve_minor_model(",
         new="        for major_sol in natsorted(majors, key=lambda s: str(s.solution)):\n            if minor_sols:\n                continue\n            sols = solve_minor_model("),
    # benign
    dict(name="benign: min via generator", module="genotype", kind="benign",
         old="min_cn_score = min(cn_sols, key=lambda m: m.score).score", new="min_cn_score = min(m.score for m in cn_sols)"),
    dict(name="benign: `not cn_sols`", module="genotype", kind="benign",
         old="    if len(cn_sols) == 0:\n", new="    if not cn_sols:\n"),
    dict(name="benign: increment rewritten", module="genotype", kind="benign",
         old="            s.score += cn_sol.score - min_cn_score", new="            s.score += -(min_cn_score - cn_sol.score)"),
    dict(name="benign: filter rewritten with <=", module="genotype", kind="benign",
         old="            if m.score - min_minor_score - profile.gap < SOLUTION_PRECISION\n",
         new="            if m.score < min_minor_score + profile.gap + SOLUTION_PRECISION\n"),
]
