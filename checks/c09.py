"""
C09 -- the star-allele catalogue is a consistent, build-independent partition.

Decided on a bounded domain: the whole loader (`Gene._init_basic`, `_init_regions`, `_init_alleles`
with its nested converter, `_init_partials`, and the accessors `get_allele`, `get_functional`,
`has_coverage`) is lifted and folded in the checker's interpreter on generated gene databases (two
builds on opposite strands, a pseudogene, a whole-gene deletion, left / right fusions with and
without own core variants, a partial deletion, duplicate variant sets, core / silent variants,
labels, a zero-length region; thorough: seeded random variations of the allele table).  The loaded
catalogue is then checked clause by clause against an independent reading of the statement.
Not decided: the 38 shipped databases (data); databases outside the generated shapes.
"""

import ast
import collections
import itertools
import random

from sa.fold import Evaluator, Obj, Raised, Unfoldable, module_consts
from sa.loader import AnalysisError
from sa.report import seed, thorough

PROPERTY = "C09"
EXPLANATION = (
    "Bounded partial evaluation of the lifted loader on generated databases (quick: 4 databases x 2 builds; thorough: + seeded "
    "random allele tables). Clauses checked on every loaded catalogue: every database allele except bare left fusions is "
    "reachable by name in exactly one major allele (through the alias table); majors (and fusion partials) are pairwise "
    "distinct in (structure, core set); core = function-altering, minor-only = silent, and definition = core + minor-only; "
    "minors of one major are pairwise different; every structural configuration exists and lists its alleles; fusion "
    "partials keep exactly the parent's variants in retained regions; both builds give the same catalogue in RefSeq terms."
)
ASSUMPTIONS = ["the claim is bounded to the generated databases (shapes listed in the evidence)",
               "natsorted is modelled by digit/non-digit chunk comparison"]

Mut = collections.namedtuple("Mutation", ["pos", "op"])
GRange = collections.namedtuple("GRange", ["chr", "start", "end"])
CT = Obj(DEFAULT="DEFAULT", LEFT_FUSION="LEFT_FUSION", RIGHT_FUSION="RIGHT_FUSION", DELETION="DELETION", CUSTOM="CUSTOM")


def CNConfig(cn, kind, alleles, description=""):
    return Obj(cn=cn, kind=kind, alleles=alleles, description=description)


def MinorAllele(name, alt_name=None, neutral_muts=None, activity=None, evidence=None, pharmvar=None):
    return Obj(name=name, alt_name=alt_name, neutral_muts=set() if neutral_muts is None else neutral_muts, activity=activity,
               evidence=evidence, pharmvar=pharmvar)


def MajorAllele(name, cn_config="1", func_muts=None, minors=None):
    return Obj(name=name, cn_config=cn_config, func_muts=set() if func_muts is None else func_muts, minors={} if minors is None else minors)


def natkey(x):
    import re

    if isinstance(x, (list, tuple)):
        return [natkey(y) for y in x]
    return [(0, int(t)) if t.isdigit() else (1, t) for t in re.split(r"(\d+)", str(x)) if t != ""]


def natsorted(it, key=None):
    return sorted(it, key=(lambda v: natkey(key(v))) if key else natkey)


SEQ = "GATTACAGGCCTTAGCAGTCCATGGCTAAGCTTGACCGTAGGCTTACCGATAGCTTAGGCA"  # 60 nt


SEQ2 = "TTGACGGATCCATTGCAGGCTAACGTTAGCCATGGACTTGCAAGGCTTAACGGATCATGC"  # 60 nt: the pseudogene part of a reference that spans both


def base_yml(alleles, pseudogene_in_reference=False, region_names=None):
    if region_names:
        y = base_yml(alleles, pseudogene_in_reference)
        st = y["structure"]
        st["regions"] = {b: {region_names.get(r, r): v for r, v in regs.items()} for b, regs in st["regions"].items()}
        st["cn_regions"] = [region_names.get(r, r) for r in st["cn_regions"]]
        return y
    if pseudogene_in_reference:
        return {"name": "G", "version": "1", "generated": "x",
                "reference": {"name": "NG_1", "seq": SEQ + SEQ2, "mappings": {"hg19": ["1", 1001, 1121, "+", "M120"], "hg38": ["1", 5001, 5121, "-", "M120"]},
                              "exons": [[11, 40]]},
                "structure": {"genes": ["G", "GP"],
                              "regions": {"hg19": {"up": [1001, 1011, 1061, 1071], "e1": [1011, 1031, 1071, 1091], "e2": [1031, 1061, 1091, 1121]},
                                          "hg38": {"up": [5111, 5121, 5051, 5061], "e1": [5091, 5111, 5031, 5051], "e2": [5061, 5091, 5001, 5031]}},
                              "cn_regions": ["e1", "e2"], "tandems": [["13", "1"]]},
                "alleles": alleles}
    return {"name": "G", "version": "1", "generated": "x",
            "reference": {"name": "NG_1", "seq": SEQ, "mappings": {"hg19": ["1", 1001, 1061, "+", "M60"], "hg38": ["1", 5001, 5061, "-", "M60"]},
                          "exons": [[11, 40]]},
            "structure": {"genes": ["G", "GP"],
                          "regions": {"hg19": {"up": [1001, 1011, 2001, 2011], "e1": [1011, 1031, 2011, 2031], "e2": [1031, 1061, 2031, 2061]},
                                      "hg38": {"up": [5051, 5061, 6051, 6061], "e1": [5031, 5051, 6031, 6051], "e2": [5001, 5031, 6001, 6031]}},
                          "cn_regions": ["e1", "e2"], "tandems": [["13", "1"]]},
            "alleles": alleles}


def V(pos, alt_or_op, rs, fn=None):
    """A database variant row at 1-based RefSeq position `pos`."""
    b = (SEQ + SEQ2)[pos - 1]
    op = alt_or_op if (alt_or_op.startswith("ins") or alt_or_op.startswith("del")) else f"{b}>{alt_or_op}"
    if alt_or_op == "del":
        op = f"del{SEQ[pos - 1:pos + 1]}"
    return [pos, op, rs] + ([fn] if fn else [])


C20, C25, C52 = V(20, "T", "rs20", "P3S"), V(25, "A", "rs25", "Q5X"), V(52, "insT", "rs52", "frameshift")
S15, S45, S48, S8 = V(15, "G", "rs15"), V(45, "A", "rs45"), V(48, "del", "rs48"), V(8, "C", "-")


def databases():
    dbs = []
    dbs.append(("basic", {
        "G*1": {"mutations": []},
        "G*1.002": {"mutations": [S15]},
        "G*2": {"mutations": [C20]},
        "G*2.002": {"mutations": [C20, S45]},
        "G*2.003": {"mutations": [S45, C20]},                       # duplicate of 2.002 -> alias
        "G*2.004": {"mutations": [C20, S15]},                       # silent variant in a region the left fusion does not retain
        "G*3": {"mutations": [C20, C52]},
        "G*5": {"mutations": [["G", "deletion"]]},
        "G*13": {"mutations": [["GP", "e2-"]]},                     # bare left fusion
        "G*36": {"mutations": [["GP", "e2+"], C20]},                # right fusion with a core variant
    }))
    dbs.append(("labels and silent-only", {
        "G*1": {"mutations": [], "label": "G*1A"},
        "G*1.002": {"mutations": [S15, S48], "label": "G*1B"},
        "G*1.003": {"mutations": [S48]},
        "G*4": {"mutations": [C25, S8]},
        "G*4.002": {"mutations": [C25, S8, S45]},
        "G*9": {"mutations": [C25, C20]},
        "G*9.002": {"mutations": [C20, C25, S15], "activity": "none"},
        "G*10": {"mutations": [C52]},
    }))
    dbs.append(("fusions with own core variants and a partial deletion", {
        "G*1": {"mutations": []},
        "G*2": {"mutations": [C20, S45]},
        "G*4": {"mutations": [C52]},
        "G*4.002": {"mutations": [C52, S45]},
        "G*68": {"mutations": [["GP", "e2-"], C52]},                # left fusion defined by a core variant: not extended
        "G*13": {"mutations": [["GP", "e1-"]]},                     # bare left fusion from e1 on
        "G*61": {"mutations": [["GP", "e2+"]]},
        "G*7": {"mutations": [["G", "deletion:e1"], S45]},          # custom partial deletion
        "G*5": {"mutations": [["G", "deletion"]]},
    }))
    dbs.append(("same prefix, different core sets", {
        "G*1": {"mutations": []},
        "G*2": {"mutations": [C20]},
        "G*2.002": {"mutations": [C25]},                            # same prefix 2, other core set -> second major
        "G*2.003": {"mutations": [C20, S15]},
        "G*3": {"mutations": [S15], "ignored": True},
        "G*6": {"mutations": [["ignored", 0], C52]},
    }))
    dbs.append(("duplicates whose natural and lexical order differ; three-way name collision", {
        "G*1": {"mutations": []},
        "G*9.001": {"mutations": [C25, S15]},
        "G*10.001": {"mutations": [S15, C25]},                      # same set as 9.001, same major (same core): one becomes an alias
        "G*10.002": {"mutations": [C25]},
        "G*7.001": {"mutations": [C20], "label": "G*7"},
        "G*7.002": {"mutations": [C52], "label": "G*7"},
        "G*7.003": {"mutations": [C20, C52], "label": "G*7"},
        "G*7.004": {"mutations": [C20, V(30, "C", "rs30", "L7P")], "label": "G*7"},
        "G*13": {"mutations": [["GP", "e2-"]]},
    }))
    P75, P100, P82 = V(75, "A" if SEQ2[14] != "A" else "C", "rs75"), V(100, "A" if SEQ2[39] != "A" else "C", "rs100"), V(82, "A" if SEQ2[21] != "A" else "C", "rs82")
    dbs.append(("PSEUDO: variants inside the pseudogene part of the reference", {
        "G*1": {"mutations": []},
        "G*2": {"mutations": [C20, S45]},
        "G*2.002": {"mutations": [C20, S45, P75, P100]},          # the left fusion keeps S45 (gene e2) and P75 (pseudogene e1), drops C20 and P100
        "G*3": {"mutations": [C25, P82]},
        "G*13": {"mutations": [["GP", "e2-"]]},
        "G*36": {"mutations": [["GP", "e2+"], C20]},
        "G*5": {"mutations": [["G", "deletion"]]},
    }))
    # a left-fusion breakpoint shared by a bare fusion allele and a fusion allele with a core variant of its own
    dbs.append(("a bare left fusion and a left fusion with its own core variant at one breakpoint", {
        "G*1": {"mutations": []},
        "G*2": {"mutations": [C20, S45]},
        "G*13": {"mutations": [["GP", "e2-"]]},
        "G*68": {"mutations": [["GP", "e2-"], C52]},
        "G*68.002": {"mutations": [["GP", "e2-"], C52, S45]},
        "G*5": {"mutations": [["G", "deletion"]]},
    }))
    dbs.append(("two right fusions and two partial deletions that share a configuration", {
        "G*1": {"mutations": []},
        "G*2": {"mutations": [C20, S45]},
        "G*36": {"mutations": [["GP", "e2+"], C20]},
        "G*57": {"mutations": [["GP", "e2+"], C25]},
        "G*7": {"mutations": [["G", "deletion:e1"], S45]},
        "G*8": {"mutations": [["G", "deletion:e1"], C52]},
        "G*5": {"mutations": [["G", "deletion"]]},
    }))
    # a partial deletion that removes exactly the regions a bare left fusion replaces: same main-gene vector, different pseudogene vector
    dbs.append(("a partial deletion whose main-gene copy vector equals that of a bare left fusion", {
        "G*1": {"mutations": []},
        "G*2": {"mutations": [C20, S45]},
        "G*13": {"mutations": [["GP", "e2-"]]},
        "G*7": {"mutations": [["G", "deletion:up,e1,i1"], S45]},
        "G*5": {"mutations": [["G", "deletion"]]},
    }))
    dbs.append(("partial deletions are the only structural alleles", {
        "G*1": {"mutations": []},
        "G*2": {"mutations": [C20, S45]},
        "G*7": {"mutations": [["G", "deletion:e1"], S45]},
        "G*8": {"mutations": [["G", "deletion:e1,e2"]]},
    }))
    # region names that contain each other: a custom partial deletion names one of them
    dbs.append(("NAMES: custom partial deletion among regions whose names contain each other", {
        "G*1": {"mutations": []},
        "G*2": {"mutations": [C20]},
        "G*7": {"mutations": [["G", "deletion:utr"], S45]},
        "G*8": {"mutations": [["G", "deletion:ut,utr"]]},
        "G*5": {"mutations": [["G", "deletion"]]},
    }))
    return dbs


def random_db(rnd):
    cores = [C20, C25, C52, V(30, "C", "rs30", "L7P")]
    silents = [S15, S45, S48, S8, V(55, "T", "rs55")]
    alleles = {"G*1": {"mutations": []}}
    n = 1
    numbers = rnd.sample([2, 3, 4, 7, 9, 10, 11, 21], rnd.randint(3, 5))
    for major in numbers:
        core = rnd.sample(cores, rnd.randint(1, 2))
        if rnd.random() < 0.6:
            alleles[f"G*{major}"] = {"mutations": list(core)}
        for sub in range(1, 1 + rnd.randint(1, 4)):
            c_ = list(core) if rnd.random() < 0.8 else rnd.sample(cores, rnd.randint(1, 2))  # same prefix, other core set
            sil = rnd.sample(silents, rnd.randint(0, 2))
            muts = c_ + sil
            rnd.shuffle(muts)
            entry = {"mutations": muts}
            if rnd.random() < 0.3:
                entry["label"] = f"G*{major}"
            alleles[f"G*{major}.{sub:03d}"] = entry
    if rnd.random() < 0.7:
        alleles["G*5"] = {"mutations": [["G", "deletion"]]}
    if rnd.random() < 0.7:
        alleles["G*13"] = {"mutations": [["GP", rnd.choice(["e1-", "e2-"])]]}
    if rnd.random() < 0.5:
        alleles["G*36"] = {"mutations": [["GP", rnd.choice(["e2+", "e1+"])]] + rnd.sample(cores, rnd.randint(0, 1))}
    items = list(alleles.items())
    head, tail = items[:1], items[1:]
    rnd.shuffle(tail)
    return dict(head + tail)


class Loader:
    def __init__(self, repo):
        self.repo = repo
        self.consts = module_consts(repo.mod("common"))

    def body(self, f):
        return [s for s in f.body if not (isinstance(s, ast.Expr) and isinstance(s.value, ast.Constant))]

    def folded(self, ref, argnames):
        f = self.repo.func(ref)

        def call(*a):
            k, v = Evaluator(dict(zip(argnames, a)), consts=self.consts).run(self.body(f))
            if k != "return":
                raise Raised(str(v))
            return v

        return call

    def load(self, yml, genome):
        me = Obj(genome=genome, _yml=yml)
        funcs = {"rev_comp": self.folded("common::rev_comp", ["seq"]), "seq_to_amino": lambda s: "", "GRange": GRange, "Mutation": Mut,
                 "CNConfig": CNConfig, "MinorAllele": MinorAllele, "MajorAllele": MajorAllele,
                 "allele_name": self.folded("common::allele_name", ["x"]), "freezekey": self.folded("common::freezekey", ["x"]),
                 "sorted_tuple": lambda x: tuple(sorted(x)), "natsorted": natsorted}
        gf = self.repo.func("gene::Gene.get_functional")
        me.region_at = lambda pos: me._region_at.get(pos, None)

        def get_functional(mut, infer=True):
            k, v = Evaluator({"self": me, "mut": mut, "infer": infer}, funcs=funcs, consts=self.consts).run(self.body(gf))
            return v if k == "return" else None

        me.get_functional = get_functional
        me.is_functional = lambda m, infer=True: get_functional(m, infer) is not None
        for fn in ("_init_basic", "_init_regions", "_init_alleles", "_init_partials"):
            f = self.repo.func(f"gene::Gene.{fn}")
            k, v = Evaluator({"self": me, "yml": yml, "CNConfigType": CT}, funcs=funcs, consts=self.consts).run(self.body(f))
            if k == "raise":
                raise Raised(f"{fn}: {v}")
        ga = self.repo.func("gene::Gene.get_allele")
        hc = self.repo.func("gene::Gene.has_coverage")

        def get_allele(name):
            k, v = Evaluator({"self": me, "name": name}).run(self.body(ga))
            return v if k == "return" else None

        me.get_allele = get_allele

        def has_coverage(a, pos):
            k, v = Evaluator({"self": me, "a": a, "pos": pos}).run(self.body(hc))
            if k != "return":
                raise Raised(str(v))
            return v

        me.has_coverage = has_coverage
        return me


def strip(n):
    return n.split("*", 1)[1].replace("/", "_") if "*" in n else n


def db_view(yml):
    """Independent reading of the database: name -> (kind, variant rows)."""
    out = {}
    for n, a in yml["alleles"].items():
        if a.get("ignored"):
            continue
        rows = [m for m in a["mutations"] if not (isinstance(m[0], str) and m[0] == "ignored")]
        struct = [m for m in rows if isinstance(m[0], str)]
        var = [(m[0], m[1]) for m in rows if not isinstance(m[0], str)]
        func = {(m[0], m[1]) for m in rows if not isinstance(m[0], str) and len(m) > 3}
        out[strip(n)] = dict(struct=struct, var=set(var), func=func)
    return out


def refseq_terms(me, muts):
    return frozenset(me.mutations[(m.pos, m.op)][3:5] for m in muts)


def check_catalogue(res, f, label, yml, me, genome):
    db = db_view(yml)
    tag = f"{label}/{genome}"
    problems = collections.OrderedDict()

    def bad(rule, msg):
        problems.setdefault(rule, msg)

    bare_left = {n for n, a in db.items() if any(s[1].endswith("-") for s in a["struct"]) and not a["func"]}
    # (a) reachable by name, in exactly one major
    for n in db:
        owners = [mj for mj, al in me.alleles.items() if n in al.minors]
        alias = me.removed.get(n)
        if alias is not None:
            owners = [mj for mj, al in me.alleles.items() if alias in al.minors]
        if n in bare_left:
            continue
        if len(owners) != 1:
            bad("C09.R1", f"{tag}: database allele {n} belongs to {len(owners)} major alleles {owners}")
        got = me.get_allele(n)
        if got is None:
            bad("C09.R1", f"{tag}: database allele {n} cannot be looked up by name")
    # (b) majors pairwise distinct in (structure, core set)
    seen = {}
    for mj, al in me.alleles.items():
        key = (al.cn_config, frozenset(al.func_muts))
        if key in seen:
            bad("C09.R2", f"{tag}: major alleles {seen[key]} and {mj} have the same structure and core-variant set")
        seen[key] = mj
    # (c) core = functional, minor-only = silent, definition = core + minor-only (non-partial alleles)
    for mj, al in me.alleles.items():
        for m in al.func_muts:
            if me.mutations[(m.pos, m.op)][0] is None:
                bad("C09.R3", f"{tag}: core variant {m} of {mj} is silent in the database")
        for mn, mi in al.minors.items():
            if not all(isinstance(m, tuple) and len(m) == 2 and (tuple(m) in me.mutations) for m in mi.neutral_muts):
                bad("C09.R3", f"{tag}: minor allele {mn} holds entries that are not catalogued variants: {sorted(map(str, mi.neutral_muts))[:3]}")
                continue
            for m in mi.neutral_muts:
                if me.mutations[(m.pos, m.op)][0] is not None:
                    bad("C09.R3", f"{tag}: minor-only variant {m} of {mn} is function-altering in the database")
            if "#" not in mn and mn in db:
                got = {(p + 1, o) for p, o in refseq_terms(me, al.func_muts | mi.neutral_muts)}
                if got != db[mn]["var"]:
                    bad("C09.R3", f"{tag}: {mn} is loaded with variants {sorted(got)}, database says {sorted(db[mn]['var'])}")
    # (d) minors of one major pairwise different
    for mj, al in me.alleles.items():
        sets = collections.Counter(frozenset(mi.neutral_muts) for mi in al.minors.values())
        if any(c > 1 for c in sets.values()):
            bad("C09.R4", f"{tag}: major {mj} has minor alleles with identical variant sets")
    # (e) configurations exist and list their alleles
    for mj, al in me.alleles.items():
        if al.cn_config not in me.cn_configs:
            bad("C09.R5", f"{tag}: {mj} refers to the missing configuration {al.cn_config}")
    for c, conf in me.cn_configs.items():
        want = {mj for mj, al in me.alleles.items() if al.cn_config == c}
        if set(conf.alleles) != want:
            bad("C09.R5", f"{tag}: configuration {c} lists {sorted(conf.alleles)}, alleles using it: {sorted(want)}")
    # (e2) configuration vectors follow the database's structural entries
    order = list(me.regions[0])
    rank = {r: i for i, r in enumerate(order)}
    zero = {(g, r) for g, d in enumerate(me.regions) for r, rng in d.items() if rng.end - rng.start <= 0}
    for n, a in db.items():
        if not a["struct"]:
            continue
        mj_names = [mj for mj, al in me.alleles.items() if any(mn == n or mn.startswith(n + "#") or mn.split("#")[0] == n for mn in al.minors)]
        cfgs = {me.alleles[mj].cn_config for mj in mj_names} | ({n} if n in me.cn_configs else set())
        kind, arg = a["struct"][0][0], a["struct"][0][1]
        want = None
        if arg == "deletion":
            want = [{r: 0 for r in order}, {r: 1 for r in order}]
        elif arg.startswith("deletion:"):
            lost = arg[9:].split(",")
            want = [{r: int(r not in lost) for r in order}, {r: 1 for r in order}]
        elif arg.endswith("-"):
            b = arg[:-1]
            want = [{r: int(rank[r] >= rank[b]) for r in order}, {r: int(rank[r] < rank[b]) for r in order}]
        elif arg.endswith("+") or kind == "GP":
            b = arg.rstrip("+")
            want = [{r: int(rank[r] < rank[b]) for r in order}, {r: 1 + int(rank[r] >= rank[b]) for r in order}]
        if want is None:
            continue
        for g, d in enumerate(want):
            for r in d:
                if (g, r) in zero:
                    d[r] = 0
        hit = [c for c in me.cn_configs.values() if [dict(x) for x in c.cn] == want]
        if not hit:
            bad("C09.R5", f"{tag}: no configuration has the copy vector of {n} ({arg}): expected {want}")
        # ... and the major alleles that hold this database allele are assigned that configuration
        for mj in mj_names:
            conf_ = me.cn_configs.get(me.alleles[mj].cn_config)
            if conf_ is not None and [dict(x) for x in conf_.cn] != want:
                bad("C09.R5", f"{tag}: {n} ({arg}) is held by major {mj}, whose configuration {me.alleles[mj].cn_config} has the copy vector {[dict(x) for x in conf_.cn]}, expected {want}")
    # (e3) an allele has gene copies exactly in the regions its configuration keeps (what the later stages ask before placing a variant)
    for mj, al in me.alleles.items():
        conf = me.cn_configs.get(al.cn_config)
        if conf is None:
            continue
        for r, rng in me.regions[0].items():
            if rng.end - rng.start <= 0:
                continue
            for pos in (rng.start, rng.end - 1):
                try:
                    got = me.has_coverage(mj, pos)
                except Raised as e_:
                    bad("C09.R5", f"{tag}: asking whether allele {mj} has gene copies at position {pos} (region {r}) raises {e_}")
                    continue
                want_cov = conf.cn[0][r] > 0
                if bool(got) != want_cov:
                    bad("C09.R5", f"{tag}: allele {mj} (configuration {al.cn_config}) at region {r}: has_coverage says {got}, the configuration keeps {conf.cn[0][r]} copies")
    # (e4) copy-number calling is available exactly for genes whose database holds structural alleles of any kind
    has_struct = any(a["struct"] for a in db.values())
    if bool(getattr(me, "do_copy_number", None)) != has_struct:
        bad("C09.R5", f"{tag}: the database {'holds' if has_struct else 'holds no'} structural alleles, copy-number calling is switched {'on' if getattr(me, 'do_copy_number', None) else 'off'}")
    # (f) fusion partials keep exactly the parent's variants in retained regions
    for mj, al in me.alleles.items():
        if "#" not in mj:
            continue
        fus = al.cn_config
        conf = me.cn_configs[fus]
        for mn, mi in al.minors.items():
            parent_minor = mn.split("#", 1)[1]
            pm = me.get_allele(parent_minor)
            if pm is None or "#" in pm[0].name:
                continue
            pmaj, pmin = pm
            alln = set(pmaj.func_muts) | set(pmin.neutral_muts)
            keep = set()
            for m in alln:
                rg = me.region_at(m.pos)
                if rg and conf.cn[rg[0]][rg[1]] > 0:
                    keep.add(m)
            got = set(al.func_muts) | set(mi.neutral_muts)
            if got != keep:
                bad("C09.R6", f"{tag}: partial {mn} carries {sorted(got)}, retained variants of {parent_minor} are {sorted(keep)}")
    # (f2) a fused structure named by a bare left fusion is expanded: every parent allele of the default structure has a candidate
    #      on the fused structure that carries exactly the parent's core variants in the retained regions
    default_cfgs = {c for c, k in me.cn_configs.items() if k.kind == CT.DEFAULT}
    first_of = {}
    for n, a in db.items():
        if a["struct"] and a["struct"][0][1].endswith("-"):
            first_of.setdefault((a["struct"][0][0], a["struct"][0][1]), n)
    for key, n in first_of.items():
        if n not in bare_left:
            continue   # the structure is named by an allele with core variants of its own: expansion is left open by the statement
        fus = next((c for c in (n, n.split(".")[0]) if c in me.cn_configs and me.cn_configs[c].kind == CT.LEFT_FUSION), None)
        if fus is None:
            continue
        conf = me.cn_configs[fus]
        have = {frozenset(al.func_muts) for mj, al in me.alleles.items() if al.cn_config == fus and "#" in mj}
        for mj, al in me.alleles.items():
            if al.cn_config not in default_cfgs or "#" in mj:
                continue
            kept = set()
            for m in al.func_muts:
                rg = me.region_at(m.pos)
                if rg and conf.cn[rg[0]][rg[1]] > 0:
                    kept.add(m)
            if frozenset(kept) not in have:
                bad("C09.R6", f"{tag}: fused structure {fus} (bare left fusion {n}) has no candidate allele for parent {mj} "
                              f"with its retained core variants {sorted(kept)}")
                break
    return problems, me


def canonical(me):
    """Catalogue in RefSeq terms (build independent)."""
    return {mj: (al.cn_config, refseq_terms(me, al.func_muts), {mn: refseq_terms(me, mi.neutral_muts) for mn, mi in al.minors.items()})
            for mj, al in me.alleles.items()}, dict(me.removed), {c: (k.kind, tuple(tuple(sorted(g.items())) for g in k.cn)) for c, k in me.cn_configs.items()}


RULES = {
    "C09.R1": ("every database allele that is not a bare left fusion is reachable by name (alias table included) and belongs to exactly one major allele",
               "every database allele that is not a bare left fusion is reachable by name and belongs to exactly one major allele"),
    "C09.R2": ("major alleles (and fusion partials) are pairwise distinct in (structure, core-variant set)",
               "two different catalogued major alleles never have the same structure and core-variant set"),
    "C09.R3": ("core variants are the function-altering ones, minor-only variants the silent ones, and core + minor-only = the database definition",
               "core variants are exactly the function-altering ones and minor-only variants the silent ones"),
    "C09.R4": ("minor alleles of one major allele have pairwise different variant sets", "minor alleles of one major allele have pairwise different variant sets"),
    "C09.R5": ("every allele's structural configuration exists and lists exactly the alleles that use it", "every allele's structural configuration exists"),
    "C09.R6": ("fusion partials carry exactly the parent's variants that lie in gene regions the fusion retains",
               "for a fused structure the candidate alleles carry exactly those variants of the parent allele that lie in gene regions the fusion retains"),
    "C09.R7": ("hg19 (+ strand) and hg38 (- strand) give the same catalogue in RefSeq terms", "the catalogue is the same whichever genome build is selected"),
}


def run(repo, res):
    ld = Loader(repo)
    f = repo.func("gene::Gene._init_alleles")
    for fn in ("_init_basic", "_init_regions", "_init_alleles", "_init_partials", "get_allele", "get_functional"):
        res.analysed(f"gene::Gene.{fn}")
    dbs = [(l, base_yml(a, pseudogene_in_reference=l.startswith("PSEUDO"), region_names={"up": "ut", "e1": "utr"} if l.startswith("NAMES") else None))
           for l, a in databases()]
    if thorough():
        rnd = random.Random(seed())
        for i in range(20):
            dbs.append((f"random{i}", base_yml(random_db(rnd))))
    problems = collections.OrderedDict()
    n = 0
    for label, yml in dbs:
        cats = {}
        for genome in ("hg19", "hg38"):
            try:
                me = ld.load(yml, genome)
            except Unfoldable as e:
                res.err("C09", f"loader outside the folding language on database '{label}': {e}")
                return
            except Raised as e:
                problems.setdefault("C09.R1", f"{label}/{genome}: the loader raises {e.kind}")
                continue
            n += 1
            try:
                p, _ = check_catalogue(res, f, label, yml, me, genome)
                for k, v in p.items():
                    problems.setdefault(k, v)
                cats[genome] = canonical(me)
            except (AttributeError, KeyError, TypeError, IndexError) as e:
                problems.setdefault("C09.R4", f"{label}/{genome}: the loaded catalogue is malformed ({type(e).__name__}: {e})")
        if len(cats) == 2 and cats["hg19"] != cats["hg38"]:
            a, b = cats["hg19"], cats["hg38"]
            diff = [k for k in set(a[0]) | set(b[0]) if a[0].get(k) != b[0].get(k)]
            problems.setdefault("C09.R7", f"{label}: builds differ for alleles {sorted(diff)[:4]}" if diff else f"{label}: alias tables / configurations differ")
    res.count("C09:catalogues loaded", n)
    res.floor("C09", "catalogues loaded", n, 8)
    for rule, (exp, clause) in RULES.items():
        res.ob(rule, f, f, rule not in problems, expected=exp + f" -- on {n} generated catalogues",
               found="holds on the whole domain" if rule not in problems else problems[rule], clause=clause, key=rule.split(".")[1] + "-catalogue")


MUTANTS = [
    dict(name="R5 configurations keyed by the main-gene vector only (seeded X9_2 shape)", module="common", expect=["C09.R1", "C09.R5"],
         old="    a = tuple(i[1] for i in sorted(x[0].items()))\n    if len(x) > 1:\n        a += tuple(i[1] for i in sorted(x[1].items()))\n    return a", new="    return tuple(i[1] for i in sorted(x[0].items()))"),
    dict(name="R6 a sibling with core variants stops the expansion of a bare left fusion (seed C09_e1)", module="gene", expect="C09.R6",
         old="            if len(self.alleles[f].func_muts) > 0:\n", new="            if any(len(a.func_muts) > 0 for a in self.alleles.values() if a.cn_config == f):\n"),
    dict(name="R5 second allele of a shared left-fusion configuration falls back to the default structure", module="gene", expect="C09.R5",
         old="                inverse_cn[key] = a\n            else:\n                self.cn_configs[inverse_cn[key]].alleles.add(a)\n        # Deletion is a special kind of left fusion",
         new="                inverse_cn[key] = a\n            else:\n                pass\n        # Deletion is a special kind of left fusion"),
    dict(name="R5 partial deletions do not switch copy-number calling on (seeded X1_4 shape)", module="gene", expect="C09.R5",
         old="deletion_allele or len(fusions_left) or len(fusions_right) or len(custom_cn)", new="deletion_allele or len(fusions_left) or len(fusions_right)"),
    dict(name="R6 retained regions judged by the main gene's vector only (seeded C09_b1 shape)", module="gene", expect="C09.R6",
         old="                if m:\n                    return self.cn_configs[f].cn[m[0]][m[1]] > 0\n                return False",
         new="                if m:\n                    return self.cn_configs[f].cn[0][m[1]] > 0\n                return False"),
    dict(name="R1 alias table not written", module="gene", expect="C09.R1",
         old="                            self.removed[s] = min(sa)\n", new="                            pass\n"),
    dict(name="R1 duplicate minors both dropped from the lookup", module="gene", expect=["C09.R1", "C09.R3"],
         old="                    min(sa): MinorAllele(\n                        min(sa),", new="                    max(sa) + \"x\": MinorAllele(\n                        min(sa),"),
    dict(name="R2 majors grouped by structure only", module="gene", expect=["C09.R2", "C09.R3", "C09.R1"],
         old="            alleles_inverse[cn_config, tuple(fn_muts)].add(a)", new="            alleles_inverse[cn_config, tuple(fn_muts[:1])].add(a)"),
    dict(name="R3 silent variants counted as core", module="gene", expect=["C09.R3", "C09.R2"],
         old="                m for m in alleles[a].neutral_muts if self.is_functional(m)\n", new="                m for m in alleles[a].neutral_muts\n"),
    dict(name="R3 core variants left in the minor definition", module="gene", expect=["C09.R3", "C09.R4"],
         old="                        set(alleles[sa].neutral_muts) - set(key[1]),", new="                        set(alleles[sa].neutral_muts),"),
    dict(name="R4 duplicate minors kept", module="gene", expect=["C09.R4", "C09.R1"],
         old="                key = sorted_tuple(a.minors[s].neutral_muts)\n                minors[key].append(s)", new="                key = (s,)\n                minors[key].append(s)"),
    dict(name="R5 configuration lists not rebuilt after the partials", module="gene", expect="C09.R5",
         old="        for a in self.alleles.values():\n            self.cn_configs[a.cn_config].alleles.add(a.name)", new="        for a in list(self.alleles.values())[:1]:\n            self.cn_configs[a.cn_config].alleles.add(a.name)"),
    dict(name="R6 partials keep variants in lost regions", module="gene", expect=["C09.R6", "C09.R2"],
         old="                    return self.cn_configs[f].cn[m[0]][m[1]] > 0\n                return False", new="                    return True\n                return False"),
    dict(name="R6 partial minors lose retained silent variants", module="gene", expect="C09.R6",
         old="                                neutral_muts=preserved_mutations(f, sa.neutral_muts),", new="                                neutral_muts=set(),"),
    dict(name="R7 region order not strand-aware", module="gene", expect=["C09.R7", "C09.R6"],
         old="                dict(sorted(regions.items(), key=lambda x: x[1])[:: self.strand])", new="                dict(sorted(regions.items(), key=lambda x: x[1]))"),
    dict(name="R7 left fusion break compares ranks the wrong way on one side", module="gene", expect=["C09.R6", "C09.R7", "C09.R5", "C09.R2"],
         old="                {r: int(rank[r] >= rank[brk]) for r in self.regions[0]},\n                {r: int(rank[r] < rank[brk]) for r in self.regions[1]},",
         new="                {r: int(rank[r] > rank[brk]) for r in self.regions[0]},\n                {r: int(rank[r] < rank[brk]) for r in self.regions[1]},"),
    # benign
    dict(name="benign: explicit loop instead of next()", module="gene", kind="benign",
         old="            cn_config = next(\n                cn for cn, conf in self.cn_configs.items() if a in conf.alleles\n            )",
         new="            cn_config = [cn for cn, conf in self.cn_configs.items() if a in conf.alleles][0]"),
    dict(name="benign: set difference via comprehension", module="gene", kind="benign",
         old="                        set(alleles[sa].neutral_muts) - set(key[1]),", new="                        {m_ for m_ in alleles[sa].neutral_muts if m_ not in key[1]},"),
]
