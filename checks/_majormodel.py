"""
The major-allele model builder (major.solve_major_model) folded whole against the recording library (sa.lpmodel), and an
independent reference of the documented model at the level of the statement: combinations of candidate alleles.

With a very large optimality gap the routine reports every admissible combination with its score, so the whole model is
observable through the routine's own read-out -- no variable of the model has to be identified by name.
"""

import collections
import itertools
from fractions import Fraction

from sa.fold import Lifted, Obj, Raised, Rec, Unfoldable  # noqa: F401
from sa.lpmodel import new_model, wrapper_model


class Mut(collections.namedtuple("Mutation", ["pos", "op"])):
    def __str__(self):
        return f"{self.pos + 1}.{self.op}"


def rdd():
    return collections.defaultdict(rdd)


class Instance:
    """alleles: {name: (configuration, [core variants])}; structure: {configuration: copies}; reads: {variant or (pos,'_'): reads};
    single: {pos: single-copy depth} (default 10); no_cov: {(allele, pos)}: positions an allele has no copy of (fusions)."""

    def __init__(self, alleles, structure, reads, single=None, no_cov=(), major_novel=21.0, present=None, gaps=(0.0, 0.1, 0.5)):
        self.alleles, self.structure, self.reads, self.gaps = alleles, structure, reads, tuple(gaps)
        self.single, self.no_cov, self.major_novel = dict(single or {}), set(no_cov), major_novel
        self.catalogue = sorted({m for _, ms in alleles.values() for m in ms} | set(present or ()))

    def depth(self, m):
        """Single-copy depth: for a variant that has its own (indel-aware) depth that one, else the depth of its position."""
        if not isinstance(m, int):
            if m in self.single:
                return self.single[m]
            m = m[0]
        return self.single.get(m, 10.0)

    def present(self):
        return [m for m in self.catalogue if self.reads.get(m, 0) > 0]

    def describe(self):
        return (f"candidates {{{', '.join(f'{k}:{c}:{[str(m) for m in ms]}' for k, (c, ms) in self.alleles.items())}}}, structure {dict(self.structure)}, "
                f"reads {{{', '.join(f'{k}: {v}' for k, v in self.reads.items())}}}")


def fold_solve_major(repo, inst: Instance, gap, wrapper=None, every=False):
    """-> ('return', [(score, Counter(allele names), sorted novel variants)]) | ('raise', text).
    every=True: the wrapper instance is given a `solutions` that walks all feasible points of the recorded model (best first), so
    the routine's own read-out lists every combination the model admits, independent of the gap and of the enumerator's cuts."""
    f = repo.func("major::solve_major_model")
    wrapper = wrapper or wrapper_model(repo)
    libs = []

    def mk(name, solver):
        m, lib = new_model(wrapper, name)
        libs.append(lib)
        if every:
            def every_point(*a, **k):
                for obj, val in lib.enumerate():
                    for v in lib.vars:
                        v.value = val.get(v, 0.0)
                    lib.best = obj
                    yield ("optimal", obj, tuple(sorted(v.name() for v in lib.integer_vars() if v.vtype == "B" and val.get(v) == 1)))
            m.__dict__["solutions"] = every_point
        return m

    allele_dict = {k: Obj(cn_config=c, func_muts=set(ms), minors={}, name=k) for k, (c, ms) in inst.alleles.items()}

    class Cov:
        _fold_ok = True
        profile = Obj(major_novel=inst.major_novel, gap=gap, cn_max=20)

        def __getitem__(self, m):
            return inst.reads.get(Mut(*m), 0)

        def single_copy(self, m, cn_solution):
            return inst.depth(m if isinstance(m, int) else Mut(*m))

    gene = Obj(name="G", alleles=allele_dict, mutations={tuple(m): ("fn", "rs", 0, 0, "") for m in inst.catalogue},
               is_functional=lambda m, infer=True: True, has_coverage=lambda a, pos: (a, pos) not in inst.no_cov)
    cfg_no = {(inst.alleles[a][0], pos) for a, pos in inst.no_cov}

    def position_cn(pos):
        """Gene copies of the structure at a position; none where the instance gives the position no single-copy depth."""
        if inst.depth(pos) == 0:
            return 0
        return sum(cnt for cfg_, cnt in inst.structure.items() if (cfg_, pos) not in cfg_no)

    structure = Obj(solution=collections.Counter(inst.structure), _solution_nice=lambda: "S", position_cn=position_cn,
                    max_cn=lambda: sum(inst.structure.values()))
    fn = Lifted(f, funcs={"lpinterface.model": mk, "Mutation": Mut, "_print_candidates": lambda *a: None,
                          "SolvedAllele": lambda g, major=None, **k: Rec(major=major),
                          "MajorSolution": lambda score=None, solution=None, cn_solution=None, added=None: Obj(
                              score=score, solution=solution, cn_solution=cn_solution, added=added, _solution_nice=lambda: "x"),
                          "sorted_tuple": lambda it: tuple(sorted(it)), "collections.Counter": collections.Counter},
                env={"json": rdd()})
    try:
        out = fn(gene, Cov(), structure, allele_dict, "any", 0, None)
    except Raised as r:
        return "raise", str(r)
    rows = []
    for o in out:
        names = collections.Counter()
        for sa_, k in o.solution.items():
            names[sa_.major] += k
        rows.append((o.score, names, tuple(sorted(Mut(*m) for m in o.added)), o.cn_solution is structure))
    return "return", rows


# -- the statement, read independently ----------------------------------------------------------------------------------
def reference(inst: Instance):
    """{(allele multiset as sorted tuple, novel variants as sorted tuple): (fit error, satisfies the one-novel-per-site rule)}
    for every admissible combination: each configuration gets exactly as many alleles as the structure has copies of it;
    every observed core variant is carried by a called allele or flagged novel, never both, never neither."""
    per_cfg = []
    for cfg, cnt in inst.structure.items():
        cands = sorted(a for a, (c, _) in inst.alleles.items() if c == cfg)
        per_cfg.append(list(itertools.combinations_with_replacement(cands, cnt)))
    present = inst.present()
    sites = sorted({m.pos for m in present})
    out = {}
    for choice in itertools.product(*per_cfg):
        called = sorted(a for part in choice for a in part)
        carried = collections.Counter(m for a in called for m in inst.alleles[a][1])
        novel = tuple(sorted(m for m in present if carried[m] == 0))
        err = Fraction(0)     # exact arithmetic: ties of the documented objective are ties, whatever the floating-point sums say
        for m in present:
            d = Fraction(inst.depth(m)) if inst.depth(m.pos) else Fraction(0)
            obs = (Fraction(inst.reads.get(m, 0)) / d) if d else Fraction(0)
            err += abs(obs - (carried[m] + (1 if m in novel else 0)))
        for p in sites:
            d = Fraction(inst.depth(Mut(p, "_"))) if inst.depth(p) else Fraction(0)
            obs = (Fraction(inst.reads.get(Mut(p, "_"), 0)) / d) if d else Fraction(0)
            ref_copies = sum(1 for a in called if (a, p) not in inst.no_cov
                             and not any(m.pos == p and not m.op.startswith("ins") for m in inst.alleles[a][1]))
            err += abs(obs - ref_copies)
        exact = err + (Fraction(str(inst.major_novel)) if novel else 0) + Fraction(1, 10) * len(novel)
        one_per_site = all(sum(1 for m in novel if m.pos == p and not m.op.startswith("ins")) <= 1 for p in sites)
        out[tuple(called), novel] = (float(exact), one_per_site, exact)
    return out
