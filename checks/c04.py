"""
C04 -- minor-allele refinement preserves the major call and is optimal.

Decided by whole-function folding against the recording MILP library (sa.lpmodel): minor.solve_minor_model and the solver
wrapper class of /repo are executed by the analysis' interpreter on sample instances small enough to enumerate.
(R11) every assignment the built model admits -- observed through the routine's *own* read-out, by giving the wrapper instance
      a `solutions` that walks all feasible points of the recorded model -- satisfies the statement's clauses, equals the
      set an independent reading of the documented rules admits (optional strengthening rules are don't-care), and scores
      fit error + penalties (+ read-group disagreement) to 2e-3;
(R12) the report through the real `solutions()` loop for max_solutions 1 and 3 is optimal, clause-conform and scored with
      the objective;
(R13) estimate_minor pools candidates and considered variants over all major solutions (folded whole).
The template rules R1-R10 of the first build (per-constraint normal forms keyed by local names) were retired for R11/R12.
Not decided: optimality of CBC's answer on real models; instances beyond the enumerable size.
"""

import ast
import collections
import itertools

from sa.fold import Evaluator, Obj, Raised, Unfoldable, single_defs
from sa.ilp import Model
from sa.lineval import LinEval, bindings, fold_defs, reach_hook, scatter_value, site_values
from sa.loader import AnalysisError, call_name, calls_in, kwarg, walk_local

PROPERTY = "C04"
EXPLANATION = (
    "Model extraction by whole-function folding: solve_minor_model + lpinterface.CBC/Gurobi of /repo run in the analysis' interpreter against a "
    "recording library stand-in (exhaustive depth-first enumeration of the binaries with interval pruning; continuous part in closed form or by the "
    "analysis' own simplex). 7 quick / 17 thorough instances: two majors, two and three copies of one major, an uncalled candidate, unsupported "
    "variants, stray reads where the structure has no copy, a fused allele without copies at a site, an insertion sharing a site, a novel core "
    "variant, read groups (phase), non-default penalties, seeded random read tables. Every admitted assignment (50-300 per instance) is compared "
    "with an independent enumeration and checked against the statement's clauses; reports for max_solutions 1 and 3."
)
ASSUMPTIONS = ["carriers <= reads, the reference-side slack rule and the per-site rules beyond one-variant-per-allele-and-position are optional strengthenings (don't-care)",
               "the read-out convention that copies an exactly homozygous variant to every allele is kept out of the instances"]


def minor_instances():
    """Sample instances of the minor stage (kept small: every assignment is enumerated)."""
    import random

    from checks._minormodel import Instance, Mut as MM
    from sa.report import seed as _seed, thorough

    rnd = random.Random(_seed() + 50)
    G1, T1, T2, T3, IN, NV = MM(100, "A>G"), MM(200, "C>T"), MM(300, "G>A"), MM(400, "T>C"), MM(200, "insA"), MM(500, "C>G")
    cat = {"1": ([], {"1.001": [], "1.002": [T1]}), "3": ([G1], {"3.001": [T2], "3.002": [T2, T3]})}
    ref = lambda *ps: {MM(p, "_"): n for p, n in ps}  # noqa
    merged = lambda a, b: {**a, **b}  # noqa
    small = {"1": ([], {"1.001": []}), "3": ([G1], {"3.001": [T2]})}
    out = [
        ("two majors, one copy each", Instance(cat, {"1": 1, "3": 1}, merged({G1: 10, T1: 9, T2: 11, T3: 1}, ref((100, 10), (200, 11), (300, 9), (400, 19))))),
        ("two copies of one major beside an uncalled candidate", Instance(cat, {"3": 2}, merged({G1: 19, T1: 0, T2: 12, T3: 8}, ref((100, 1), (200, 21), (300, 9), (400, 13))))),
        ("two copies of one major, unsupported variants, stray reads where the structure has no copy",
         Instance(cat, {"1": 2}, merged({T1: 9, T2: 5, G1: 0, T3: 0}, ref((100, 20), (200, 11), (300, 2), (400, 20))), copies_at={300: 0})),
        ("a fused allele without copies at one site", Instance(cat, {"1": 1, "3": 1}, merged({G1: 10, T1: 9, T2: 11, T3: 5}, ref((100, 10), (200, 11), (300, 9), (400, 6))),
                                                               no_cov={("3", 400)}, copies_at={400: 1})),
        ("an insertion and a substitution sharing a site", Instance({"1": ([], {"1.001": [], "1.002": [T1]})}, {"1": 2}, merged({T1: 8, IN: 7}, ref((200, 13))), considered=[IN])),
        ("an insertion in an allele's definition (it does not take the reference base away)",
         Instance({"1": ([], {"1.001": [], "1.003": [IN]})}, {"1": 2}, merged({IN: 6}, ref((200, 19))))),
        ("a novel core variant on both copies (its surcharge is charged once)",
         Instance({"1": ([], {"1.001": []})}, {"1": 2}, merged({NV: 19}, ref((500, 1))), considered=[NV], functional=[NV])),
        ("read groups that tie variants together",
         Instance(small, {"1": 1, "3": 1}, merged({G1: 10, T2: 11, T1: 6}, ref((100, 10), (200, 14), (300, 9))), considered=[T1],
                  phases={"r1": {100: "A>G", 300: "G>A"}, "r2": {100: "A>G", 300: "G>A"}, "r3": {100: "_", 200: "C>T"}, "r4": {300: "G>A"}, "r5": {100: "_", 300: "_"}})),
        ("read groups present but phasing switched off in the profile",
         Instance(small, {"3": 1}, merged({G1: 10, T2: 11}, ref((100, 3), (300, 2))), phases={"r1": {100: "_", 300: "_"}, "r2": {100: "_", 300: "_"}}, phase_on=False)),
        ("a read group over a site one candidate has no copy of (it has a single selector there and cannot explain the group)",
         Instance(small, {"1": 1, "3": 1}, merged({G1: 10, T2: 11}, ref((100, 10), (300, 9))), no_cov={("1", 300)}, copies_at={300: 1},
                  phases={"r1": {100: "A>G", 300: "G>A"}, "r2": {100: "_", 300: "G>A"}})),
        ("read groups showing the reference where the only called copy carries variants (an uncalled candidate would explain them)",
         Instance(small, {"3": 1}, merged({G1: 10, T2: 11}, ref((100, 3), (300, 2))),
                  phases={"r1": {100: "_", 300: "_"}, "r2": {100: "_", 300: "_"}, "r3": {100: "A>G", 300: "G>A"}})),
    ]
    if thorough():
        out += [
            ("an insertion sharing a site and a novel functional variant",
             Instance(cat, {"1": 1, "3": 1}, merged({G1: 10, T1: 9, T2: 11, T3: 1, IN: 4, NV: 6}, ref((100, 10), (200, 11), (300, 9), (400, 19), (500, 12))),
                      considered=[IN, NV], functional=[NV])),
            ("read groups that tie variants together",
             Instance(cat, {"1": 1, "3": 1}, merged({G1: 10, T1: 9, T2: 11, T3: 1}, ref((100, 10), (200, 11), (300, 9), (400, 19))),
                      phases={"r1": {100: "A>G", 300: "G>A"}, "r2": {100: "A>G", 300: "G>A"}, "r3": {100: "_", 200: "C>T"}, "r4": {300: "G>A"}})),
            ("three copies, non-default penalties",
             Instance({"1": ([], {"1.001": [], "1.002": [T1]})}, {"1": 3}, merged({T1: 13, T2: 4}, ref((200, 17), (300, 27))), considered=[T2], miss=0.7, add=2.0)),
        ]
        for i in range(4):
            reads = {G1: rnd.randint(3, 14), T1: rnd.randint(0, 14), T2: rnd.randint(1, 14), T3: rnd.randint(0, 9)}
            reads.update(ref((100, rnd.randint(3, 19)), (200, rnd.randint(3, 19)), (300, rnd.randint(3, 19)), (400, rnd.randint(3, 23))))
            called = rnd.choice([{"1": 1, "3": 1}, {"3": 2}, {"1": 2}, {"1": 2, "3": 1}])
            tot = sum(called.values())
            for m_ in (G1, T1, T2, T3):   # keep away from the exactly-homozygous ratio (a read-out convention outside the statement)
                sc = max(1, reads[m_] + reads[MM(m_.pos, "_")]) / tot
                if abs(reads[m_] / sc - tot) < 1e-3:
                    reads[MM(m_.pos, "_")] += 1
            out.append((f"random {i}", Instance(cat, called, reads, miss=rnd.choice([1.5, 0.7]), add=rnd.choice([1.0, 0.4]))))
    return out


def clause_violations(inst, key):
    """The statement's clauses on one reported / admitted assignment (key = sorted (major, minor, added, lost) per copy)."""
    out = []
    majors = collections.Counter(c_[0] for c_ in key)
    if dict(majors) != dict(inst.called):
        out.append(f"names alleles of majors {dict(majors)} for the major call {dict(inst.called)}")
    carried_by = collections.Counter()
    for major, minor, added, lost in key:
        if major not in inst.catalogue or minor not in inst.catalogue[major][1]:
            out.append(f"{minor} is not a catalogued minor allele of major {major}")
            continue
        core, minors = inst.catalogue[major]
        definition = set(core) | set(minors[minor])
        if set(lost) & {m for m in definition if m in inst.functional}:
            out.append(f"{minor} drops a core variant of its allele")
        for m in added:
            if (major, m.pos) in inst.no_cov:
                out.append(f"{m} is added to {minor}, which has no gene copy at that position")
        carried = (definition - set(lost)) | set(added)
        for m in carried:
            carried_by[m] += 1
            if inst.reads.get(m, 0) <= 0:
                out.append(f"{minor} is reported to carry {m}, which no filtered read supports")
        per_pos = collections.Counter(m.pos for m in carried)
        if any(n_ > 1 for n_ in per_pos.values()):
            out.append(f"{minor} carries two variants at one position")
    for m in inst.mutations:
        if inst.reads.get(m, 0) > 0 and inst.position_cn(m.pos) > 0 and carried_by[m] == 0:
            out.append(f"{m} has supporting reads but no allele carries it")
    return out


def r11(repo, res):
    """solve_minor_model folded whole against the recording library. (R11) every assignment the built model admits (translated by
    the routine's own read-out) vs the independent reading of the documented rules: same assignments, same objective; every
    admitted assignment satisfies the statement's clauses. (R12) the report for max_solutions 1 and 3: optimal, distinct,
    clause-conform, scored with the objective."""
    from checks._minormodel import fold_solve_minor, reference
    from sa.lpmodel import wrapper_model

    f = repo.func("minor::solve_minor_model")
    res.analysed(f)
    wrapper = wrapper_model(repo)
    bad = {}
    n = total = 0
    for label, inst in minor_instances():
        tag = f"{label}: {inst.describe()}"
        try:
            kind, out = fold_solve_minor(repo, inst, "all", 10 ** 6, wrapper)
        except Unfoldable as e:
            res.err("C04.R11", f"solve_minor_model outside the folding language: {e}")
            continue   # no verdict on this instance; what the others show is still reported
        if kind == "raise":
            bad.setdefault("runs", f"{tag}: raises {out}")
            continue
        n += 1
        ref_full = reference(inst)
        ref = {k_: sc for k_, (sc, strict) in ref_full.items()}                 # admissible by the statement-level rules
        must = {k_ for k_, (sc, strict) in ref_full.items() if strict}           # ... and by the optional strengthening rules too
        total += len(ref)
        got = {}
        for o in out:
            k_ = o.key()
            got[k_] = min(o.score, got.get(k_, 1e18))
            if o.major_solution is None or getattr(o.major_solution, "label", None) != "M":
                bad.setdefault("chain", f"{tag}: a refined solution does not carry the major solution it refines")
        for k_ in got:
            cv = clause_violations(inst, k_)
            if cv:
                bad.setdefault("clauses", f"{tag}: the model admits {k_}: {cv[0]}")
        only_code = sorted(set(got) - set(ref), key=str)
        only_ref = sorted(must - set(got), key=str)
        if only_code and "clauses" not in bad:
            bad.setdefault("admitted", f"{tag}: the model admits {only_code[0]}, which the documented rules exclude")
        if only_ref:
            bad.setdefault("complete", f"{tag}: the documented rules admit {only_ref[0]} (objective {ref[only_ref[0]]:.4f}); the model cannot express it")
        diff = [(k_, got[k_], ref[k_]) for k_ in got if k_ in ref and abs(got[k_] - ref[k_]) > 2e-3]
        if diff:
            k_, a_, b_ = diff[0]
            bad.setdefault("objective", f"{tag}: assignment {k_} scores {a_:.5f} in the model; fit error + penalties = {b_:.5f}")
        expressible = {k_: sc for k_, sc in ref.items() if k_ in got}
        best = min(expressible.values()) if expressible else None
        for mx in (1, 3):
            try:
                kind, rep = fold_solve_minor(repo, inst, "report", mx, wrapper)
            except Unfoldable as e:
                res.err("C04.R12", f"solve_minor_model outside the folding language: {e}")
                continue   # no verdict on this instance; what the others show is still reported
            if kind == "raise":
                bad.setdefault("report", f"{tag}, at most {mx} solution(s): raises {rep}")
                continue
            keys = [o.key() for o in rep]
            if best is None:
                if rep:
                    bad.setdefault("report", f"{tag}: reports {keys} although nothing is admissible")
                continue
            optimal = {k_ for k_, sc in expressible.items() if sc <= best + 2e-3}
            if not rep or len(rep) > mx:   # (the same assignment may come back with its copies in another order: the statement does not exclude it)
                bad.setdefault("report", f"{tag}, at most {mx} solution(s): reports {len(rep)}")
            for o in rep:
                if o.key() not in optimal:
                    bad.setdefault("report", f"{tag}, at most {mx}: reports {o.key()} (score {o.score:.4f}); the best admissible assignments score {best:.4f}: {sorted(optimal, key=str)[:2]}")
                elif abs(o.score - ref[o.key()]) > 2e-3:
                    bad.setdefault("report", f"{tag}: {o.key()} reported with score {o.score:.5f}, objective {ref[o.key()]:.5f}")
                cv = clause_violations(inst, o.key())
                if cv:
                    bad.setdefault("report-clauses", f"{tag}: reported {o.key()}: {cv[0]}")
            if mx >= len(optimal) and len(optimal) <= 3 and len({k_ for k_ in keys}) != len(optimal):
                # the enumerator's superset cut may hide co-optimal assignments whose active binaries contain another's; tolerated
                pass
    res.count("C04.R11:instances folded", n)
    res.count("C04.R11:assignments compared", total)
    clauses = {
        "runs": ("C04.R11", "the model is built and solved on every sample instance", ""),
        "clauses": ("C04.R11", "every assignment the model admits: one catalogued minor allele of the same major per called copy; core variants kept; additions only where the "
                               "allele has copies; every carried variant has reads; one variant per position and allele; every supported variant carried by some allele",
                    "exactly one catalogued minor allele of that same major allele; core variants ... never dropped; ... no allele carries two variants at one position ..."),
        "admitted": ("C04.R11", "the model admits no assignment beyond the documented rules", ""),
        "complete": ("C04.R11", "every assignment the documented rules admit can be expressed", "no admissible assignment scores lower"),
        "objective": ("C04.R11", "objective = fit error over variants and reference alleles + minor_miss x dropped + minor_add x added + minor_add/2 x novel core variants + "
                                 "minor_phase x read-group disagreement (tie-break terms below 2e-3 ignored)",
                      "the reported score equals the model objective (fit error + penalties for dropped, added and novel core variants + read-phase disagreement)"),
        "chain": ("C04.R11", "a refined solution carries the major solution it refines", ""),
        "report": ("C04.R12", "what is reported is optimal among the admissible assignments, at most max_solutions, scored with the objective", "no admissible assignment scores lower"),
        "report-clauses": ("C04.R12", "every reported assignment satisfies the statement's clauses", "for every called major-allele copy, exactly one catalogued minor allele ..."),
    }
    for key_, (rule, exp, clause) in clauses.items():
        res.ob(rule, f, f, key_ not in bad, expected=exp, found=f"{n} instances, {total} admissible assignments agree" if key_ not in bad else bad[key_],
               clause=clause, key=f"model:{key_}")


def r13(repo, res):
    """estimate_minor folded whole: candidate minor alleles and considered variants are pooled over all major solutions."""
    from sa.fold import ClassModel, Lifted

    em = repo.func("minor::estimate_minor")
    res.analysed(em)
    Mut = collections.namedtuple("Mutation", ["pos", "op"])
    F1, S1, S2, NC, X0 = Mut(100, "A>G"), Mut(200, "C>T"), Mut(300, "G>A"), Mut(500, "C>G"), Mut(600, "T>C")
    gene = Obj(alleles={"1": Obj(func_muts=set(), minors={"1.001": Obj(neutral_muts=set()), "1.002": Obj(neutral_muts={S1})}),
                        "3": Obj(func_muts={F1}, minors={"3.001": Obj(neutral_muts={S2})}),
                        "9": Obj(func_muts={Mut(700, "A>C")}, minors={"9.001": Obj(neutral_muts=set())})},
               random_mutations={X0}, region_at=lambda p: None)
    cns = [Obj(label=f"C{i}", _solution_nice=(lambda i=i: f"C{i}"), position_cn=lambda p: 2, max_cn=lambda: 2) for i in (1, 2)]
    majors = [Obj(label="Ma", score=0.0, solution={Obj(major="1"): 2}, added=[NC], cn_solution=cns[0]),
              Obj(label="Mb", score=0.5, solution={Obj(major="3"): 1, Obj(major="1"): 1}, added=[], cn_solution=cns[1])]
    seen = []

    def solve(g, cov, major_sol, alleles, mutations, solver, max_solutions=1, **kw):
        seen.append((major_sol.label, sorted((a[1], a[2]) for a in alleles), set(mutations)))
        return []

    OTHER = Mut(800, "A>T")   # a variant nobody considers, outside every annotated region
    eager = []

    def filt(fn_):
        # the real `filtered` applies the filter at once: what it keeps is decided by the state at THIS moment
        if callable(fn_):
            passing = Obj(basic_filter=lambda m_, cn=None, thres=None: True)
            eager.append({m_ for m_ in (F1, S1, S2, NC, X0, OTHER) if fn_(passing, m_)})
        return Obj(filtered=filt, _coverage={})

    try:
        Lifted(em, funcs={"SolvedAllele": lambda *a: a, "functools.partial": lambda f_, *a: (lambda *b: f_(*a, *b)), "natsorted": lambda it, key=None: sorted(it, key=key),
                          "_print_candidates": lambda *a: None, "solve_minor_model": solve, "Mutation": Mut},
               env={"Coverage": Obj(quality_filter="QUALITY")})(gene, ClassModel(repo.cls("coverage::Coverage"), env={"Coverage": Obj(quality_filter="QUALITY")}).instance(
                   filtered=filt, profile=Obj(cn_max=20, threshold=0.5, min_coverage=2.0, min_quality=10, min_mapq=10), _coverage={}, _indels=None), majors, "any")
    except (Unfoldable, Raised) as e:
        res.err("C04.R13", f"estimate_minor outside the folding language: {e}")
        return
    want_alleles = sorted([("1", "1.001"), ("1", "1.002"), ("3", "3.001")])
    ok = len(seen) == 2 and all(sorted(set(al)) == want_alleles and muts >= {F1, S1, S2, NC, X0} and Mut(700, "A>C") not in muts for _, al, muts in seen)
    res.ob("C04.R13", em, em, ok,
           expected="every refinement sees the minor alleles of every major allele called in any candidate, and the union of their core and minor-only variants, "
                    "the candidates' novel variants and the common variants (nothing of uncalled alleles)",
           found="ok" if ok else str([(l, sorted(set(al)), sorted(map(str, m_))) for l, al, m_ in seen]),
           clause="every considered variant that has supporting reads is carried by at least one allele (the considered set)", key="pooling")
    oke = bool(eager) and all(k_ == {F1, S1, S2, NC, X0} for k_ in eager)
    res.ob("C04.R13", em, em, oke,
           expected="when the evidence is filtered (at once, per structure), every considered variant that passes the thresholds is kept -- core, minor-only, "
                    "novel and common variants alike, wherever they lie -- and an unconsidered variant outside the annotated regions is not",
           found="ok" if oke else str([sorted(map(str, k_)) for k_ in eager]),
           clause="every considered variant that has supporting reads is carried by at least one allele", key="considered-at-filter-time")


def run(repo, res):
    r11(repo, res)
    r13(repo, res)


MUTANTS = [
    dict(name="R13 common variants join the considered set after the evidence was filtered (seeded X6_3 shape)", module="minor", expect="C04.R13",
         edits=[("    mutations |= gene.random_mutations\n", ""),
                ("    if novel:\n        for cov in covs.values():", "    mutations |= gene.random_mutations\n    if novel:\n        for cov in covs.values():")]),
    # equivalent: a continuous result in [0, inf) between `<= each binary factor` and `>= sum - (n - 1)` still equals the product
    dict(name="benign: product result declared as a continuous variable", module="minor", kind="benign",
         old='                    vtype="B",\n                    name=f"MUL_K_', new='                    name=f"MUL_K_'),
    dict(name="R1 count side dropped", module="minor", expect=["C04.R11", "C04.R12"],
         old='        model.addConstr(expr >= cnt, name=f"CCNT_{sa.major}_2")\n', new=""),
    dict(name="R1 tie ignores added variants of the major", module="minor", expect=["C04.R11", "C04.R12"],
         old="            if (vs.major, vs.added, vs.missing) == (sa.major, sa.added, sa.missing)", new="            if vs.major != sa.major or True"),
    dict(name="R1 other candidates not disabled", module="minor", expect=["C04.R11", "C04.R12"],
         old='''    model.addConstr(
        model.quicksum(VA.values()) <= sum(major_sol.solution.values()),
        name="CCNT_OTHER",
    )
''', new=""),
    dict(name="R1 copy supply short", module="minor", expect=["C04.R11", "C04.R12"],
         old="        for cnt in range(1, max_cn):\n            alleles[a, cnt] = alleles[a, 0]", new="        for cnt in range(2, max_cn):\n            alleles[a, cnt] = alleles[a, 0]"),
    dict(name="R2 product wired to the wrong selector", module="minor", expect=["C04.R11", "C04.R12"],
         old="constraints[m] += model.prod(VNEW[a][m][1], [VA[a], VNEW[a][m][0]])", new="constraints[m] += model.prod(VNEW[a][m][1], [VA[a], VNEW[a][m][1]])"),
    dict(name="benign: keep product without the allele selector (keep-selector <= allele selector makes it the same product)", module="minor", kind="benign",
         old="constraints[m] += model.prod(VKEEP[a][m][1], [VA[a], VKEEP[a][m][0]])", new="constraints[m] += model.prod(VKEEP[a][m][1], [VKEEP[a][m][0]])"),
    dict(name="R3 reference equation loses the kept-variant term", module="minor", expect=["C04.R11", "C04.R12"],
         old="                constraints[ref_m] += VA[a] - VKEEP[a][present_muts[0]][1]", new="                constraints[ref_m] += VA[a]"),
    dict(name="R3 added insertions consume reference (seeded C04_2 shape)", module="minor", expect=["C04.R11", "C04.R12"],
         old='                muts = [m for m in VNEW[a] if m.pos == pos and m[1][:3] != "ins"]', new="                muts = [m for m in VNEW[a] if m.pos == pos]"),
    dict(name="R3 coverage side dropped", module="minor", expect=["C04.R11", "C04.R12"],
         old='        model.addConstr(expr + VERR[m] <= cov, name=f"CCOV_{m.pos}_{m.op}")\n', new=""),
    dict(name="R3 reference equation ignores has_coverage", module="minor", expect=["C04.R11", "C04.R12"],
         old="            if not gene.has_coverage(a[0].major, pos):\n                continue\n            # Does this allele", new="            # Does this allele"),
    dict(name="R4 rule 2 deleted", module="minor", expect=["C04.R11", "C04.R12"],
         old='''                model.addConstr(
                    VKEEP[a][m][0] >= VA[a],
                    name=f"CFUNC_{m.pos}_{m.op}_{a[0].major}_{a[0].minor}_{a[1]}",
                )''', new="                pass"),
    dict(name="R4 only first copy (seeded C04_1 shape)", module="minor", expect=["C04.R11", "C04.R12"],
         old="    for a in alleles:\n        for m in alleles[a]:\n            if gene.is_functional(m):",
         new="    for sa_ in alleles_list:\n        a = (sa_, 0)\n        for m in alleles[a]:\n            if gene.is_functional(m):"),
    dict(name="R5 additions where the allele has no copies", module="minor", expect=["C04.R11", "C04.R12"],
         old="            if gene.has_coverage(a[0].major, m.pos) and m not in alleles[a]\n", new="            if m not in alleles[a]\n"),
    dict(name="R5 rule 5 (no coverage) deleted", module="minor", expect=["C04.R11", "C04.R12"],
         old='            model.addConstr(expr <= 0, name=f"CNOCOV_{m.pos}_{m.op}")\n        else:\n            model.addConstr(expr <= coverage[m]',
         new='            pass\n        else:\n            model.addConstr(expr <= coverage[m]'),
    dict(name="R5 no-coverage test ignores the structure", module="minor", expect=["C04.R11", "C04.R12"],
         old="        if major_sol.cn_solution.position_cn(m.pos) == 0 or coverage[m] == 0:\n            model.addConstr(expr <= 0",
         new="        if coverage[m] == 0:\n            model.addConstr(expr <= 0"),
    dict(name="R6 rule 4 deleted", module="minor", expect=["C04.R11", "C04.R12"],
         old='''                model.addConstr(
                    model.quicksum(mp + ma) <= 1,
                    name=f"CSINGLEFULL_{pos}_{a[0].major}_{a[0].minor}_{a[1]}",
                )''', new="                pass"),
    dict(name="R6 one per site only among additions", module="minor", expect=["C04.R11", "C04.R12"],
         old="                    model.quicksum(mp + ma) <= 1,", new="                    model.quicksum(ma + ma[:0]) <= 1,"),
    dict(name="R7 CMINONE dropped", module="minor", expect=["C04.R11", "C04.R12"],
         old='            model.addConstr(expr >= 1, name=f"CMINONE_{m.pos}_{m.op}")\n', new=""),
    dict(name="R8 miss penalty dropped", module="minor", expect=["C04.R11", "C04.R12"],
         old="    o_penal -= coverage.profile.minor_miss * model.quicksum(\n        v[1] for a in VKEEP for _, v in VKEEP[a].items()\n    )\n", new=""),
    dict(name="R8 add penalty dropped", module="minor", expect=["C04.R11", "C04.R12"],
         old="            o_penal += coverage.profile.minor_add * (1 + cnt / 1000000) * v[0]\n", new="            pass\n"),
    dict(name="R8 novel-core penalty dropped", module="minor", expect=["C04.R11", "C04.R12"],
         old="            o_penal += coverage.profile.minor_add / 2 * vo\n", new="            pass\n"),
    dict(name="R8 phase term dropped", module="minor", expect=["C04.R11", "C04.R12"],
         old="    objective += o_phase\n", new=""),
    dict(name="R9 missing read from the set selectors", module="minor", expect=["C04.R11", "C04.R12"],
         old="                    if not model.getValue(mv[0]):\n                        missing.append(m)", new="                    if model.getValue(mv[0]):\n                        missing.append(m)"),
    dict(name="R9 added variants not reported", module="minor", expect=["C04.R11", "C04.R12"],
         old="                        allele[0].added + added,", new="                        allele[0].added,"),
    dict(name="R9 score not the objective", module="minor", expect=["C04.R11", "C04.R12"],
         old="                score=opt,\n                solution=solution,\n                major_solution=major_sol,", new="                score=0,\n                solution=solution,\n                major_solution=major_sol,"),
    dict(name="R10 phase selector not tied to the allele (seeded C04_3 shape)", module="minor", expect=["C04.R11", "C04.R12"],
         old='                        model.addConstr(VPHASE[ai, ri] <= VA[a], name=f"PH_{ai}_{ri}")\n', new=""),
    dict(name="R10 read group may be left unexplained", module="minor", expect=["C04.R11", "C04.R12"],
         old='                    model.addConstr(e >= 1, name=f"PHASE4_{ri}_2")\n', new=""),
    dict(name="R6 per-site rule only when two additions compete (seeded C04_b1 shape)", module="minor", expect=["C04.R11", "C04.R12"],
         old="            if len(ma) + len(mp) > 1:\n", new="            if len(ma) > 1:\n"),
    # benign
    dict(name="benign: CORD dropped", module="minor", kind="benign",
         old='            model.addConstr(VA[a, cnt] <= VA[a, cnt - 1], name=f"CORD_{a.minor}_{cnt}")', new="            pass"),
    dict(name="benign: CVK dropped", module="minor", kind="benign",
         old='''            model.addConstr(
                v[0] <= VA[a],
                name=f"CVK_{m.pos}_{m.op}_{a[0].major}_{a[0].minor}_{a[1]}",
            )''', new="            pass"),
    dict(name="benign: CMAXCOV dropped", module="minor", kind="benign",
         old='            model.addConstr(expr <= coverage[m], name=f"CMAXCOV_{m.pos}_{m.op}")\n', new=""),
    dict(name="benign: CSINGLE dropped", module="minor", kind="benign",
         old='''                model.addConstr(
                    model.quicksum(ma) <= 1,
                    name=f"CSINGLE_{pos}_{a[0].major}_{a[0].minor}_{a[1]}",
                )''', new="                pass"),
    dict(name="benign: count tie as ==", module="minor", kind="benign",
         old='        model.addConstr(expr <= cnt, name=f"CCNT_{sa.major}_1")\n        model.addConstr(expr >= cnt, name=f"CCNT_{sa.major}_2")',
         new='        model.addConstr(expr == cnt, name=f"CCNT_{sa.major}")'),
]
