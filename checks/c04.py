"""
C04 -- minor-allele refinement preserves the major call and is optimal.

Decided: the refinement model contains every necessary constraint family: (R1) selectors tied to
the major call, (R2) keep/add products wired to their own selector pair, (R3) coverage equations
for variants and reference sites, (R4) core variants kept, (R5) no variant where the allele has no
copies / no reads, (R6) one variant per site, (R7) supported variants carried, (R8) objective, (R9)
read-out.  Extracted templates are evaluated on a sample instance and compared with the documented
expression.  CORD / CONE / CSINGLE / CVK / CVN / CMAXCOV / CZERO are not required.
Not decided: optimality of CBC's answer, the phase term's numerical effect.
"""

import ast
import collections
import itertools

from sa.fold import Evaluator, Obj, Raised, Unfoldable, single_defs
from sa.ilp import Model
from sa.lineval import LinEval, bindings, fold_defs, reach_hook, scatter_value, site_values
from sa.loader import AnalysisError, call_name, calls_in, kwarg, walk_local

PROPERTY = "C04"
EXPLANATION = (
    "Constraint-template conformance for minor::solve_minor_model on a sample instance (three candidate minor alleles of "
    "two majors, one allele with two copies, a variant the allele has no copies for, a site with a kept and an addable "
    "variant, an insertion, an unsupported variant): every required family is found by its variables, its normal form "
    "is evaluated for all bindings of its loops and compared with the documented relation (truth tables over the "
    "involved binaries for implication-type rules, numeric residuals for equations); the scatter table of the coverage "
    "equations is evaluated per key; products are checked structurally (result and selector are the two members of the "
    "same pair); objective and read-out loop are lifted and folded."
)
ASSUMPTIONS = ["the phase model is switched off in the sample instance; only the presence and sign of its objective term is checked"]


class Mut(collections.namedtuple("Mutation", ["pos", "op"])):
    def __str__(self):
        return f"{self.pos + 1}.{self.op}"


class SA:
    """Hashable stand-in for SolvedAllele."""

    def __init__(self, gene, major, minor="", added=(), missing=()):
        self.gene, self.major, self.minor = gene, major, minor
        self.added, self.missing = list(added), list(missing)

    def _k(self):
        return (self.major, self.minor, tuple(self.added), tuple(self.missing))

    def __hash__(self):
        return hash(self._k())

    def __eq__(self, o):
        return isinstance(o, SA) and self._k() == o._k()

    def __lt__(self, o):
        return self._k() < o._k()

    def __repr__(self):
        return f"SA({self.major},{self.minor})"


F1, S1, S2, NC, INS, X0 = Mut(250, "C>T"), Mut(150, "T>A"), Mut(350, "G>A"), Mut(450, "A>C"), Mut(250, "insG"), Mut(550, "C>G")
ALT250 = Mut(250, "C>A")
ALT350 = Mut(350, "G>C")  # a site where an allele has exactly one own and one addable variant


def sample():
    """gene with majors 1 (minors 1.001, 1.002) and 3 (minor 3.001); 3 has no copies at position 450."""
    minor = lambda muts: Obj(neutral_muts=set(muts))  # noqa
    alleles = {
        "1": Obj(func_muts=set(), minors={"1.001": minor([]), "1.002": minor([S1])}, cn_config="1"),
        "3": Obj(func_muts={F1}, minors={"3.001": minor([S2])}, cn_config="1"),
    }
    functional = {F1, ALT250}
    gene = Obj(name="G", alleles=alleles,
               is_functional=lambda m, infer=True: Mut(*m) in functional,
               has_coverage=lambda a, pos: not (a == "3" and pos == 450))
    cn = Obj(position_cn=lambda pos: 0 if pos == 550 else 3, max_cn=lambda: 3, solution={"1": 3})
    major_sol = Obj(solution=collections.Counter({SA(gene, "1"): 1, SA(gene, "3"): 2}), cn_solution=cn, added=[],
                    _solution_nice=lambda: "")
    cands = [SA(gene, "1", "1.001"), SA(gene, "1", "1.002"), SA(gene, "3", "3.001")]
    mutations = {F1, S1, S2, NC, INS, X0, ALT250, ALT350}
    support = {F1: 10, S1: 12, S2: 0, NC: 7, INS: 4, X0: 3, ALT250: 5, ALT350: 6}
    return gene, major_sol, cands, mutations, support


def build_tables(f, m):
    """Fold the allele-copy table and the two selector tables on the sample (addVar returns the variable's name)."""
    gene, major_sol, cands, mutations, support = sample()
    names = []

    def addVar(**kw):
        names.append(kw.get("name"))
        return kw.get("name")

    env = {"gene": gene, "major_sol": major_sol, "alleles_list": cands, "mutations": mutations,
           "model": Obj(addVar=addVar, addConstr=lambda *a, **k: None, INF=1e9)}
    K = fams(m, "K_")
    N = fams(m, "N_")
    VA = fams(m, "A_")
    loc = fold_defs(m.func, {"alleles", VA, K, N}, env, funcs={"SolvedAllele": SA})
    for need in ("alleles", VA, K, N):
        if need not in loc:
            raise AnalysisError(f"table `{need}` is not built at the top level of solve_minor_model")
    return loc["alleles"], loc[VA], loc[K], loc[N]


def fams(m, prefix):
    c = [n for n, c_ in m.fams.containers.items() if any(i["prefix"].startswith(prefix) and i["vtype"] == "B" for i in c_["infos"])]
    if len(c) != 1:
        raise AnalysisError(f"binary variable family {prefix}... not found uniquely in solve_minor_model: {c}")
    return c[0]


class Ctx:
    pass


def context(repo):
    f = repo.func("minor::solve_minor_model")
    m = Model(f, ["constraints"])
    c = Ctx()
    c.f, c.m = f, m
    c.VA, c.K, c.N = fams(m, "A_"), fams(m, "K_"), fams(m, "N_")
    c.gene, c.major_sol, c.cands, c.mutations, c.support = sample()
    c.A, c.tVA, c.tK, c.tN = build_tables(f, m)
    c.defs = single_defs(f)
    c.hook = reach_hook(f)
    cov = Obj(profile=Obj(minor_miss=1.5, minor_add=1.0, minor_phase=0.4, phase=False, minor_phase_vars=3000), sam=None,
              single_copy=lambda m_, s: 10.0)
    c.env = {"gene": c.gene, "major_sol": c.major_sol, "alleles_list": c.cands, "mutations": c.mutations, "alleles": c.A,
             c.VA: {k: k for k in c.A}, c.K: {a: {mm: (("K", a, mm), ("MK", a, mm)) for mm in c.tK[a]} for a in c.tK},
             c.N: {a: {mm: (("N", a, mm), ("MN", a, mm)) for mm in c.tN[a]} for a in c.tN},
             "constraints": {mm: 0 for mm in c.mutations}, "coverage": cov}
    c.funcs = {"Mutation": Mut, "SolvedAllele": SA}

    def hook(node, ev):
        if isinstance(node, ast.Subscript) and isinstance(node.value, ast.Name) and node.value.id == "coverage":
            return c.support.get(ev.ev(node.slice), 0)
        return c.hook(node, ev)

    c.evhook = hook
    return c


def assignment(c, seed=0):
    """An arbitrary fractional valuation of all model variables (templates are linear, so this decides equality)."""
    vals = {}
    seed = seed or getattr(c, "seed", 0)
    i = seed * 3
    for a in sorted(c.A, key=lambda k: (k[0]._k(), k[1])):
        i += 1
        vals[("VA", a)] = round(0.11 + 0.07 * i, 3)
        for tbl, tag in ((c.tK, "K"), (c.tN, "N")):
            for mm in sorted(tbl[a]):
                i += 1
                vals[(tag, a, mm)] = round(0.05 + 0.03 * i, 3)
                vals[("M" + tag, a, mm)] = round(0.02 + 0.013 * i, 3)
    return vals


def make_varval(c, vals, err=0.125):
    def varval(fam, keys, comp):
        if fam == c.VA:
            k = keys[0] if len(keys) == 1 else keys
            return vals[("VA", k)]
        if fam in (c.K, c.N):
            tag = "K" if fam == c.K else "N"
            a, mm = keys[0], keys[1]
            if comp is None:
                raise Unfoldable("selector pair used without component")
            return vals[(("M" if comp == 1 else "") + tag, a, mm)]
        if any(i["prefix"].startswith("E_") for i in c.m.fams.containers.get(fam, {}).get("infos", [])):
            return err
        raise Unfoldable(f"unexpected family {fam}")
    return varval


def r1(c, res):
    f, m = c.f, c.m
    want = {(a, i) for a in c.cands for i in range(max(1, c.major_sol.solution[SA(c.gene, a.major)]))}
    node = [n for n in walk_local(f) if isinstance(n, (ast.Assign, ast.AnnAssign)) and
            ast.unparse(n.targets[0] if isinstance(n, ast.Assign) else n.target) == "alleles"]
    res.ob("C04.R1", f, node[0] if node else f, set(c.A) == want,
           expected="every candidate minor allele has as many copies as its major allele is called",
           found=f"missing {sorted(want - set(c.A), key=str)} extra {sorted(set(c.A) - want, key=str)}", key="copy-supply")
    vals = assignment(c)
    vv = make_varval(c, vals)
    hit = None
    for a, b in m.equalities():
        sums = a.lin.sum_terms()
        if len(sums) == 1 and not a.lin.var_terms() and any(t.kind == "var" and t.fam == c.VA for _, t in sums[0][1].body.terms):
            hit = a
    bad = None
    if hit is not None:
        try:
            seen = 0
            for loc, v in site_values(hit, c.env, vv, funcs=c.funcs, hook=c.evhook, defs=c.defs):
                sa = [x for x in loc.values() if isinstance(x, SA)][0]
                cnt = c.major_sol.solution[sa]
                want_v = sum(vals[("VA", k)] for k in c.A if (k[0].major, k[0].added, k[0].missing) == (sa.major, sa.added, sa.missing)) - cnt
                seen += 1
                if min(abs(v - want_v), abs(v + want_v)) > 1e-9:
                    bad = f"major {sa.major}: template {v}, documented {want_v}"
            if seen != len(c.major_sol.solution):
                bad = bad or f"{seen} instances for {len(c.major_sol.solution)} called majors"
        except (Unfoldable, Raised, KeyError, IndexError) as e:
            res.err("C04.R1", f"count-tie template outside folding language: {e}")
            return
    res.ob("C04.R1", f, hit.call if hit is not None else f, hit is not None and bad is None,
           expected="per called major allele: sum of selectors of its candidate minors (matching major, added, missing) == its count (both senses)",
           found=("agrees on the sample instance" if bad is None else bad) if hit is not None else "no such equality",
           clause="exactly one catalogued minor allele of that same major allele per called copy", key="count-tie")
    # candidates of other majors are disabled: total selected <= total copies
    ok = False
    for s in m.sites:
        if s.lin is None or s.sense == "==":
            continue
        sums = s.lin.sum_terms()
        if len(sums) == 1 and not s.lin.var_terms() and not s.binders:
            body = sums[0][1].body
            if len(body.terms) == 1 and body.terms[0][1].kind == "var" and body.terms[0][1].fam == c.VA and not sums[0][1].filters:
                try:
                    v = LinEval(c.env, vv, funcs=c.funcs, hook=c.evhook).lin(s.lin)
                    tot = sum(vals[("VA", k)] for k in c.A) - sum(c.major_sol.solution.values())
                    ok = ok or abs(v - tot) < 1e-9
                except (Unfoldable, Raised, KeyError):
                    pass
    res.ob("C04.R1", f, f, ok, expected="sum of all selectors <= number of called copies (candidates of other major alleles stay unused)",
           found="present" if ok else "absent", key="others-disabled")


def r2(c, res):
    f, m = c.f, c.m
    n = 0
    for call in m.prods:
        if len(call.args) < 2 or not isinstance(call.args[1], (ast.List, ast.Tuple)):
            continue
        r_ = m.lz.lin(call.args[0], call)
        if len(r_.terms) != 1 or r_.terms[0][1].kind != "var" or r_.terms[0][1].fam not in (c.K, c.N):
            continue
        n += 1
        rt = r_.terms[0][1]
        fs = [m.lz.lin(x, call) for x in call.args[1].elts]
        fts = [x.terms[0][1] for x in fs if len(x.terms) == 1 and x.terms[0][1].kind == "var"]
        sel = [t for t in fts if t.fam == rt.fam]
        va = [t for t in fts if t.fam == c.VA]
        ok = (rt.comp == 1 and len(fts) == 2 and len(sel) == 1 and len(va) == 1 and sel[0].comp == 0
              and sel[0].key_texts() == rt.key_texts() and va[0].key_texts() == rt.key_texts()[:1])
        res.ob("C04.R2", f, call, ok,
               expected="product variable = pair[1], factors = the allele's selector and pair[0] of the same (allele, variant) pair",
               found=f"res {rt.text()}, factors {[t.text() for t in fts]}",
               clause="a variant counts for an allele only if the allele is called and the variant kept/added", key=f"prod:{rt.fam}")
    res.floor("C04.R2", "keep/add product sites", n, 2)
    # every pair of both selector tables gets its product
    try:
        pairs = {c.K: set(), c.N: set()}
        for s in m.scatter("constraints"):
            if s["init"]:
                continue
            ts = [t for _, t in s["lin"].terms if t.kind == "var" and t.fam in (c.K, c.N) and t.comp == 1]
            if not ts or not any(isinstance(n_, ast.Call) and call_name(n_).endswith("prod") for n_ in ast.walk(s["node"])):
                continue
            for loc in bindings(s["binders"], s["filters"], c.env, c.funcs, hook=c.evhook, defs=c.defs):
                e = dict(c.env)
                e.update(loc)
                for t in ts:
                    ks = tuple(Evaluator(e, funcs=c.funcs, hook=c.evhook).ev(k) for k in t.keys)
                    pairs[t.fam].add(ks)
        wantK = {(a, mm) for a in c.tK for mm in c.tK[a]}
        wantN = {(a, mm) for a in c.tN for mm in c.tN[a]}
        ok = pairs[c.K] == wantK and pairs[c.N] == wantN
        found = f"keep pairs {len(pairs[c.K])}/{len(wantK)}, add pairs {len(pairs[c.N])}/{len(wantN)}"
    except (Unfoldable, Raised, KeyError) as e:
        res.err("C04.R2", f"product scatter outside folding language: {e}")
        return
    res.ob("C04.R2", f, f, ok, expected="every (allele copy, variant) pair of both selector tables is linearised by exactly one product",
           found=found, key="all-pairs-linearised")


def r3(c, res):
    f, m = c.f, c.m
    vals = assignment(c)
    vv = make_varval(c, vals)
    gather = None
    for a, b in m.equalities():
        if any(t.kind == "table" for _, t in a.lin.terms):
            gather = a
    if gather is None:
        res.ob("C04.R3", f, f, False, expected="coverage equation `expr + E == observed copies` (both senses) for every considered variant and reference site",
               found="no equality over the scatter table", key="coverage-gather")
        return
    bad = None
    nk = 0
    try:
        keys = sorted(c.mutations) + [Mut(p, "_") for p in sorted({mm.pos for mm in c.mutations})]
        for key in keys:
            got = scatter_value(m, "constraints", key, c.env, vv, funcs=c.funcs, hook=c.evhook, defs=c.defs)
            if key.op != "_":
                want = sum(vals[("MK", a, key)] for a in c.tK if key in c.tK[a]) + sum(vals[("MN", a, key)] for a in c.tN if key in c.tN[a])
            else:
                want = 0.0
                for a in c.A:
                    if not c.gene.has_coverage(a[0].major, key.pos):
                        continue
                    present = [mm for mm in c.A[a] if mm.pos == key.pos and mm.op[:3] != "ins"]
                    if present:
                        want += vals[("VA", a)] - vals[("MK", a, present[0])]
                    else:
                        want += vals[("VA", a)] - sum(vals[("MN", a, mm)] for mm in c.tN[a] if mm.pos == key.pos and mm.op[:3] != "ins")
            nk += 1
            if abs(got - want) > 1e-9:
                bad = f"key {key}: accumulated template {got:.4f}, documented {want:.4f}"
                break
    except (Unfoldable, Raised, KeyError, IndexError) as e:
        res.err("C04.R3", f"coverage-equation scatter outside folding language: {e}")
        return
    res.ob("C04.R3", f, gather.call, bad is None,
           expected="variant: sum of keep-products + add-products; reference site: per allele with copies there, selector minus the product "
                    "of its own (non-insertion) variant there, or minus the add-products of non-insertion variants there",
           found=f"agrees on {nk} keys of the sample instance" if bad is None else bad,
           clause="fit error of the reported assignment", key="coverage-expressions")
    E = [n for n, c_ in m.fams.containers.items() if any(i["prefix"].startswith("E_") for i in c_["infos"])]
    infos = m.fams.containers[E[0]]["infos"] if E else []
    free = bool(infos) and all(i["lb"] is not None and ast.unparse(i["lb"]).startswith("-") and i["ub"] is not None for i in infos)
    okg = len(gather.lin.terms) == 2 and any(t.kind == "var" and E and t.fam == E[0] for _, t in gather.lin.terms)
    res.ob("C04.R3", f, gather.call, okg and free, expected="table[m] + E[m] == observed copies with E free in sign",
           found=f"{gather.lin.text()[:90]}; E free: {free}", key="coverage-gather")


def implication_sites(c, fam_a, comp_a, fam_b):
    """Sites of the form  coefA*X + coefB*VA <= 0  (two variables)."""
    out = []
    for s in c.m.sites:
        if s.lin is None or s.sense == "==" or s.lin.sum_terms():
            continue
        vt = s.lin.var_terms()
        if len(vt) == 2 and {t.fam for _, t in vt} == {fam_a, fam_b}:
            out.append(s)
    return out


def r4(c, res):
    f, m = c.f, c.m
    sites = [s for s in implication_sites(c, c.K, 0, c.VA)
             if any(t.fam == c.K and t.comp == 0 and float(k.num) < 0 for k, t in s.lin.var_terms())
             and any(t.fam == c.VA and float(k.num) > 0 for k, t in s.lin.var_terms())]
    got = set()
    try:
        for s in sites:
            for loc in bindings(s.binders, s.filters, c.env, c.funcs, hook=c.evhook, defs=c.defs):
                e = dict(c.env)
                e.update(loc)
                kt = [t for _, t in s.lin.var_terms() if t.fam == c.K][0]
                vt = [t for _, t in s.lin.var_terms() if t.fam == c.VA][0]
                ka = tuple(Evaluator(e, funcs=c.funcs, hook=c.evhook).ev(k) for k in kt.keys)
                va = Evaluator(e, funcs=c.funcs, hook=c.evhook).ev(vt.keys[0])
                if ka[0] == va:
                    got.add(ka)
    except (Unfoldable, Raised, KeyError) as e:
        res.err("C04.R4", f"core-variant rule outside folding language: {e}")
        return
    want = {(a, mm) for a in c.A for mm in c.A[a] if c.gene.is_functional(mm)}
    res.ob("C04.R4", f, sites[0].call if sites else f, got == want and bool(want),
           expected="keep-selector >= allele selector for every core variant of every candidate allele copy",
           found=f"instances for {len(got)} of {len(want)} (allele, core variant) pairs", clause="core variants of a called allele are never dropped",
           key="core-kept")


def carriers_sites(c):
    """Sites whose normal form is (sum of keep-products + sum of add-products of one variant over all alleles) + const <= 0."""
    out = []
    for s in c.m.sites:
        if s.lin is None or s.lin.var_terms():
            continue
        sums = s.lin.sum_terms()
        if len(sums) != 2:
            continue
        fset = set()
        for k, t in sums:
            for _, t2 in t.body.terms:
                if t2.kind == "var" and t2.comp == 1:
                    fset.add(t2.fam)
        if fset == {c.K, c.N} and all(ast.unparse(t.binders[0][1]) == "alleles" for _, t in sums if t.binders):
            out.append(s)
    return out


def r57(c, res):
    f, m = c.f, c.m
    # R5a: an addition selector exists only where the allele has copies and does not already carry the variant
    want = {a: {mm for mm in c.mutations if c.gene.has_coverage(a[0].major, mm.pos) and mm not in c.A[a]} for a in c.A}
    got = {a: set(c.tN[a]) for a in c.tN}
    res.ob("C04.R5", f, m.fams.containers[c.N]["site"], got == want,
           expected="add-selectors range over considered variants at positions where the allele has gene copies and that it does not define",
           found="domain agrees" if got == want else f"differs for {[str(a) for a in want if got.get(a) != want[a]][:3]}",
           clause="a variant is only added to an allele that has gene copies at that position", key="add-domain")
    wantK = {a: set(c.A[a]) for a in c.A}
    res.ob("C04.R5", f, m.fams.containers[c.K]["site"], {a: set(c.tK[a]) for a in c.tK} == wantK,
           expected="keep-selectors range over the allele's own variants", found="domain agrees", key="keep-domain")
    sites = carriers_sites(c)
    vals = assignment(c)
    vv = make_varval(c, vals)
    inst = collections.defaultdict(list)
    try:
        for s in sites:
            for loc, v in site_values(s, c.env, vv, funcs=c.funcs, hook=c.evhook, defs=c.defs):
                mm = [x for x in loc.values() if isinstance(x, Mut)]
                if not mm:
                    continue
                mm = mm[-1]
                carriers = sum(vals[("MK", a, mm)] for a in c.tK if mm in c.tK[a]) + sum(vals[("MN", a, mm)] for a in c.tN if mm in c.tN[a])
                # canonical form L <= 0 :  L = +carriers - rhs   or   L = -carriers + rhs
                if abs(v - carriers) < 1e-9:
                    inst[mm].append(("<=", 0.0))
                elif abs(v + carriers - 1) < 1e-9:
                    inst[mm].append((">=", 1.0))
                else:
                    inst[mm].append(("other", round(v - carriers, 6)))
    except (Unfoldable, Raised, KeyError) as e:
        res.err("C04.R5", f"carrier rules outside folding language: {e}")
        return
    no_support = [mm for mm in c.mutations if c.support.get(mm, 0) == 0 or c.major_sol.cn_solution.position_cn(mm.pos) == 0]
    supported = [mm for mm in c.mutations if mm not in no_support]
    bad5 = [str(mm) for mm in no_support if ("<=", 0.0) not in inst.get(mm, [])]
    res.ob("C04.R5", f, sites[0].call if sites else f, not bad5 and bool(no_support),
           expected="no reads or no copies at the position => sum of carriers <= 0",
           found="present for " + ", ".join(str(x) for x in no_support) if not bad5 else f"missing for {bad5}",
           clause="only if filtered reads support it; every variant an allele is reported to carry has supporting reads", key="no-coverage")
    bad7 = [str(mm) for mm in supported if (">=", 1.0) not in inst.get(mm, [])]
    res.ob("C04.R7", f, sites[0].call if sites else f, not bad7 and bool(supported),
           expected="reads and copies at the position => sum of carriers >= 1",
           found=f"present for {len(supported) - len(bad7)} of {len(supported)} supported variants" + (f"; missing for {bad7}" if bad7 else ""),
           clause="every considered variant that has supporting reads is carried by at least one allele", key="min-one")
    wrong = [str(mm) for mm in supported if ("<=", 0.0) in inst.get(mm, [])] + [str(mm) for mm in no_support if (">=", 1.0) in inst.get(mm, [])]
    res.ob("C04.R5", f, sites[0].call if sites else f, not wrong, expected="the two rules apply to complementary sets of variants",
           found="ok" if not wrong else f"both / swapped for {wrong}", key="complementary")


def r6(c, res):
    f, m = c.f, c.m
    vals = assignment(c)
    vv = make_varval(c, vals)
    # candidates: sites  SUM(products at pos of allele a) - 1 <= 0  with both families in one site
    got = {}
    try:
        for s in m.sites:
            if s.lin is None or s.lin.var_terms() or s.sense == "==":
                continue
            sums = s.lin.sum_terms()
            fset = {t2.fam for _, t in sums for _, t2 in t.body.terms if t2.kind == "var" and t2.comp == 1}
            if fset != {c.K, c.N} or s.lin.const_value({}) != -1.0:
                continue
            for loc, v in site_values(s, c.env, vv, funcs=c.funcs, hook=c.evhook, defs=c.defs):
                pos = [x for x in loc.values() if isinstance(x, int)]
                a = [x for x in loc.values() if isinstance(x, tuple) and len(x) == 2 and isinstance(x[0], SA)]
                if pos and a:
                    got[(a[-1], pos[-1])] = v
    except (Unfoldable, Raised, KeyError) as e:
        res.err("C04.R6", f"one-variant-per-site rule outside folding language: {e}")
        return
    bad = None
    n = 0
    for a in c.A:
        for pos in sorted({mm.pos for mm in c.mutations}):
            ks = [mm for mm in c.tK[a] if mm.pos == pos]
            ns = [mm for mm in c.tN[a] if mm.pos == pos]
            if len(ks) + len(ns) > 1:
                n += 1
                want = sum(vals[("MK", a, mm)] for mm in ks) + sum(vals[("MN", a, mm)] for mm in ns) - 1
                g = got.get((a, pos))
                if g is None or abs(g - want) > 1e-9:
                    bad = f"allele {a[0]} copy {a[1]}, position {pos}: {'missing' if g is None else f'template {g}, documented {want}'}"
    res.ob("C04.R6", f, f, bad is None and n > 0,
           expected="per allele copy and position with more than one candidate variant: sum of its keep- and add-products there <= 1",
           found=f"agrees for {n} (allele, position) pairs" if bad is None else bad, clause="no allele carries two variants at one position",
           key="one-per-site")


def r10(c, res):
    """Read-phase block: a read group is explained by a *called* allele, and by exactly one."""
    f, m = c.f, c.m
    PH = [n for n, c_ in m.fams.containers.items() if any(i["prefix"].startswith("PH_") for i in c_["infos"])]
    if len(PH) != 1:
        res.ob("C04.R10", f, f, False, expected="phase selectors PH_<allele>_<read group>", found=f"families {PH}", key="phase-family")
        return
    PH = PH[0]
    tie = False
    one = False
    for s in m.sites:
        if s.lin is None:
            continue
        vt = s.lin.var_terms()
        if len(vt) == 2 and {t.fam for _, t in vt} == {PH, c.VA} and not s.lin.sum_terms() and s.sense != "==" \
                and not s.lin.consts:
            cp = [float(k.num) for k, t in vt if t.fam == PH][0]
            ca = [float(k.num) for k, t in vt if t.fam == c.VA][0]
            if cp == 1.0 and ca == -1.0:
                tie = True
    for a, b in m.equalities():
        sums = a.lin.sum_terms()
        if len(sums) == 1 and not a.lin.var_terms() and any(t.kind == "var" and t.fam == PH for _, t in sums[0][1].body.terms) \
                and abs(abs(a.lin.const_value({}) or 0) - 1.0) < 1e-12:
            one = True
    res.ob("C04.R10", f, f, tie, expected="phase selector <= allele selector (a read group can only be explained by a called allele)",
           found="present" if tie else "absent", clause="read-phase disagreement of the reported assignment", key="phase-called-only")
    res.ob("C04.R10", f, f, one, expected="every read group is explained by exactly one allele copy (sum of its phase selectors == 1)",
           found="present" if one else "absent", key="phase-exactly-one")


def r8(c, res):
    f, m = c.f, c.m
    obj = m.objective_lin()
    if obj is None:
        res.err("C04.R8", "setObjective not found")
        return
    vals = assignment(c)
    vv0 = make_varval(c, vals)
    vo_names = [n for n, i in m.fams.scalars.items() if i["prefix"].startswith("VNEWOR_")]
    seen = []

    def atomval(t):
        if getattr(t, "tag", "") == "abssum":
            seen.append(ast.unparse(t.node.args[0]))
            return 2.75
        return NotImplemented

    def vv(fam, keys, comp):
        if vo_names and fam == vo_names[0]:
            return 0.5
        return vv0(fam, keys, comp)

    try:
        env = dict(c.env)
        env["cnt"] = 0
        got = LinEval(env, vv, funcs=c.funcs, atomval=atomval, hook=c.evhook).lin(obj)
    except (Unfoldable, Raised, KeyError) as e:
        res.err("C04.R8", f"objective outside folding language: {e}")
        return
    miss, add = 1.5, 1.0
    novel_fn = {mm for a in c.tN for mm in c.tN[a] if c.gene.is_functional(mm) and mm not in c.gene.alleles[a[0].major].func_muts}
    want = 2.75 + miss * (sum(len(c.tK[a]) * vals[("VA", a)] for a in c.tK) - sum(vals[("MK", a, mm)] for a in c.tK for mm in c.tK[a])) \
        + add * sum(vals[("N", a, mm)] for a in c.tN for mm in c.tN[a]) + add / 2 * 0.5 * len(novel_fn)
    res.ob("C04.R8", f, m.objectives[-1], abs(got - want) < 1e-6 and len(seen) == 1,
           expected="abssum(E) + minor_miss*(sum |defn(a)|*A[a] - sum keep-products) + minor_add*sum add-selectors + minor_add/2 * sum novel-core indicators (+ phase term)",
           found=f"template = {got:.6f}, documented = {want:.6f}; abssum over {seen}",
           clause="the model objective (fit error + penalties for dropped, added and novel core variants + read-phase disagreement)", key="objective")
    ph = [k for k, t in obj.terms if "minor_phase" in k.text()]
    res.ob("C04.R8", f, m.objectives[-1], bool(ph) and all(float(k.num) > 0 for k in ph), expected="a read-phase term with coefficient +minor_phase",
           found=f"{[k.text() for k in ph]}", key="phase-term")
    # indicator >= each novel-core add-selector
    ok = False
    for s in m.sites:
        if s.lin is None or not vo_names:
            continue
        ts = s.lin.terms
        if len(ts) == 2 and any(t.kind == "var" and t.fam == vo_names[0] and float(k.num) == -1.0 for k, t in ts) \
                and any(t.kind == "elem" and float(k.num) == 1.0 for k, t in ts):
            el = [t for _, t in ts if t.kind == "elem"][0]
            fl = " ".join(ast.unparse(x) for _, sm in el.family.terms if sm.kind == "sum" for x, _ in sm.filters)
            ok = "is_functional" in fl and "func_muts" in fl
    res.ob("C04.R8", f, f, ok, expected="indicator >= every add-selector of a core variant that the allele's major does not define",
           found="present" if ok else "absent", key="novel-indicator")


def r9(c, res):
    f, m = c.f, c.m
    loop = None
    for n in walk_local(f):
        if isinstance(n, ast.For) and ast.unparse(n.iter) == f"{c.VA}.items()" and any(
                isinstance(x, ast.Call) and call_name(x) == "SolvedAllele" for x in ast.walk(n)):
            loop = n
    if loop is None:
        res.err("C04.R9", "read-out loop over the allele selectors not found")
        return
    a1, a2, a3 = sorted(c.tK, key=lambda k: (k[0]._k(), k[1]))[:3]
    setv = {}
    for a in c.tK:
        setv[("VA", a)] = 1 if a[0].minor in ("1.002", "3.001") and a[1] == 0 else 0
        for mm in c.tK[a]:
            setv[("K", a, mm)] = 0 if mm == S2 else 1
        for mm in c.tN[a]:
            setv[("N", a, mm)] = 1 if (mm == NC and a[0].major == "1") else 0
    names = {}
    VAn = {a: ("VA", a) for a in c.tK}
    Kn = {a: {mm: (("K", a, mm), ("MK", a, mm)) for mm in c.tK[a]} for a in c.tK}
    Nn = {a: {mm: (("N", a, mm), ("MN", a, mm)) for mm in c.tN[a]} for a in c.tN}
    hom = {X0}

    def hook(node, ev):
        if isinstance(node, ast.Subscript) and isinstance(node.value, ast.Name) and node.value.id == "coverage":
            mm = ev.ev(node.slice)
            return 30.0 if mm == ALT250 else 5.0
        return NotImplemented

    cov = Obj(profile=Obj(phase=False), sam=None, single_copy=lambda mm, s: 10.0)
    env = {c.VA: VAn, c.K: Kn, c.N: Nn, "alleles": c.A, "gene": c.gene, "major_sol": c.major_sol, "coverage": cov,
           "model": Obj(getValue=lambda v: setv.get(v, 0))}
    try:
        ev = Evaluator(env, funcs={"SolvedAllele": SA}, hook=hook)
        ev.locals["solution"] = []
        kind, val = ev.run([loop])
        sol = ev.locals["solution"]
    except (Unfoldable, Raised, KeyError) as e:
        res.err("C04.R9", f"read-out loop outside folding language: {e}")
        return
    got = {(s.major, s.minor): (set(s.added), set(s.missing)) for s in sol}
    # ALT250 has copies == max_cn (30/10 = 3): the homozygous post-processing adds it to every selected allele that does not define it
    want = {("1", "1.002"): ({NC, ALT250}, set()), ("3", "3.001"): ({ALT250}, {S2})}
    res.ob("C04.R9", f, loop, got == want,
           expected="for each selected allele: missing = own variants whose keep-selector is unset, added = variants whose add-selector is set "
                    "(plus unambiguously homozygous variants)",
           found=str({k: (sorted(map(str, v[0])), sorted(map(str, v[1]))) for k, v in got.items()}),
           clause="the refined solution names the variants each allele carries", key="read-out")
    ctor = [x for x in ast.walk(f) if isinstance(x, ast.Call) and call_name(x) == "MinorSolution"]
    ok = bool(ctor) and ast.unparse(kwarg(ctor[0], "score") or ast.Constant(0)) == "opt" and \
        ast.unparse(kwarg(ctor[0], "major_solution") or ast.Constant(0)) == "major_sol" and \
        ast.unparse(kwarg(ctor[0], "solution") or ast.Constant(0)) == "solution"
    res.ob("C04.R9", f, ctor[0] if ctor else f, ok, expected="MinorSolution(score=<objective>, solution=<read-out>, major_solution=<the refined major solution>)",
           found=ast.unparse(ctor[0])[:120] if ctor else "no constructor", clause="the reported score equals the model objective", key="solution-object")
    # estimate_minor pools candidates and considered variants over all major solutions
    g = c.repo.func("minor::estimate_minor")
    res.analysed(g)
    gene = c.gene
    gene.random_mutations = {X0}
    ms = [Obj(solution={SA(gene, "1"): 2}, added=[NC], cn_solution="c1"), Obj(solution={SA(gene, "3"): 1, SA(gene, "1"): 1}, added=[], cn_solution="c2")]
    try:
        loc = fold_defs(g, {"alleles", "mutations"}, {"gene": gene, "major_sols": ms}, funcs={"SolvedAllele": SA})
    except (Unfoldable, Raised) as e:
        res.err("C04.R9", f"candidate pooling in estimate_minor outside folding language: {e}")
        return
    minors = {(s.major, s.minor) for s in loc.get("alleles", [])}
    ok = minors == {("1", "1.001"), ("1", "1.002"), ("3", "3.001")} and set(loc.get("mutations", ())) >= {F1, S1, S2, NC, X0}
    res.ob("C04.R9", g, g, ok, expected="candidate minors and considered variants are pooled over all major solutions (core, minor-only, novel, common variants)",
           found=f"minors {sorted(minors)}; variants {sorted(map(str, loc.get('mutations', ())))}", key="pooling")


def run(repo, res):
    c = context(repo)
    c.repo = repo
    res.analysed(c.f)
    res.floor("C04", "addConstr sites", len(c.m.sites), 14)
    res.floor("C04", "product sites", len(c.m.prods), 2)
    res.count("C04:constraint sites", len(c.m.sites))
    from sa.report import seed as _seed, thorough

    rounds = [0] if not thorough() else [0] + [1 + (_seed() + j) % 97 for j in range(4)]
    for sd in rounds:
        c.seed = sd
        r1(c, res)
        r3(c, res)
        r57(c, res)
        r6(c, res)
        r8(c, res)
    res.count("C04:valuations evaluated per template", len(rounds))
    r2(c, res)
    r4(c, res)
    r9(c, res)
    r10(c, res)


MUTANTS = [
    dict(name="R1 count side dropped", module="minor", expect="C04.R1",
         old='        model.addConstr(expr >= cnt, name=f"CCNT_{sa.major}_2")\n', new=""),
    dict(name="R1 tie ignores added variants of the major", module="minor", expect="C04.R1",
         old="            if (vs.major, vs.added, vs.missing) == (sa.major, sa.added, sa.missing)", new="            if vs.major != sa.major or True"),
    dict(name="R1 other candidates not disabled", module="minor", expect="C04.R1",
         old='''    model.addConstr(
        model.quicksum(VA.values()) <= sum(major_sol.solution.values()),
        name="CCNT_OTHER",
    )
''', new=""),
    dict(name="R1 copy supply short", module="minor", expect="C04.R1",
         old="        for cnt in range(1, max_cn):\n            alleles[a, cnt] = alleles[a, 0]", new="        for cnt in range(2, max_cn):\n            alleles[a, cnt] = alleles[a, 0]"),
    dict(name="R2 product wired to the wrong selector", module="minor", expect="C04.R2",
         old="constraints[m] += model.prod(VNEW[a][m][1], [VA[a], VNEW[a][m][0]])", new="constraints[m] += model.prod(VNEW[a][m][1], [VA[a], VNEW[a][m][1]])"),
    dict(name="R2 keep product without the allele selector", module="minor", expect="C04.R2",
         old="constraints[m] += model.prod(VKEEP[a][m][1], [VA[a], VKEEP[a][m][0]])", new="constraints[m] += model.prod(VKEEP[a][m][1], [VKEEP[a][m][0]])"),
    dict(name="R3 reference equation loses the kept-variant term", module="minor", expect="C04.R3",
         old="                constraints[ref_m] += VA[a] - VKEEP[a][present_muts[0]][1]", new="                constraints[ref_m] += VA[a]"),
    dict(name="R3 added insertions consume reference (seeded C04_2 shape)", module="minor", expect="C04.R3",
         old='                muts = [m for m in VNEW[a] if m.pos == pos and m[1][:3] != "ins"]', new="                muts = [m for m in VNEW[a] if m.pos == pos]"),
    dict(name="R3 coverage side dropped", module="minor", expect="C04.R3",
         old='        model.addConstr(expr + VERR[m] <= cov, name=f"CCOV_{m.pos}_{m.op}")\n', new=""),
    dict(name="R3 reference equation ignores has_coverage", module="minor", expect="C04.R3",
         old="            if not gene.has_coverage(a[0].major, pos):\n                continue\n            # Does this allele", new="            # Does this allele"),
    dict(name="R4 rule 2 deleted", module="minor", expect="C04.R4",
         old='''                model.addConstr(
                    VKEEP[a][m][0] >= VA[a],
                    name=f"CFUNC_{m.pos}_{m.op}_{a[0].major}_{a[0].minor}_{a[1]}",
                )''', new="                pass"),
    dict(name="R4 only first copy (seeded C04_1 shape)", module="minor", expect="C04.R4",
         old="    for a in alleles:\n        for m in alleles[a]:\n            if gene.is_functional(m):",
         new="    for sa_ in alleles_list:\n        a = (sa_, 0)\n        for m in alleles[a]:\n            if gene.is_functional(m):"),
    dict(name="R5 additions where the allele has no copies", module="minor", expect="C04.R5",
         old="            if gene.has_coverage(a[0].major, m.pos) and m not in alleles[a]\n", new="            if m not in alleles[a]\n"),
    dict(name="R5 rule 5 (no coverage) deleted", module="minor", expect="C04.R5",
         old='            model.addConstr(expr <= 0, name=f"CNOCOV_{m.pos}_{m.op}")\n        else:\n            model.addConstr(expr <= coverage[m]',
         new='            pass\n        else:\n            model.addConstr(expr <= coverage[m]'),
    dict(name="R5 no-coverage test ignores the structure", module="minor", expect="C04.R5",
         old="        if major_sol.cn_solution.position_cn(m.pos) == 0 or coverage[m] == 0:\n            model.addConstr(expr <= 0",
         new="        if coverage[m] == 0:\n            model.addConstr(expr <= 0"),
    dict(name="R6 rule 4 deleted", module="minor", expect="C04.R6",
         old='''                model.addConstr(
                    model.quicksum(mp + ma) <= 1,
                    name=f"CSINGLEFULL_{pos}_{a[0].major}_{a[0].minor}_{a[1]}",
                )''', new="                pass"),
    dict(name="R6 one per site only among additions", module="minor", expect="C04.R6",
         old="                    model.quicksum(mp + ma) <= 1,", new="                    model.quicksum(ma + ma[:0]) <= 1,"),
    dict(name="R7 CMINONE dropped", module="minor", expect="C04.R7",
         old='            model.addConstr(expr >= 1, name=f"CMINONE_{m.pos}_{m.op}")\n', new=""),
    dict(name="R8 miss penalty dropped", module="minor", expect="C04.R8",
         old="    o_penal -= coverage.profile.minor_miss * model.quicksum(\n        v[1] for a in VKEEP for _, v in VKEEP[a].items()\n    )\n", new=""),
    dict(name="R8 add penalty dropped", module="minor", expect="C04.R8",
         old="            o_penal += coverage.profile.minor_add * (1 + cnt / 1000000) * v[0]\n", new="            pass\n"),
    dict(name="R8 novel-core penalty dropped", module="minor", expect="C04.R8",
         old="            o_penal += coverage.profile.minor_add / 2 * vo\n", new="            pass\n"),
    dict(name="R8 phase term dropped", module="minor", expect="C04.R8",
         old="    objective += o_phase\n", new=""),
    dict(name="R9 missing read from the set selectors", module="minor", expect="C04.R9",
         old="                    if not model.getValue(mv[0]):\n                        missing.append(m)", new="                    if model.getValue(mv[0]):\n                        missing.append(m)"),
    dict(name="R9 added variants not reported", module="minor", expect="C04.R9",
         old="                        allele[0].added + added,", new="                        allele[0].added,"),
    dict(name="R9 score not the objective", module="minor", expect="C04.R9",
         old="                score=opt,\n                solution=solution,\n                major_solution=major_sol,", new="                score=0,\n                solution=solution,\n                major_solution=major_sol,"),
    dict(name="R10 phase selector not tied to the allele (seeded C04_3 shape)", module="minor", expect="C04.R10",
         old='                        model.addConstr(VPHASE[ai, ri] <= VA[a], name=f"PH_{ai}_{ri}")\n', new=""),
    dict(name="R10 read group may be left unexplained", module="minor", expect="C04.R10",
         old='                    model.addConstr(e >= 1, name=f"PHASE4_{ri}_2")\n', new=""),
    dict(name="R6 per-site rule only when two additions compete (seeded C04_b1 shape)", module="minor", expect="C04.R6",
         old="            if len(ma) + len(mp) > 1:\n", new="            if len(ma) > 1:\n"),
    # benign
    dict(name="benign: CORD dropped", module="minor", kind="benign",
         old='            model.addConstr(VA[a, cnt] <= VA[a, cnt - 1], name=f"CORD_{a.minor}_{cnt}")', new="            pass"),
    dict(name="benign: CVK dropped", module="minor", kind="benign",
         old='''            model.addConstr(
                v[0] <= VA[a],
                name=f"CVK_{m.pos}_{m.op}_{a[0].major}_{a[0].minor}_{a[1]}",
            )''', new="            pass"),
    dict(name="benign: CMAXCOV dropped", module="minor", kind="benign",
         old='            model.addConstr(expr <= coverage[m], name=f"CMAXCOV_{m.pos}_{m.op}")\n', new=""),
    dict(name="benign: CSINGLE dropped", module="minor", kind="benign",
         old='''                model.addConstr(
                    model.quicksum(ma) <= 1,
                    name=f"CSINGLE_{pos}_{a[0].major}_{a[0].minor}_{a[1]}",
                )''', new="                pass"),
    dict(name="benign: count tie as ==", module="minor", kind="benign",
         old='        model.addConstr(expr <= cnt, name=f"CCNT_{sa.major}_1")\n        model.addConstr(expr >= cnt, name=f"CCNT_{sa.major}_2")',
         new='        model.addConstr(expr == cnt, name=f"CCNT_{sa.major}")'),
]
