"""
genotype() lifted whole into the folding language.

The routine of /repo is executed by the analysis' own interpreter (sa.fold.Lifted) on a scenario: every collaborator
(genome detection, gene and profile construction, sample loading, the three stages, the solution classes, the
writers, the file system) is a recording stub driven by the scenario, so what is decided is the routing, guarding,
score-carrying and selection logic written in genotype() itself -- independent of its local names and statement shapes.
Nothing of /repo is imported or executed by Python.
"""

import ast
import collections

from sa.fold import Lifted, Obj, Raised, Unfoldable, lift_module_helpers, module_consts  # noqa: F401

GR = collections.namedtuple("GRange", ["chr", "start", "end"])
_GRr = GR


def dataclass_fields(repo, cls):
    c = repo.cls(f"solutions::{cls}")
    return [n.target.id for n in c.body if isinstance(n, ast.AnnAssign) and isinstance(n.target, ast.Name)]


class Scenario:
    """Inputs of one folded call. Stage results are given as labelled scores:
    cn = [(label, score)], majors = {cn label: [(label, score)]}, minors = {major label: [(label, score)]}."""

    def __init__(self, **kw):
        self.kind = kw.pop("kind", "sam")              # what detect_genome reports: sam | dump | vcf | pscan
        self.detected_genome = kw.pop("detected_genome", "hg19")
        self.cn = kw.pop("cn", [("1,1", 0.0)])
        self.majors = kw.pop("majors", {"1,1": [("1/1", 0.0)]})
        self.minors = kw.pop("minors", {"1/1": [("1.001/1.001", 0.0)]})
        self.avg_coverage = kw.pop("avg_coverage", 40.0)
        self.dump_profile = kw.pop("dump_profile", None)   # profile object a dump restores (None -> made by the model)
        self.db_exists = kw.pop("db_exists", True)
        self.is_long_read = kw.pop("is_long_read", False)
        self.profile_options = kw.pop("profile_options", None)   # options section of the profile file Profile.load reads
        self.fail_genes = kw.pop("fail_genes", ())      # genes (by database name) for which the structure stage finds nothing
        self.args = kw.pop("args", {})                  # arguments of genotype()
        self.params = kw.pop("params", {})              # **params
        assert not kw, kw


class GenotypeModel:
    def __init__(self, repo, profile_model=None):
        self.repo = repo
        self.f = repo.func("genotype::genotype")
        self.consts = module_consts(repo.mod("common"))
        self.major_fields = dataclass_fields(repo, "MajorSolution")
        self.minor_fields = dataclass_fields(repo, "MinorSolution")
        if profile_model is None:
            from checks._profile import ProfileModel

            profile_model = ProfileModel(repo)
        self.profile_model = profile_model
        self.caches = {}   # memo tables of module-level helpers decorated with a cache: they live as long as the process (= this model)

    # -- stubs ---------------------------------------------------------------------------------------------------------
    def _solution(self, fields, trace, tag):
        def ctor(*a, **k):
            o = Obj(_kind=tag)
            for name, v in zip(fields, a):
                o.__dict__[name] = v
            for name, v in k.items():
                o.__dict__[name] = v
            o.__dict__.setdefault("diplotype", None)
            o.__dict__["_solution_nice"] = lambda: str(o.__dict__.get("solution"))
            o.__dict__["set_diplotype"] = lambda d: o.__dict__.__setitem__("diplotype", d)
            o.__dict__["get_diplotype"] = lambda: o.__dict__["diplotype"]
            o.__dict__["get_major_diplotype"] = lambda: "M[" + str(getattr(o.__dict__.get("major_solution"), "solution", o.__dict__.get("solution"))) + "]"
            o.__dict__["get_minor_diplotype"] = lambda legacy=False: ("L[" if legacy else "m[") + str(o.__dict__.get("solution")) + "]"
            o.__dict__["get_mutation_coverages"] = lambda cov: []
            trace.append((tag, o))
            return o
        return ctor

    def run(self, sc: Scenario):
        """-> (kind, value, trace). kind: 'return' | 'raise'."""
        trace = []
        printed = []
        Major = self._solution(self.major_fields, trace, "MajorSolution")
        Minor = self._solution(self.minor_fields, trace, "MinorSolution")
        pm = self.profile_model

        def profile_ctor(name, *a, **kw):
            p = pm.new(name, *a, **kw)          # the lifted constructor and typed update of /repo
            trace.append(("Profile", name, dict(kw), p))
            return p

        def profile_load(gene, name, cn_region=None, **kw):
            # the lifted loader of /repo on an in-memory profile document (options section given by the scenario)
            doc = {"neutral": {"value": 10, gene.genome: ["22", 100, 110]}, gene.name: {"e1": [7]}}
            if sc.profile_options is not None:
                doc["options"] = dict(sc.profile_options)
            # shipped profiles are resources: the same name always holds the same document during a process
            key = "aldy.resources.profiles/{}.yml".format(str(name).lower())
            if pm.files.get(key, doc) != doc:
                pm.reset_state()    # a different document under a resource name stands for a different process
            pm.files[key] = doc
            p = pm.load(gene, name, cn_region, **kw)
            trace.append(("Profile.load", name, cn_region, dict(kw), p))
            return p

        def dumped_profile():
            """The profile a replay works with: the original run's profile (built with the same parameters), pickled, and
            passed through the archive reader of /repo (Sample._load_dump folded whole: it resets some parameters)."""
            if sc.dump_profile is not None:
                return sc.dump_profile
            original = pm.new("dumped", _GRr("22", 100, 110), {"dumped": True}, **{k: v for k, v in sc.params.items()})
            rd = self.repo.func("sam::Sample._load_dump")
            me = Obj(gene=Obj(name="G"), profile=None, name=None, _dump_cn=None, _fusion_counter=None, _indel_sites=None, phases=None)
            payload = ("SAMPLE", original, {}, {}, {}, [], {}, {})
            io = {"gzip.open": lambda *a, **k: Obj(kind="gz"), "pickle.load": lambda fd: payload, "os.path.abspath": lambda q: q,
                  "tarfile.open": lambda *a, **k: Obj(getnames=lambda: ["x.G.dump"], extractfile=lambda n: Obj(kind="member"))}
            lift_module_helpers(self.repo.mod("sam").tree, io, None, {}, {})
            try:
                Lifted(rd, funcs=io)(me, "in.tar.gz")
            except Raised:
                return original
            return me.profile if me.profile is not None else original

        def gene_ctor(path, genome=None):
            nm = "G" if "/" not in str(path) else str(path).rsplit("/", 1)[1].split(".")[0].upper()
            nm = "G" if nm == "G" else nm
            g = Obj(name=nm, genome=genome, do_copy_number=True, path=path, alleles={}, get_rsid=lambda m, default=True: "rs" + str(m),
                    regions=[{"e1": GR("22", 10, 20)}])
            trace.append(("Gene", path, genome, g))
            return g

        def sample_ctor(gene, profile, path, reference=None, debug=None):
            prof = profile
            if sc.kind == "dump":
                prof = dumped_profile()
            cov = Obj(average_coverage=lambda: sc.avg_coverage, _tag="coverage")
            s = Obj(name="SAMPLE", profile=prof, coverage=cov, is_long_read=sc.is_long_read, kind=sc.kind)
            trace.append(("Sample", gene, profile, path, reference, debug, s, dict(profile.__dict__) if profile is not None else None))
            return s

        def est_cn(gene, profile, coverage, solver="any", debug=None, **kw):
            out = [Obj(score=s, label=l, _solution_nice=(lambda l=l: l), _kind="CN") for l, s in sc.cn]
            if gene.name in sc.fail_genes:
                out = []
            trace.append(("estimate_cn", gene, profile, coverage, dict(solver=solver, debug=debug, **kw), dict(do_copy_number=gene.do_copy_number,
                                                                                                                  profile=dict(profile.__dict__))))
            return out

        def est_major(gene, coverage, cn_sol, solver="any", identifier=0, debug=None, **kw):
            out = [Major(s, l, cn_sol, ["+" + l]) for l, s in sc.majors.get(cn_sol.label, [])]
            trace.append(("estimate_major", cn_sol.label, identifier))
            return out

        def est_minor(gene, coverage, major_sols, solver="any", max_solutions=1, **kw):
            major_sols = list(major_sols)
            trace.append(("estimate_minor", [(m.solution, m.score) for m in major_sols], max_solutions, major_sols))
            out = []
            for m in major_sols:
                for l, s in sc.minors.get(m.solution, []):
                    x = Minor(s, l, m)
                    x.set_diplotype("D[" + l + "]")
                    out.append(x)
            return out

        def pr(*a, sep=" ", end="\n", file=None):
            printed.append((sep.join(str(x) for x in a) + end, file))

        def opened(path, *a, **k):
            if path == "missing":
                raise FileNotFoundError(path)
            return Obj(path=path)

        funcs = {
            "lp_model": lambda *a, **k: None, "open": opened, "sam.detect_genome": lambda p: (sc.kind, sc.detected_genome),
            "pkg_resources.resource_listdir": lambda *a: ["g.yml"], "script_path": lambda p: p, "os.path.exists": lambda p: sc.db_exists,
            "Gene": gene_ctor, "Profile": profile_ctor, "Profile.load": profile_load, "sam.Sample": sample_ctor,
            "cn.estimate_cn": est_cn, "major.estimate_major": est_major, "minor.estimate_minor": est_minor,
            "solutions.MajorSolution": Major, "solutions.MinorSolution": Minor, "print": pr, "time.time": lambda: 0.0,
            "datetime.datetime.now": lambda: "now", "colorize": lambda s, *a: s,
            "diplotype.write_decomposition": lambda *a: trace.append(("write_decomposition",) + a),
            "diplotype.write_vcf": lambda *a: trace.append(("write_vcf",) + a),
        }
        env = {"json": collections.defaultdict(dict), "OUTPUT_COLS": ["c1", "c2"], "sys.stdout": Obj(name="<stdout>")}
        fn = Lifted(self.f, funcs=funcs, consts=self.consts, env=env)
        fn.funcs["genotype"] = fn
        # module-level helpers of genotype.py are lifted too (interprocedural folding); a cache decorator or a module-level
        # table is modelled as what it is: state that outlives the call
        lift_module_helpers(self.repo.mod("genotype").tree, fn.funcs, self.consts, fn.env, self.caches, skip=(self.f.name,))
        a = dict(gene_db="g", sam_path="in.bam", profile_name="illumina")
        a.update(sc.args)
        a.update(sc.params)
        try:
            val = fn(**a)
            return "return", val, trace, printed
        except Raised as r:
            return "raise", r.kind, trace, printed


def events(trace, tag):
    return [t for t in trace if t[0] == tag]
