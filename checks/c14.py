"""
C14 -- genotyping is deterministic, isolated and leaves the database untouched.

Decided: (R1) effect / alias analysis over the whole package: no write reaches the gene catalogue
outside the Gene initialisers nor the sample evidence outside Sample / Coverage construction, and
the owner-only helpers are called by owners only; (R2) no nested function reads a variable that its
enclosing function binds only as a loop target, from outside that loop (late binding); (R3) no
hash-order flow into model coefficients or reported lists; (R4) the process-wide debug store is
write-only; (R5) per-gene isolation of a multi-gene run.
Not decided: equality of whole runs (an execution relation); the solver's own determinism.
"""

import ast
import collections
import symtable

from sa.cfg import cfg_of
from sa.effects import analyse
from sa.guards import decide_with, find_calls
from sa.loader import AnalysisError, FuncNode, call_name, calls_in, loc, qual_of, walk_local
from sa.order import OrderAnalysis, set_fields

PROPERTY = "C14"
EXPLANATION = (
    "R1: interprocedural mutation-effect analysis (abstract values P/CONT/SHALLOW/FRESH with per-function "
    "`mutates` and `returns` summaries to a fixpoint over the resolved call graph; copy.deepcopy / copy.copy / "
    "container constructors / key-refined stores modelled) -- every attribute/subscript store, delete, mutator call "
    "and in-place operator in every function of the package is an obligation: its target must not alias catalogue "
    "(Gene, MajorAllele, MinorAllele, CNConfig) or evidence (Coverage, Sample) storage unless the function is an owner; "
    "plus a who-may-call rule for owner-only helpers. R2: closure free variables (symtable) bound only by for-loops of "
    "the enclosing function and used outside that loop. R3: hash-order taint from set iteration to counters paired "
    "with elements in arithmetic and to lists stored in solution objects. R4: every occurrence of the debug store "
    "`common.json` (and aliases) is a store target, a mutator receiver, its own index, or the archive writer. "
    "Module-level and class-level mutable state (caches, memo tables, upper-case globals) written by a function is an obligation of its own. "
    "R5: genotype() folded whole (recording stubs, caches modelled as state of the run): a multi-gene run gives every gene the result, the arguments "
    "(solver, reference, debug prefix, the user's neutral region, parameters), the profile load and the gene object of its single-gene run, a failing gene "
    "leaves one closed line; what an earlier call did (exome alias) does not reach a later call."
)
ASSUMPTIONS = [
    "owners: Gene.__init__/_init_basic/_init_regions/_init_alleles/_init_partials (catalogue); all Sample methods, "
    "Coverage.__init__, Coverage._normalize_coverage (evidence)",
    "a function that constructs an object may configure it (genotype() sets do_copy_number on the Gene it just built)",
    "the order in which variables/constraints are handed to CBC still follows set iteration; whether CBC's choice among "
    "exactly tied optima depends on it is not decided",
]

OWNERS = {
    "G": {"gene::Gene.__init__", "gene::Gene._init_basic", "gene::Gene._init_regions", "gene::Gene._init_alleles",
          "gene::Gene._init_partials"},
    "E": {"sam::Sample", "coverage::Coverage.__init__", "coverage::Coverage._normalize_coverage"},
}
OWNER_ONLY_CALLEES = {
    "_normalize_coverage": "sam::Sample", "_make_coverage": "sam::Sample", "_parse_read": "sam::Sample",
    "_load_sam": "sam::Sample", "_load_long_sam": "sam::Sample", "_load_vcf": "sam::Sample", "_load_dump": "sam::Sample",
    "_load_pscan": "sam::Sample", "_load_cn_region": "sam::Sample", "_realign_indels": "sam::Sample",
    "_init_basic": "gene::Gene.__init__", "_init_regions": "gene::Gene.__init__", "_init_alleles": "gene::Gene.__init__",
    "_init_partials": "gene::Gene.__init__",
}


def owners_closure(repo):
    """OWNERS extended by private helpers that are only ever called from owners of the same family (a block of an owner that was
    extracted into its own method stays part of the owner)."""
    cache = repo.__dict__.get("_c14_owners")
    if cache is not None:
        return cache
    out = {fam: set(v) for fam, v in OWNERS.items()}

    def is_owner(q, fam):
        return any(q == o or q.startswith(o + ".") for o in out[fam])

    callers = collections.defaultdict(set)   # short name -> qualified callers
    for q, f in repo.all_functions():
        if isinstance(f, ast.Lambda):
            continue
        for c in ast.walk(f):
            if isinstance(c, ast.Call):
                n = call_name(c).split(".")[-1]
                callers[n].add(q)
    changed = True
    while changed:
        changed = False
        for q, f in repo.all_functions():
            if isinstance(f, ast.Lambda):
                continue
            short = q.split("::")[-1].split(".")[-1]
            if not short.startswith("_") or short.startswith("__"):
                continue
            cs = callers.get(short, set()) - {q}
            # the name must be unambiguous in the package, or the helper could be reached from elsewhere under the same name
            same_name = [q2 for q2, _ in repo.all_functions() if q2.split("::")[-1].split(".")[-1] == short]
            if not cs or len(same_name) != 1:
                continue
            for fam in out:
                if not is_owner(q, fam) and all(is_owner(c_, fam) for c_ in cs):
                    out[fam].add(q)
                    changed = True
    repo.__dict__["_c14_owners"] = out
    return out


def r1(repo, res):
    prog, results = analyse(repo, owners_closure(repo))
    total = 0
    nonowner_fn = 0
    for q, fa in sorted(results.items()):
        res.analysed(q)
        nonowner_fn += 1
        for node, v, what in fa.writes:
            total += 1
            if prog.is_owner(q, v.fam):
                continue
            fam = "gene catalogue" if v.fam == "G" else "sample evidence"
            res.ob("C14.R1", node, node, False,
                   expected=f"no write to the {fam} outside its owners (work on a copy)",
                   found=what,
                   clause="no query, accessor, solver stage or output writer modifies the loaded gene database or the sample evidence",
                   key=f"{ast.unparse(node)[:120]}")
    res.count("C14.R1:functions analysed", nonowner_fn)
    res.count("C14.R1:call sites resolved", prog.resolved)
    res.count("C14.R1:call sites external/unresolved", prog.unresolved)
    res.count("C14.R1:writes to protected storage (owners included)", total)
    res.floor("C14.R1", "functions analysed", nonowner_fn, 150)
    res.floor("C14.R1", "owner writes seen (liveness of the analysis)", total, 40)
    res.ob("C14.R1", "gene::Gene", "effect analysis of every function", True, expected="completed",
           found=f"{nonowner_fn} functions, {total} protected writes (all in owners unless reported)", key="scan")
    # built-in positive example: the rule must fire on the repaired defect's shape
    demo = '''
from .gene import Gene
class SolvedAllele:
    gene: Gene
    def mutations(self):
        m = self.gene.alleles[self.major].func_muts
        m |= set(self.added)
        return m
def strip(gene: Gene):
    alleles = gene.alleles
    del alleles["1"]
'''
    r2_ = repo.with_source("solutions_example", demo)
    p2, rs2 = analyse(r2_, OWNERS, rounds=2)
    hits = sum(len([w for w in fa.writes if not p2.is_owner(q, w[1].fam)]) for q, fa in rs2.items()
               if q.startswith("solutions_example::"))
    if hits < 2:
        res.err("C14.R1", f"built-in positive example not recognised ({hits}/2)")
    # who-may-call
    n_calls = 0
    for mn, m in repo.modules.items():
        for n in ast.walk(m.tree):
            if isinstance(n, ast.Call) and isinstance(n.func, ast.Attribute) and n.func.attr in OWNER_ONLY_CALLEES:
                n_calls += 1
                owner = OWNER_ONLY_CALLEES[n.func.attr]
                q = qual_of(n)
                ok = q == owner or q.startswith(owner + ".") or q.startswith(owner.split(".")[0] + ".")
                res.ob("C14.R1", n, n, ok, expected=f"`{n.func.attr}` is called only from {owner}",
                       found=f"called from {q}", key=f"who-may-call:{n.func.attr}:{q}")
    res.floor("C14.R1", "owner-only call sites", n_calls, 12)


def free_vars(func, mod_src, mod_name):
    """Free variables of a nested function via manual scoping (params + assigned names are local)."""
    bound = set()
    a = func.args
    for p in a.posonlyargs + a.args + a.kwonlyargs:
        bound.add(p.arg)
    if a.vararg:
        bound.add(a.vararg.arg)
    if a.kwarg:
        bound.add(a.kwarg.arg)
    body = func.body if isinstance(func.body, list) else [func.body]
    loads = {}
    for st in body:
        for n in ([st] if isinstance(func, ast.Lambda) else [st]):
            for x in _walk_scope(n):
                if isinstance(x, ast.Name):
                    if isinstance(x.ctx, (ast.Store, ast.Del)):
                        bound.add(x.id)
                    else:
                        loads.setdefault(x.id, x)
                elif isinstance(x, (ast.FunctionDef, ast.ClassDef)) and x is not func:
                    bound.add(x.name)
                elif isinstance(x, ast.ExceptHandler) and x.name:
                    bound.add(x.name)
    return {k: v for k, v in loads.items() if k not in bound}


def _walk_scope(node):
    """Walk a scope including comprehension bodies; nested defs contribute their own free variables."""
    stack = [node]
    while stack:
        n = stack.pop()
        yield n
        for ch in ast.iter_child_nodes(n):
            if isinstance(ch, (ast.FunctionDef, ast.AsyncFunctionDef, ast.Lambda)):
                # free variables of an inner function are free here too unless bound here
                inner = free_vars(ch, None, None)
                for nm, nd in inner.items():
                    yield nd
                if not isinstance(ch, ast.Lambda):
                    yield ch
                continue
            stack.append(ch)


def binding_sites(func, name):
    """How the enclosing function binds `name`: list of (kind, node)."""
    out = []
    a = func.args
    params = {p.arg for p in a.posonlyargs + a.args + a.kwonlyargs}
    if a.vararg:
        params.add(a.vararg.arg)
    if a.kwarg:
        params.add(a.kwarg.arg)
    if name in params:
        out.append(("param", func))
    for n in walk_local(func):
        if isinstance(n, (ast.For, ast.AsyncFor)):
            if any(isinstance(x, ast.Name) and x.id == name for x in ast.walk(n.target)):
                out.append(("for", n))
        elif isinstance(n, ast.Assign):
            for t in n.targets:
                if any(isinstance(x, ast.Name) and x.id == name and isinstance(x.ctx, ast.Store) for x in ast.walk(t)):
                    out.append(("assign", n))
        elif isinstance(n, (ast.AugAssign, ast.AnnAssign)):
            if isinstance(n.target, ast.Name) and n.target.id == name:
                out.append(("assign", n))
        elif isinstance(n, (ast.With, ast.AsyncWith)):
            for it in n.items:
                if it.optional_vars is not None and any(isinstance(x, ast.Name) and x.id == name
                                                        for x in ast.walk(it.optional_vars)):
                    out.append(("with", n))
        elif isinstance(n, (ast.FunctionDef, ast.ClassDef)) and n is not func and n.name == name:
            out.append(("def", n))
        elif isinstance(n, (ast.Import, ast.ImportFrom)):
            for al in n.names:
                if (al.asname or al.name.split(".")[0]) == name:
                    out.append(("import", n))
        elif isinstance(n, ast.ExceptHandler) and n.name == name:
            out.append(("except", n))
    return out


def _inside(node, anc):
    p = node
    while p is not None:
        if p is anc:
            return True
        p = getattr(p, "_parent", None)
    return False


def late_bound(func):
    """[(closure, var, loop)] for closures of `func` reading a loop-only variable from outside the loop."""
    out = []
    closures = [n for n in walk_local(func) if isinstance(n, (ast.FunctionDef, ast.Lambda)) and n is not func]
    for cl in closures:
        for v, use in free_vars(cl, None, None).items():
            sites = binding_sites(func, v)
            if not sites or any(k != "for" for k, _ in sites):
                continue
            loops = [n for _, n in sites]
            # defined outside every binding loop's body -> whatever value the loop left (or unbound)
            inside = [lp for lp in loops if any(_inside(cl, st) for st in lp.body)]
            if not inside:
                out.append((cl, v, loops[0], "defined outside the loop that binds it"))
                continue
            # defined inside the loop: a problem only if it escapes the iteration (stored / returned / yielded)
            par = getattr(cl, "_parent", None)
            esc = False
            if isinstance(cl, ast.Lambda):
                if isinstance(par, (ast.Return, ast.Yield)) or (isinstance(par, ast.Assign) and any(
                        isinstance(t, (ast.Subscript, ast.Attribute)) for t in par.targets)):
                    esc = True
                if isinstance(par, ast.Call) and isinstance(par.func, ast.Attribute) and par.func.attr in ("append", "add", "insert"):
                    esc = True
            else:
                for n in walk_local(func):
                    if isinstance(n, ast.Call) and isinstance(n.func, ast.Attribute) and n.func.attr in ("append", "add", "insert") \
                            and any(isinstance(a, ast.Name) and a.id == cl.name for a in n.args):
                        esc = True
                    if isinstance(n, ast.Assign) and isinstance(n.value, ast.Name) and n.value.id == cl.name and any(
                            isinstance(t, (ast.Subscript, ast.Attribute)) for t in n.targets):
                        esc = True
                    if isinstance(n, ast.Call) and any(isinstance(a, ast.Name) and a.id == cl.name
                                                       for a in list(n.args) + [k.value for k in n.keywords]) \
                            and not any(_inside(n, st) for lp in inside for st in lp.body):
                        esc = True
            if esc:
                out.append((cl, v, inside[0], "escapes the iteration that binds it"))
    return out


def r2(repo, res):
    pos = ast.parse("def f(xs):\n    def g(y):\n        return y + x\n    for x in xs:\n        pass\n    return g(1)\n"
                    "def ok(xs):\n    for x in xs:\n        h = sorted(xs, key=lambda y: y + x)\n    return h\n")
    for n in ast.walk(pos):
        for ch in ast.iter_child_nodes(n):
            ch._parent = n
    fs = [n for n in pos.body]
    if len(late_bound(fs[0])) != 1 or late_bound(fs[1]):
        res.err("C14.R2", "built-in positive/negative example not classified correctly")
    nclos = 0
    for q, f in repo.all_functions():
        if isinstance(f, ast.Lambda) or getattr(f, "_func", None) is not None:
            continue  # analysed as closures of their enclosing function
        closures = [n for n in walk_local(f) if isinstance(n, (ast.FunctionDef, ast.Lambda)) and n is not f]
        if not closures:
            continue
        nclos += len(closures)
        res.analysed(q)
        for cl, v, loop, why in late_bound(f):
            name = getattr(cl, "name", "<lambda>")
            res.ob("C14.R2", cl, cl if isinstance(cl, ast.Lambda) else f"def {name}", False,
                   expected="a closure must not depend on which iteration of an enclosing loop ran last",
                   found=f"`{name}` reads `{v}`, bound only by `for {ast.unparse(loop.target)} in {ast.unparse(loop.iter)[:40]}`: {why}",
                   clause="the refinement computed for one candidate does not depend on which other candidates are refined alongside it or in which order",
                   key=f"{name}:{v}")
    res.floor("C14.R2", "closures examined", nclos, 20)
    res.ob("C14.R2", "minor::estimate_minor", "late-binding scan of every closure", True, expected="completed",
           found=f"{nclos} closures examined", key="scan")


def r3(repo, res):
    sure, amb = set_fields(repo)
    nfun = 0
    nset = 0
    demo = ast.parse("def f(muts: Set[str], model):\n    cnt = 0\n    o = 0\n    for m in muts:\n        o += (1 + cnt / 1000) * m\n        cnt += 1\n    return o\n")
    for n in ast.walk(demo):
        for ch in ast.iter_child_nodes(n):
            ch._parent = n
    if len(OrderAnalysis(repo, demo.body[0], sure).sinks()) != 1:
        res.err("C14.R3", "built-in positive example not recognised")
    for mname in ("cn", "major", "minor", "genotype", "diplotype", "solutions", "coverage"):
        m = repo.mod(mname)
        for q, f in m.functions.items():
            if isinstance(f, ast.Lambda):
                continue
            nfun += 1
            oa = OrderAnalysis(repo, f, sure)
            nset += sum(1 for n in walk_local(f) if isinstance(n, ast.For) and oa.hash_iter(n.iter))
            res.analysed(f"{mname}::{q}")
            for kind, node, why in oa.sinks():
                res.ob("C14.R3", node, node, False,
                       expected="iterate `sorted(...)` where the order can reach a coefficient or a reported list",
                       found=why,
                       clause="identical results in a fresh process with a different hash seed",
                       key=f"{kind}:{ast.unparse(node)[:100]}")
    res.count("C14.R3:functions analysed", nfun)
    res.count("C14.R3:hash-ordered loops seen", nset)
    res.floor("C14.R3", "hash-ordered loops seen (liveness)", nset, 5)
    res.ob("C14.R3", "minor::solve_minor_model", "hash-order taint scan", True, expected="completed",
           found=f"{nfun} functions, {nset} hash-ordered loops, no flow into coefficients or reported lists unless reported",
           key="scan")
    if amb:
        res.note(f"C14.R3: attribute name(s) {sorted(amb)} are Set in one class and not in another; treated as not-a-set")


def r4(repo, res):
    n_occ = 0
    for mname, m in repo.modules.items():
        if mname == "common":
            continue
        imp = m.imports.get("json")
        has_json = imp is not None and imp[0].lstrip(".") == "common" and imp[1] == "json"
        for q, f in list(m.functions.items()) + [("<module>", m.tree)]:
            if isinstance(f, ast.Lambda):
                continue
            aliases = set()
            nodes = list(walk_local(f)) if q != "<module>" else [n for n in ast.walk(m.tree)
                                                                 if getattr(n, "_func", None) is None]
            # debug aliases: name = <json-rooted subscript chain>
            for n in nodes:
                if isinstance(n, ast.Assign) and len(n.targets) == 1 and isinstance(n.targets[0], ast.Name) \
                        and _json_rooted(n.value, has_json, aliases):
                    aliases.add(n.targets[0].id)
            for n in nodes:
                is_root = (isinstance(n, ast.Name) and ((has_json and n.id == "json") or n.id in aliases)
                           and isinstance(n.ctx, ast.Load)) or \
                          (isinstance(n, ast.Attribute) and n.attr == "json" and isinstance(n.value, ast.Name)
                           and n.value.id == "common")
                if not is_root:
                    continue
                n_occ += 1
                ok, how = _json_use_ok(n, has_json, aliases)
                if mname == "__main__" and how == "read":
                    par = _top_chain(n)
                    call = getattr(par, "_parent", None)
                    if isinstance(call, ast.Call) and call_name(call) == "yaml.dump":
                        ok, how = True, "archive writer"
                if not ok:
                    res.ob("C14.R4", n, _stmt(n), False,
                           expected="the debug store is only written (store target, mutator receiver, its own index) or dumped by the archive writer",
                           found=f"value read from the debug store: `{ast.unparse(_top_chain(n))[:80]}` in `{ast.unparse(_stmt(n))[:80]}`",
                           clause="process-wide state must not influence results",
                           key=f"{mname}::{q}:{ast.unparse(_stmt(n))[:100]}")
    res.floor("C14.R4", "occurrences of the debug store", n_occ, 15)
    res.ob("C14.R4", "common::JsonDict", "write-only scan of the debug store", True, expected="completed",
           found=f"{n_occ} occurrences, all store-only unless reported", key="scan")
    # no other module-level mutable object is written from a function
    for mname, m in repo.modules.items():
        mutable_globals = set()
        for st in m.tree.body:
            if isinstance(st, (ast.Assign, ast.AnnAssign)):
                v = st.value
                t = st.targets[0] if isinstance(st, ast.Assign) else st.target
                if isinstance(t, ast.Name) and isinstance(v, (ast.Dict, ast.List, ast.Set, ast.ListComp, ast.DictComp)):
                    mutable_globals.add(t.id)
                if isinstance(t, ast.Name) and isinstance(v, ast.Call) and call_name(v) in ("dict", "list", "set", "defaultdict"):
                    mutable_globals.add(t.id)
        for q, f in m.functions.items():
            for n in walk_local(f):
                tgt = None
                if isinstance(n, ast.Assign):
                    tgt = n.targets[0]
                elif isinstance(n, ast.AugAssign):
                    tgt = n.target
                if isinstance(tgt, ast.Subscript):
                    b = tgt.value
                    while isinstance(b, ast.Subscript):
                        b = b.value
                    if isinstance(b, ast.Name) and b.id in mutable_globals and not _is_local(f, b.id) and not _only_throttles_logging(m, b.id):
                        res.ob("C14.R4", n, n, False, expected="no module-level mutable state written from a function",
                               found=f"`{b.id}` is module-level in aldy/{mname}.py", key=f"global:{mname}:{b.id}")
            # `global x` rebinds module state; `nonlocal x` only rebinds a local of the enclosing call (it dies with that call) and is not state
            if any(isinstance(n, ast.Global) for n in walk_local(f)):
                g = [n for n in walk_local(f) if isinstance(n, ast.Global)][0]
                res.ob("C14.R4", g, g, False, expected="no rebinding of module-level names from a function (`global`)",
                       found=ast.unparse(g), key=f"global-stmt:{mname}:{q}")


def _only_throttles_logging(module, name) -> bool:
    """A module-level table every *read* of which sits in the test of an `if` whose branches hold nothing but log calls and writes to that same table
    (a warn-once register): it cannot reach a value a stage returns."""
    def only_logs_and_self_writes(stmts):
        for st in stmts:
            if isinstance(st, ast.Expr) and isinstance(st.value, ast.Call):
                c = ast.unparse(st.value.func)
                if c.startswith("log.") or c in (f"{name}.add", f"{name}.append", f"{name}.update", f"{name}.setdefault"):
                    continue
                return False
            if isinstance(st, (ast.Assign, ast.AugAssign)):
                t = st.targets[0] if isinstance(st, ast.Assign) else st.target
                while isinstance(t, ast.Subscript):
                    t = t.value
                if isinstance(t, ast.Name) and t.id == name:
                    continue
                return False
            if isinstance(st, ast.Pass):
                continue
            return False
        return True

    reads = 0
    for f in module.functions.values():
        for n in ast.walk(f):
            if isinstance(n, ast.Name) and n.id == name and isinstance(n.ctx, ast.Load):
                par = getattr(n, "_parent", None)
                # the base of a store / mutator call on the table itself
                top = n
                while isinstance(getattr(top, "_parent", None), (ast.Subscript, ast.Attribute)) and getattr(top._parent, "value", None) is top:
                    top = top._parent
                stmt = top
                while stmt is not None and not isinstance(stmt, ast.stmt):
                    stmt = getattr(stmt, "_parent", None)
                if isinstance(stmt, (ast.Assign, ast.AugAssign)) and any(top is t or top in ast.walk(t) for t in (stmt.targets if isinstance(stmt, ast.Assign) else [stmt.target])):
                    continue
                if isinstance(stmt, ast.Expr) and isinstance(stmt.value, ast.Call) and stmt.value.func is top:
                    continue
                reads += 1
                if not (isinstance(stmt, ast.If) and any(n is x for x in ast.walk(stmt.test)) and only_logs_and_self_writes(stmt.body) and only_logs_and_self_writes(stmt.orelse)):
                    return False
    return reads > 0


def r4_class_state(repo, res):
    """A mutable container bound in a class body is one object shared by every instance of the class for the life of the process:
    it must not be written through `self.` / the class from a method, unless the constructor gives every instance its own."""
    n_cls = 0
    MUT = ("add", "update", "clear", "pop", "popitem", "remove", "discard", "append", "extend", "insert", "setdefault", "sort")
    for mname, m in repo.modules.items():
        for cq, c in m.classes.items():
            n_cls += 1
            shared = {}
            for st in c.body:
                if isinstance(st, (ast.Assign, ast.AnnAssign)) and getattr(st, "value", None) is not None:
                    t = st.targets[0] if isinstance(st, ast.Assign) else st.target
                    v = st.value
                    if isinstance(t, ast.Name) and (isinstance(v, (ast.Dict, ast.List, ast.Set, ast.ListComp, ast.DictComp, ast.SetComp))
                                                    or (isinstance(v, ast.Call) and call_name(v).split(".")[-1] in ("dict", "list", "set", "defaultdict", "Counter", "OrderedDict"))):
                        shared[t.id] = st
            if not shared:
                continue
            methods = [x for x in c.body if isinstance(x, ast.FunctionDef)]
            own = set()   # rebound per instance in the constructor
            for f in methods:
                if f.name == "__init__":
                    for n in walk_local(f):
                        if isinstance(n, (ast.Assign, ast.AnnAssign)):
                            for t in (n.targets if isinstance(n, ast.Assign) else [n.target]):
                                if isinstance(t, ast.Attribute) and isinstance(t.value, ast.Name) and t.value.id == f.args.args[0].arg and t.attr in shared:
                                    own.add(t.attr)
            for f in methods:
                me = f.args.args[0].arg if f.args.args else None
                for n in walk_local(f):
                    base = None
                    if isinstance(n, (ast.Assign, ast.AugAssign, ast.Delete)):
                        tg = n.targets if isinstance(n, (ast.Assign, ast.Delete)) else [n.target]
                        for t in tg:
                            b = t
                            while isinstance(b, ast.Subscript):
                                b = b.value
                            if b is not t or isinstance(n, ast.AugAssign):
                                base = b
                    elif isinstance(n, ast.Call) and isinstance(n.func, ast.Attribute) and n.func.attr in MUT:
                        base = n.func.value
                        while isinstance(base, ast.Subscript):
                            base = base.value
                    if isinstance(base, ast.Attribute) and base.attr in shared and base.attr not in own and isinstance(base.value, ast.Name) \
                            and base.value.id in (me, "cls", c.name):
                        res.ob("C14.R4", n, n, False, expected="no container shared by all instances of a class is written from a method (results must not depend on earlier samples)",
                               found=f"`{c.name}.{base.attr}` is bound once in the class body of aldy/{mname}.py and written in {f.name}",
                               clause="results do not depend on what was genotyped earlier in the same process", key=f"class-state:{mname}:{c.name}.{base.attr}")
    res.ob("C14.R4", "common::JsonDict", "scan for class-level containers written from methods", True, expected="completed", found=f"{n_cls} classes scanned", key="class-scan")


def _is_local(f, name):
    a = f.args
    if name in {p.arg for p in a.posonlyargs + a.args + a.kwonlyargs}:
        return True
    return any(isinstance(n, ast.Name) and n.id == name and isinstance(n.ctx, ast.Store) for n in walk_local(f))


def _json_rooted(e, has_json, aliases):
    while isinstance(e, ast.Subscript):
        e = e.value
    return (isinstance(e, ast.Name) and ((has_json and e.id == "json") or e.id in aliases)) or \
           (isinstance(e, ast.Attribute) and e.attr == "json" and isinstance(e.value, ast.Name) and e.value.id == "common")


def _top_chain(n):
    """Largest subscript chain rooted at n."""
    p = getattr(n, "_parent", None)
    while isinstance(p, ast.Subscript) and p.value is n:
        n, p = p, getattr(p, "_parent", None)
    return n


def _stmt(n):
    while n is not None and not isinstance(n, ast.stmt):
        n = getattr(n, "_parent", None)
    return n


def _json_use_ok(n, has_json, aliases):
    top = _top_chain(n)
    par = getattr(top, "_parent", None)
    # store / delete target
    if isinstance(top, ast.Subscript) and isinstance(top.ctx, (ast.Store, ast.Del)):
        return True, "store"
    if isinstance(par, ast.AugAssign) and par.target is top:
        return True, "store"
    # alias binding
    if isinstance(par, ast.Assign) and par.value is top and len(par.targets) == 1 and isinstance(par.targets[0], ast.Name):
        return True, "alias"
    # receiver of a mutator call used as a statement
    if isinstance(par, ast.Attribute) and par.value is top and par.attr in ("update", "append", "extend", "setdefault", "clear"):
        call = getattr(par, "_parent", None)
        if isinstance(call, ast.Call) and call.func is par and isinstance(getattr(call, "_parent", None), ast.Expr):
            return True, "mutator"
    # its own index: len(<chain>) inside the slice of a json-rooted chain
    if isinstance(par, ast.Call) and call_name(par) == "len" and par.args and par.args[0] is top:
        q = getattr(par, "_parent", None)
        while q is not None and not isinstance(q, ast.stmt):
            if isinstance(q, ast.Subscript) and _json_rooted(q.value, has_json, aliases) and par in list(ast.walk(q.slice)):
                return True, "own index"
            q = getattr(q, "_parent", None)
    return False, "read"


def r5(repo, res):
    """Multi-gene runs, genotype() folded whole (the recursive call re-enters the lifted routine): every gene gets the result
    of its own single-gene run, with the caller's arguments and parameters, its own gene object, and a failing gene does not
    disturb the others."""
    from checks._genotype import GenotypeModel, Scenario, events
    from sa.fold import Obj, Unfoldable

    g = repo.func("genotype::genotype")
    res.analysed(g)
    gm = GenotypeModel(repo)
    desc = dict(cn=[("A", 0.0), ("B", 0.05)], majors={"A": [("A1", 0.0)], "B": [("B1", 0.0)]}, minors={"A1": [("A1a", 0.0)], "B1": [("B1a", 0.0)]})

    def summary(val, key):
        lst = val.get(key) if isinstance(val, dict) else None
        return None if lst is None else [(m.solution, round(m.score, 9), m.major_solution.solution) for m in lst]

    try:
        out = Obj(name="out.simple")
        from checks._genotype import GR as _GRx

        region = _GRx("22", 500, 530)   # the user's copy-number-neutral region
        args = dict(output_file=out, solver="S1", reference="ref.fa", multiple_warn_level=2, report=False, genome="hg38", debug="dbg", cn_region=region)
        singles = {}
        for gname in ("g1", "g2", "g3"):
            k, v, tr, pr = gm.run(Scenario(args=dict(args, gene_db=gname), params=dict(gap=0.1, max_minor_solutions=2), **desc))
            singles[gname] = (k, v, tr, "".join(t for t, fl in pr))
        k, v, trace, printed = gm.run(Scenario(args=dict(args, gene_db="g1,g2,g3"), params=dict(gap=0.1, max_minor_solutions=2), fail_genes=("G2",), **desc))
    except Unfoldable as e:
        res.err("C14.R5", f"genotype() outside the folding language: {e}")
        return
    keys = list(v) if isinstance(v, dict) else []
    same = k == "return" and len(keys) == 2 and all(summary(v, kk) == summary(singles[gn][1], list(singles[gn][1])[0])
                                                     for kk, gn in zip(keys, ("g1", "g3")))
    res.ob("C14.R5", g, g, same,
           expected="genes g1,g2,g3 with g2 failing: the result holds g1 and g3, each equal to its own single-gene run",
           found="ok" if same else f"{k}; genes {keys}; {[summary(v, kk) for kk in keys]}",
           clause="a gene that cannot be genotyped in a multi-gene run does not change the results of the others", key="multi-gene-results")
    genes = [t for t in events(trace, "Gene")]
    cn = events(trace, "estimate_cn")
    ok_gene = len(genes) == 3 and len({id(t[3]) for t in genes}) == 3 and [t[1]["name"] if isinstance(t[1], dict) else t[1].name for t in cn] == ["G1", "G2", "G3"] \
        and all(t[2] == "hg38" for t in genes)
    res.ob("C14.R5", g, g, ok_gene, expected="every gene of the run loads its own gene object (for the requested genome) and is the one its stages see",
           found=f"{len(genes)} gene objects; structure stage saw {[getattr(t[1], 'name', None) for t in cn]}", key="own-gene")
    ok_args = all(t[4] == {"solver": "S1", "debug": "dbg"} for t in cn) and all(t[5]["profile"].get("gap") == 0.1 and t[5]["profile"].get("max_minor_solutions") == 2 for t in cn) \
        and all(sm[4] == "ref.fa" and sm[5] == "dbg" for sm in events(trace, "Sample"))
    loads = [(t[1], t[2], t[3]) for t in events(trace, "Profile.load")]
    loads1 = [(t[1], t[2], t[3]) for t in events(singles["g1"][2], "Profile.load")]
    ok_args = ok_args and len(loads) == 3 and len(loads1) == 1 and all(l_ == loads1[0] for l_ in loads) and loads1[0][1] is region
    res.ob("C14.R5", g, g, ok_args, expected="solver, reference, debug prefix, the user's neutral region and the model parameters reach every gene's run unchanged "
                                            "(each gene's profile is loaded exactly as in its single-gene run)",
           found="ok" if ok_args else str([(t[4], t[5]["profile"].get("gap")) for t in cn]) + f"; profile loads {[(l_[0], l_[1]) for l_ in loads]} vs single {[(l_[0], l_[1]) for l_ in loads1]}",
           key="same-arguments")
    text = "".join(t for t, fl in printed if fl is out)
    want_text = singles["g1"][3] + "SAMPLE\tG2\t\n" + singles["g3"][3]
    res.ob("C14.R5", g, g, text == want_text, expected="the output holds each gene's own lines in request order; the failing gene leaves one closed empty line",
           found="ok" if text == want_text else repr(text), key="multi-gene-output")
    # the same for an aliased profile (exome: copy-number calling off, min_coverage preset): per gene, the stages of the multi-gene run
    # see what they see in the single-gene run
    try:
        per = {}
        for gname in ("g1", "g3"):
            _, _, tr1, _ = gm.run(Scenario(args=dict(output_file=None, gene_db=gname, profile_name="exome"), **desc))
            per[gname.upper()] = events(tr1, "estimate_cn")[0][5]
        _, _, trm, _ = gm.run(Scenario(args=dict(output_file=None, gene_db="g1,g3", profile_name="exome"), **desc))
    except (Unfoldable, IndexError) as e:
        res.err("C14.R5", f"genotype() outside the folding language: {e}")
        return
    multi = {getattr(t[1], "name", None): t[5] for t in events(trm, "estimate_cn")}
    oka = set(multi) == set(per) and all(multi[k_]["do_copy_number"] == per[k_]["do_copy_number"] and multi[k_]["profile"] == per[k_]["profile"] for k_ in per)
    res.ob("C14.R5", g, g, oka, expected="exome profile: every gene of a multi-gene run is staged exactly as in its single-gene run (copy-number switch, presets)",
           found="ok" if oka else str({k_: (multi.get(k_, {}).get("do_copy_number"), per[k_]["do_copy_number"]) for k_ in per}),
           clause="a multi-gene run gives each gene the result of its single-gene run", key="multi-gene-alias")
    # history: what an earlier call did to its gene (exome profiles switch copy-number calling off) does not reach a later call
    try:
        gm2 = GenotypeModel(repo)
        first = gm2.run(Scenario(args=dict(output_file=None, gene_db="g1", profile_name="exome"), **desc))
        second = gm2.run(Scenario(args=dict(output_file=None, gene_db="g1", profile_name="illumina"), **desc))
        fresh = GenotypeModel(repo).run(Scenario(args=dict(output_file=None, gene_db="g1", profile_name="illumina"), **desc))
    except Unfoldable as e:
        res.err("C14.R5", f"genotype() outside the folding language: {e}")
        return
    a_, b_ = events(second[2], "estimate_cn"), events(fresh[2], "estimate_cn")
    okh = bool(a_) and bool(b_) and a_[0][5]["do_copy_number"] == b_[0][5]["do_copy_number"] and a_[0][5]["profile"] == b_[0][5]["profile"] \
        and summary(second[1], list(second[1])[0]) == summary(fresh[1], list(fresh[1])[0])
    res.ob("C14.R5", g, g, okh, expected="the same call gives the same run whether or not another call (exome profile, same gene) came before it in the process",
           found="ok" if okh else f"after an exome run: do_copy_number={a_[0][5]['do_copy_number'] if a_ else None}; fresh process: {b_[0][5]['do_copy_number'] if b_ else None}",
           clause="results do not depend on what was genotyped earlier in the same process", key="history-independent")
    # no function-level cache decorators in the package
    for q, f in repo.all_functions():
        if isinstance(f, ast.Lambda):
            continue
        for d in f.decorator_list:
            if any(x in ast.unparse(d) for x in ("lru_cache", "cache", "cached_property")):
                res.ob("C14.R5", f, d, False, expected="no memoisation across calls", found=ast.unparse(d), key=f"cache:{q}")
    # mutable default arguments that are written through
    prog, results = analyse(repo, owners_closure(repo), rounds=3)
    for q, fa in results.items():
        f = fa.func
        if isinstance(f, ast.Lambda):
            continue
        allp = f.args.posonlyargs + f.args.args
        defaults = [None] * (len(allp) - len(f.args.defaults)) + list(f.args.defaults)
        for i, (p_, d) in enumerate(zip(allp, defaults)):
            if d is not None and (isinstance(d, (ast.Dict, ast.List, ast.Set)) or
                                  (isinstance(d, ast.Call) and call_name(d) in ("dict", "list", "set"))):
                if i in prog.mutates.get(q, ()):  # written through
                    res.note(f"C14.R5: {q} writes through parameter `{p_.arg}` which has a mutable default "
                             f"(callers in the package always pass a value or the default stays empty)")


NONDET_MODULES = {"random", "uuid", "secrets"}


def r6(repo, res):
    """No nondeterministic source feeds a result: no random/uuid/secrets import, no id()/hash() outside __hash__,
    no reflective write (setattr / delattr / exec / eval / globals()) anywhere in the package; directory listings are sorted."""
    n = 0
    for mname, m in repo.modules.items():
        for node in ast.walk(m.tree):
            n += 1
            bad = None
            if isinstance(node, ast.Import):
                for a in node.names:
                    if a.name.split(".")[0] in NONDET_MODULES:
                        bad = f"import {a.name}"
            elif isinstance(node, ast.ImportFrom) and (node.module or "").split(".")[0] in NONDET_MODULES:
                bad = f"from {node.module} import ..."
            elif isinstance(node, ast.Call) and isinstance(node.func, ast.Name):
                fn = node.func.id
                encl = qual_of(node)
                if fn in ("setattr", "delattr", "exec", "eval", "globals", "vars") and mname != "__main__":
                    bad = f"reflective call {fn}(...)"
                elif fn in ("id", "hash") and not encl.endswith("__hash__"):
                    bad = f"{fn}(...) outside __hash__ (value differs between processes)"
            elif isinstance(node, ast.Call) and isinstance(node.func, ast.Attribute) and node.func.attr in ("resource_listdir", "listdir", "glob", "iglob", "scandir"):
                # a directory listing must be sorted before it decides an order
                ok = False
                st = _stmt(node)
                par = getattr(st, "_parent", None)
                nm = st.targets[0].id if isinstance(st, ast.Assign) and isinstance(st.targets[0], ast.Name) else None
                for x in ast.walk(st):
                    if isinstance(x, ast.Call) and call_name(x) == "sorted" and x.args and node in list(ast.walk(x.args[0])):
                        ok = True
                for fld in ("body", "orelse", "finalbody"):
                    blk = getattr(par, fld, None)
                    if isinstance(blk, list) and st in blk and nm:
                        for later in blk[blk.index(st) + 1:]:
                            for x in ast.walk(later):
                                if isinstance(x, ast.Call) and call_name(x) == "sorted" and x.args and any(
                                        isinstance(y, ast.Name) and y.id == nm for y in ast.walk(x.args[0])):
                                    ok = True
                if not ok:
                    bad = f"unsorted directory listing {ast.unparse(node)[:60]}"
            if bad:
                res.ob("C14.R6", node, node, False, expected="no process-dependent source in the package", found=bad,
                       clause="identical results ... in a fresh process with a different hash seed", key=f"{mname}:{bad[:60]}")
    res.count("C14.R6:nodes scanned", n)
    res.ob("C14.R6", "genotype::genotype", "scan for process-dependent sources", True, expected="completed", found=f"{n} nodes scanned", key="scan")


def r7(repo, res):
    """A read must not write: protected tables that auto-create entries (defaultdict) may only be subscripted by their owners
    or behind a membership test."""
    fields = set()
    for ref in ("sam::Sample", "coverage::Coverage"):
        cls = repo.cls(ref)
        for n in ast.walk(cls):
            tgt = n.targets[0] if isinstance(n, ast.Assign) else (n.target if isinstance(n, ast.AnnAssign) else None)
            val = getattr(n, "value", None)
            if tgt is not None and isinstance(tgt, ast.Attribute) and isinstance(tgt.value, ast.Name) \
                    and isinstance(val, ast.Call) and call_name(val).split(".")[-1] == "defaultdict":
                fields.add(tgt.attr)
    # constructor arguments carry the kind into Coverage's fields
    cinit = repo.func("coverage::Coverage.__init__")
    params = [a.arg for a in cinit.args.args]
    for mname, m in repo.modules.items():
        for c in ast.walk(m.tree):
            if isinstance(c, ast.Call) and call_name(c) == "Coverage":
                for i, a in enumerate(c.args):
                    if isinstance(a, ast.Attribute) and a.attr in fields and i + 1 < len(params):
                        pn = params[i + 1]
                        for n in walk_local(cinit):
                            if isinstance(n, ast.Assign) and isinstance(n.value, ast.Name) and n.value.id == pn \
                                    and isinstance(n.targets[0], ast.Attribute):
                                fields.add(n.targets[0].attr)
    res.count("C14.R7:auto-creating evidence tables", len(fields))
    hits = 0
    prog_owner = lambda q: any(q == o or q.startswith(o + ".") for o in owners_closure(repo)["E"])  # noqa
    for q, f in repo.all_functions():
        if isinstance(f, ast.Lambda) or prog_owner(q):
            continue
        c = None
        for n in walk_local(f):
            if isinstance(n, ast.Subscript) and isinstance(n.ctx, ast.Load) and isinstance(n.value, ast.Attribute) \
                    and n.value.attr in fields:
                if c is None:
                    c = cfg_of(f)
                base, key = ast.unparse(n.value), ast.unparse(n.slice)
                guarded = False
                try:
                    facts = c.guards(c.node_of(n))
                except AnalysisError:
                    facts = []
                for t, pol in facts:
                    if isinstance(t, ast.expr):
                        tx = ast.unparse(t)
                        if (tx == f"{key} in {base}" and pol is True) or (tx == f"{key} not in {base}" and pol is False):
                            guarded = True
                from sa.cfg import expr_guards
                for t, pol in expr_guards(n):
                    if ast.unparse(t) == f"{key} in {base}" and pol:
                        guarded = True
                if not guarded:
                    hits += 1
                    res.ob("C14.R7", n, n, False, expected="no unguarded subscript read of an auto-creating (defaultdict) evidence table outside its owners",
                           found=f"`{ast.unparse(n)}` inserts an entry when `{key}` is absent",
                           clause="no query, accessor, solver stage or output writer modifies ... the sample evidence", key=f"{q}:{ast.unparse(n)[:60]}")
    res.ob("C14.R7", "coverage::Coverage", "scan for auto-vivifying reads", True, expected="completed",
           found=f"tables {sorted(fields)}; {hits} unguarded reads outside owners", key="scan")


def run(repo, res):
    r7(repo, res)
    r6(repo, res)
    r1(repo, res)
    r2(repo, res)
    r3(repo, res)
    r4(repo, res)
    r4_class_state(repo, res)
    r5(repo, res)


MUTANTS = [
    dict(name="benign: a warn-once register (module-level table that only throttles a log line)", module="genotype", kind="benign",
         edits=[("def genotype(\n", "_WARNED_LOW: dict = {}\n\n\ndef genotype(\n"),
                ("        elif profile.cn_region and avg_cov < 20:\n            log.warn(", "        elif profile.cn_region and avg_cov < 20 and False:\n            pass\n        if gene.name not in _WARNED_LOW:\n            _WARNED_LOW[gene.name] = True\n            log.warn(")]),
    dict(name="R4 a module-level table that reaches a stage (depth of the first call reused)", module="genotype", expect="C14.R4",
         edits=[("def genotype(\n", "_DEPTHS: dict = {}\n\n\ndef genotype(\n"),
                ("        avg_cov = sample.coverage.average_coverage()\n", "        if gene.name not in _DEPTHS:\n            _DEPTHS[gene.name] = sample.coverage.average_coverage()\n        avg_cov = _DEPTHS[gene.name]\n")]),
    dict(name="R5 multi-gene dispatch loses the user's neutral region (seeded C14_d1 shape)", module="genotype", expect="C14.R5",
         old="                        output_file,\n                        cn_region,\n                        cn_solution,", new="                        output_file,\n                        None,\n                        cn_solution,"),
    dict(name="R1 original defect: accessor rewrites the catalogue", module="solutions", expect="C14.R1",
         old="        m = set(self.gene.alleles[self.major].func_muts)", new="        m = self.gene.alleles[self.major].func_muts"),
    dict(name="R1 major filter works on the catalogue itself", module="major", expect="C14.R1",
         old="    alleles = copy.deepcopy(gene.alleles)", new="    alleles = gene.alleles"),
    dict(name="R1 cn filter deletes from the gene's configurations", module="cn", expect="C14.R1",
         old="    configs = copy.deepcopy(gene.cn_configs)", new="    configs = gene.cn_configs"),
    dict(name="R1 weak slot built on the un-copied configuration", module="cn", expect="C14.R1",
         old="            structures[a, i] = copy.deepcopy(structures[a, 0])\n", new="            structures[a, i] = structures[a, 0]\n"),
    dict(name="R1 shallow copy of configurations", module="cn", expect="C14.R1",
         old="            structures[a, i] = copy.deepcopy(structures[a, 0])\n", new="            structures[a, i] = copy.copy(structures[a, 0])\n"),
    dict(name="R1 filtered() shares the table with the receiver", module="coverage", expect="C14.R1",
         old="        new_cov._coverage = {}\n", new=""),
    dict(name="R1 filtered() drops entries from the receiver's indel table", module="coverage", expect="C14.R1",
         old="        new_cov._indels = None\n        if self._indels:\n            new_cov._indels = {}\n",
         new="        if self._indels:\n"),
    dict(name="R1 minor stage adds to the gene's random variants", module="minor", expect="C14.R1",
         old="    mutations: Set[Mutation] = set()\n", new="    mutations: Set[Mutation] = gene.random_mutations\n"),
    dict(name="R1 writer sorts the gene's tandem list in place", module="diplotype", expect="C14.R1",
         old="    del_allele = gene.deletion_allele()\n\n    # solution is the array",
         new="    del_allele = gene.deletion_allele()\n    gene.common_tandems.sort()\n\n    # solution is the array"),
    dict(name="R1 helper mutates its argument and a stage passes the catalogue", module="major", expect="C14.R1", regex=True,
         old=r"(?s)\A(.*)    alleles = copy\.deepcopy\(gene\.alleles\)\n(.*)def _print_candidates\(\n    gene,\n    alleles: Dict\[str, Any\],",
         new=r"\1    alleles = copy.deepcopy(gene.alleles)\n    _drop(gene.alleles)\n\2def _drop(table):\n    table.clear()\n\n\ndef _print_candidates(\n    gene,\n    alleles: Dict[str, Any],"),
    dict(name="R1 normalisation invoked from genotype()", module="genotype", expect="C14.R1",
         old="    profile = sample.profile  # if loaded for a dump\n",
         new="    profile = sample.profile  # if loaded for a dump\n    sample.coverage._normalize_coverage()\n"),
    dict(name="R2 original defect: filter closes over the loop variable", module="minor", expect="C14.R2",
         old="                mut, cn=cn_sol.position_cn(mut.pos) + 0.5", new="                mut, cn=major_sol.cn_solution.position_cn(mut.pos) + 0.5"),
    dict(name="R3 original defect: selectors built in set order (added)", module="minor", expect="C14.R3",
         old="            for m in sorted(mutations)\n            if gene.has_coverage", new="            for m in mutations\n            if gene.has_coverage"),
    dict(name="R3 original defect: selectors built in set order (kept)", module="minor", expect="C14.R3",
         old="            for m in sorted(alleles[a])\n", new="            for m in alleles[a]\n"),
    dict(name="R3 novel list of the major solution in set order", module="major", expect="C14.R3",
         old="                added=list(novel_muts),", new="                added=[m for m in func_muts if m in novel_muts],"),
    dict(name="R3 writer sorts rows on a partial key", module="diplotype", expect="C14.R3",
         old="            for m in sorted(mutations):\n                fn = gene.get_functional(m, False)",
         new="            for m in sorted(mutations, key=lambda m: m.pos):\n                fn = gene.get_functional(m, False)"),
    dict(name="R3 writer iterates the set directly", module="diplotype", expect="C14.R3",
         old="            for m in sorted(mutations):\n                fn = gene.get_functional(m, False)",
         new="            for m in mutations:\n                fn = gene.get_functional(m, False)"),
    dict(name="R3 VCF records written in set order", module="diplotype", expect="C14.R3",
         old="    for m in sorted(all_mutations):", new="    for m in all_mutations:"),
    dict(name="R4 stage reads back from the debug store", module="cn", expect="C14.R4",
         old="    if not result:\n        log.debug(\"[cn] solution= []\")",
         new="    if json[gene.name][\"cn\"][\"data\"] and not result:\n        log.debug(\"[cn] solution= []\")"),
    dict(name="R4 identifier derived from the debug alias", module="major", expect="C14.R4",
         old="    debug_info[\"id\"] = identifier\n", new="    debug_info[\"id\"] = identifier\n    identifier = len(debug_info)\n"),
    dict(name="R4 module-level cache written from a function (seeded C07_1 shape)", module="profile", expect="C14.R4",
         old="class Profile:\n", new="_CACHE = {}\n\n\ndef _cached(path):\n    if path not in _CACHE:\n        _CACHE[path] = path\n    return _CACHE[path]\n\n\nclass Profile:\n"),
    dict(name="R6 tie broken by id()", module="genotype", expect="C14.R6",
         old="        key=lambda m: (int(1000 * m.score), m._solution_nice()),\n    )\n    log.debug(\"*\" * 80)\n\n    if multiple_warn_level >= 1",
         new="        key=lambda m: (int(1000 * m.score), id(m)),\n    )\n    log.debug(\"*\" * 80)\n\n    if multiple_warn_level >= 1"),
    dict(name="R6 gene list in directory order", module="genotype", expect="C14.R6",
         old="        avail_genes = sorted(avail_genes)\n    elif gene_db == \"pharmacoscan\":", new="    elif gene_db == \"pharmacoscan\":"),
    dict(name="R7 evidence table auto-creates entries on lookup (seeded C14_b1 shape)", module="coverage", expect="C14.R7", regex=True,
         old=r"(?s)        self\._coverage = \{\}\n        for pos, ops in coverage\.items\(\):(.*?)        if self\._indels and \(mut\.pos, mut\.op\) in self\._indels:\n            return self\._indels\[mut\.pos, mut\.op\]\[1\]\n        if mut\.pos in self\._coverage and mut\.op in self\._coverage\[mut\.pos\]:\n            return len\(self\._coverage\[mut\.pos\]\[mut\.op\]\)\n        else:\n            return 0",
         new=r"        import collections\n        self._coverage = collections.defaultdict(dict)\n        for pos, ops in coverage.items():\1        if self._indels and (mut.pos, mut.op) in self._indels:\n            return self._indels[mut.pos, mut.op][1]\n        return len(self._coverage[mut.pos].get(mut.op, []))"),
    dict(name="R5 failing gene aborts the run", module="genotype", expect="C14.R5",
         old="            except AldyException as ex:\n                log.error(f\"Failed gene {a.upper()}\")",
         new="            except AldyException as ex:\n                raise\n                log.error(f\"Failed gene {a.upper()}\")"),
    dict(name="R5 shared params dict across genes", module="genotype", expect="C14.R5",
         old="                        is_simple,\n                        **params,\n                    ),",
         new="                        is_simple,\n                        params=params,\n                    ),"),
    # benign
    dict(name="benign: a helper that mutates its argument exists but only receives copies", module="major", kind="benign",
         old="def _print_candidates(\n    gene,\n    alleles: Dict[str, Any],",
         new="def _drop(table):\n    table.clear()\n\n\ndef _print_candidates(\n    gene,\n    alleles: Dict[str, Any],"),
    dict(name="benign: dict() copy of filtered alleles + deepcopy", module="major", kind="benign",
         old="    alleles = copy.deepcopy(gene.alleles)", new="    alleles = dict(copy.deepcopy(gene.alleles))"),
    dict(name="benign: accessor with union", module="solutions", kind="benign",
         old="        m = set(self.gene.alleles[self.major].func_muts)", new="        m = set() | self.gene.alleles[self.major].func_muts"),
    dict(name="benign: sorted list for selectors", module="minor", kind="benign",
         old="            for m in sorted(mutations)\n            if gene.has_coverage", new="            for m in sorted(list(mutations))\n            if gene.has_coverage"),
    dict(name="benign: closure with default-bound loop variable", module="minor", kind="benign",
         old="        for major_sol in natsorted(majors, key=lambda s: str(s.solution)):\n",
         new="        for major_sol in natsorted(majors, key=lambda s: str(s.solution)):\n            _k = sorted([1], key=lambda y, ms=major_sol: y)\n"),
]
