"""
C18 -- model parameters take the values the user gave, through every route.

Decided: every route (command line, programming interface, profile file, profile command, dump
replay) reaches the one typed update `Profile.update`; the conversion branch of that update,
lifted and folded over the documented spelling table, yields the documented typed value or an
AldyException; explicit parameters override the profile file's options; the two `--param` parsers
are the same function on sample inputs; the update is idempotent on its own results (write/load
round trip).  Not decided: YAML serialisation by the yaml library.
"""

import ast

from sa.cfg import cfg_of
from sa.fold import Evaluator, Obj, Raised, Unfoldable
from sa.guards import decide_with, find_calls, kind_name
from sa.loader import AnalysisError, call_name, calls_in, kwarg, walk_local

PROPERTY = "C18"
EXPLANATION = (
    "R1: who-reaches-update rule at the five parameter routes (every Profile(...)/Profile.load(...) call in "
    "genotype() forwards **params; Profile.__init__ assigns every default before self.update(kwargs); the dump "
    "route re-applies params; the command line forwards --param pairs). R2: Profile.update is lifted and "
    "folded over the documented spelling table for boolean, float, int and string parameters (true/false in "
    "any case, 1/0, native values, malformed strings, unknown names, None). R3: merge order in Profile.load. "
    "R4: both --param loops of __main__ folded on sample inputs must agree. R5: profile command stores the "
    "update's typed results under 'options', and update is idempotent on them."
)
ASSUMPTIONS = ["yaml.dump / yaml.safe_load round-trip native bool/int/float/str values (external library)"]

TRUE_SPELLINGS = ["true", "True", "TRUE", "1", True, 1]
FALSE_SPELLINGS = ["false", "False", "FALSE", "0", False, 0]
MALFORMED_BOOL = ["garbage", "maybe", "falsee", "truee", "nope!"]


def star_kwargs(call: ast.Call):
    return [k.value for k in call.keywords if k.arg is None]


def merge_sources(expr):
    """Ordered sources of a dict merge: dict(A, **B) -> [A, B]; {**A, **B} -> [A, B]; name -> [name]."""
    if isinstance(expr, ast.Call) and call_name(expr) == "dict":
        out = []
        for a in expr.args:
            out += merge_sources(a)
        for k in expr.keywords:
            if k.arg is None:
                out += merge_sources(k.value)
            else:
                out.append(k.value)
        return out
    if isinstance(expr, ast.Dict) and all(k is None for k in expr.keys):
        out = []
        for v in expr.values:
            out += merge_sources(v)
        return out
    if isinstance(expr, ast.DictComp):
        # {k: v for k, v in X.items() ...}
        g = expr.generators[0].iter
        if isinstance(g, ast.Call) and isinstance(g.func, ast.Attribute) and g.func.attr == "items":
            return merge_sources(g.func.value)
    return [expr]


def r1(repo, res):
    # (a) Profile.__init__: all defaults before the update, update(kwargs) on every path
    f = repo.func("profile::Profile.__init__")
    res.analysed(f)
    c = cfg_of(f)
    kw = f.args.kwarg.arg if f.args.kwarg else None
    ups = [x for x in find_calls(f, "update") if isinstance(x.func, ast.Attribute)
           and isinstance(x.func.value, ast.Name) and x.func.value.id == "self"]
    if not ups or kw is None:
        res.ob("C18.R1", f, f, False, "Profile.__init__ ends with self.update(<**kwargs>)", "no such call",
               key="init-update")
        return
    up = ups[-1]
    un = c.node_of(up)
    ok_arg = len(up.args) == 1 and isinstance(up.args[0], ast.Name) and up.args[0].id == kw
    res.ob("C18.R1", f, up, ok_arg and c.dominates(un, c.exit),
           expected=f"self.update({kw}) with the constructor's keyword arguments on every path",
           found=ast.unparse(up), key="init-update")
    defaults = [n for n in walk_local(f) if isinstance(n, ast.Assign) and len(n.targets) == 1
                and isinstance(n.targets[0], ast.Attribute) and isinstance(n.targets[0].value, ast.Name)
                and n.targets[0].value.id == "self"]
    res.floor("C18.R1", "parameter defaults in Profile.__init__", len(defaults), 30)
    late = [d for d in defaults if not c.dominates(c.node_of(d), un)]
    res.ob("C18.R1", f, late[0] if late else f, not late,
           expected="every parameter default is assigned before self.update(kwargs) (a later default would overwrite the user's value)",
           found="ok" if not late else "assigned after/around the update: " + ", ".join(ast.unparse(d.targets[0]) for d in late),
           key="defaults-before-update")

    # (b) genotype(): every Profile construction forwards **params; dump route re-applies them
    g = repo.func("genotype::genotype")
    res.analysed(g)
    pk = g.args.kwarg.arg if g.args.kwarg else None
    if pk is None:
        res.ob("C18.R1", g, g, False, "genotype() takes **params", "no ** parameter", key="genotype-kwargs")
        return
    ctor = [x for x in calls_in(g) if call_name(x) in ("Profile", "Profile.load")]
    res.floor("C18.R1", "Profile constructions in genotype()", len(ctor), 3)
    for x in ctor:
        fw = any(isinstance(v, ast.Name) and v.id == pk for v in star_kwargs(x))
        res.ob("C18.R1", g, x, fw, expected=f"forwards **{pk}", found=ast.unparse(x)[:120],
               clause="parameters set through the programming interface / command line reach the profile",
               key="forward:" + call_name(x) + ":" + (ast.unparse(x.args[0]) if x.args else ""))
    cg = cfg_of(g)
    reapply = [x for x in find_calls(g, "update") if x.args and isinstance(x.args[0], ast.Name)
               and x.args[0].id == pk and isinstance(x.func, ast.Attribute)]
    removed = cg.prune(decide_with({kind_name(g): "dump", "cn_solution": None}))
    stage = find_calls(g, "estimate_cn")
    ok = bool(reapply) and bool(stage) and all(
        cg.is_reachable(cg.node_of(r), removed) for r in reapply) and any(
        cg.dominates(cg.node_of(r), cg.node_of(stage[0]), removed) for r in reapply)
    res.ob("C18.R1", g, reapply[0] if reapply else g, ok,
           expected=f"on the dump route profile.update({pk}) runs before the first stage",
           found="ok" if ok else "no dominating re-application of the parameters for kind == 'dump'",
           key="dump-reapply")
    # the re-application must come after the dump reader's resets: Sample(...) construction precedes it
    smp = [x for x in calls_in(g) if call_name(x) == "sam.Sample"]
    if reapply and smp:
        ok2 = all(any(cg.dominates(cg.node_of(s), cg.node_of(r), removed) for s in smp
                      if cg.is_reachable(cg.node_of(s), removed)) for r in reapply)
        res.ob("C18.R1", g, reapply[0], ok2, expected="re-application happens after the sample (and its dump profile) is loaded",
               found="ok" if ok2 else "update precedes Sample construction", key="dump-reapply-order")

    # (c) command line: _genotype.run forwards the --param pairs into genotype(**...)
    run = repo.func("__main__::_genotype.run")
    res.analysed(run)
    gc = [x for x in calls_in(run) if call_name(x) == "genotype"]
    ok = False
    found = "no genotype(...) call"
    if gc:
        srcs = [ast.unparse(s) for v in star_kwargs(gc[0]) for s in merge_sources(v)]
        found = "** sources: " + ", ".join(srcs)
        ok = "params" in srcs
    res.ob("C18.R1", run, gc[0] if gc else run, ok, expected="genotype(..., **<pairs parsed from --param>)",
           found=found, key="cli-forward")

    # (d) profile command: params handed to get_sam_profile_data(params=...)
    mn = repo.func("__main__::main")
    res.analysed(mn)
    pc = find_calls(mn, "get_sam_profile_data")
    ok = bool(pc) and kwarg(pc[0], "params") is not None and ast.unparse(kwarg(pc[0], "params")) == "params"
    res.ob("C18.R1", mn, pc[0] if pc else mn, ok, expected="Profile.get_sam_profile_data(..., params=params)",
           found=ast.unparse(pc[0])[:140] if pc else "no call", key="profile-cmd-forward")


def lift_update(repo):
    f = repo.func("profile::Profile.update")
    if len(f.args.args) != 2:
        raise AnalysisError("Profile.update no longer takes (self, mapping)")
    return f, f.args.args[0].arg, f.args.args[1].arg


DEFAULTS = dict(phase=True, male=False, gap=0.0, cn_max=20, sam_mappy_preset="map-hifi", cn_solution=None,
                min_quality=10, threshold=0.5)


def call_update(f, selfname, argname, mapping):
    me = Obj(**dict(DEFAULTS))
    ev = Evaluator({selfname: me, argname: dict(mapping)})
    kind, val = ev.run(f.body)
    return kind, val, me


def r2(repo, res):
    f, sn, an = lift_update(repo)
    res.analysed(f)
    cases = []  # (param, given, expected value | 'raise' | 'ignore')
    for p in ("phase", "male"):
        for s in TRUE_SPELLINGS:
            cases.append((p, s, True))
        for s in FALSE_SPELLINGS:
            cases.append((p, s, False))
        for s in MALFORMED_BOOL:
            cases.append((p, s, "raise"))
    cases += [("gap", "0.5", 0.5), ("gap", 0.5, 0.5), ("gap", "1", 1.0), ("gap", 1, 1.0), ("gap", "abc", "raise"),
              ("gap", "1e-1", 0.1),
              ("cn_max", "5", 5), ("cn_max", 5, 5), ("cn_max", "x", "raise"),
              ("min_quality", "0", 0), ("threshold", "0", 0.0),
              ("sam_mappy_preset", "map-ont", "map-ont"),
              ("cn_solution", ["1", "1"], ["1", "1"]),
              ("no_such_parameter", "1", "ignore"), ("phase", None, "ignore"), ("gap", None, "ignore")]
    n_ok = 0
    for p, given, exp in cases:
        try:
            kind, val, me = call_update(f, sn, an, {p: given})
        except Unfoldable as e:
            res.err("C18.R2", f"Profile.update is outside the folding language: {e}")
            return
        if exp == "raise":
            ok = kind == "raise" and val == "AldyException"
            found = f"{kind} {val!r}"
            want = "AldyException"
        elif exp == "ignore":
            ok = kind == "return" and val == {} and me.__dict__ == DEFAULTS
            found = f"{kind} {val!r}; object {'unchanged' if me.__dict__ == DEFAULTS else 'changed'}"
            want = "ignored: nothing set, nothing returned"
        else:
            got = me.__dict__.get(p)
            ok = (kind == "return" and got == exp and type(got) is type(exp)
                  and isinstance(val, dict) and val.get(p) == exp and type(val.get(p)) is type(exp))
            found = f"{kind}; attribute = {got!r} ({type(got).__name__}); returned {val!r}"
            want = f"{exp!r} ({type(exp).__name__}) set and returned"
        n_ok += ok
        res.ob("C18.R2", f, f"update({{{p!r}: {given!r}}})", ok, expected=want, found=found,
               clause="booleans accept true/false in any letter case, 1/0 and real booleans; numbers are parsed as "
                      "numbers; unknown names are ignored and malformed values are rejected with an error",
               key=f"{p}={given!r}")
    res.count("C18.R2:spellings folded", len(cases))


def r3(repo, res):
    f = repo.func("profile::Profile.load")
    res.analysed(f)
    pk = f.args.kwarg.arg if f.args.kwarg else None
    rets = [n for n in walk_local(f) if isinstance(n, ast.Return) and isinstance(n.value, ast.Call)
            and call_name(n.value) == "Profile"]
    res.floor("C18.R3", "Profile(...) returns in Profile.load", len(rets), 1)
    for r in rets:
        srcs = []
        for v in star_kwargs(r.value):
            srcs += merge_sources(v)
        txt = [ast.unparse(s) for s in srcs]
        opt = [i for i, t in enumerate(txt) if "options" in t]
        par = [i for i, t in enumerate(txt) if t == pk]
        ok = bool(opt) and bool(par) and max(opt) < min(par)
        res.ob("C18.R3", f, r.value, ok,
               expected="keyword merge lists the file's options first and the explicit parameters last (later wins)",
               found="merge order: " + " , ".join(txt),
               clause="explicit parameters override the options section of a profile file; both reach the typed update",
               key="load-merge-order")
        # explicit keyword arguments of the same call must not collide with user parameters silently
    # options section must come from the loaded profile
    c = cfg_of(f)
    res.ob("C18.R3", f, f, c.is_reachable(c.node_of(rets[0])) if rets else False,
           expected="constructor call reachable", found="ok", key="load-reachable")


def fold_param_loop(loop: ast.For, params_in):
    """Lift `for pl in args.param: for p in pl: ...` and fold it on a concrete option list."""
    me = Evaluator({"args.param": params_in})
    me.locals["params"] = {}
    kind, val = me.run([loop])
    return kind, val, me.locals.get("params")


def r4(repo, res):
    loops = []
    for ref in ("__main__::main", "__main__::_genotype.run"):
        f = repo.func(ref)
        res.analysed(f)
        for n in walk_local(f):
            if isinstance(n, ast.For) and ast.unparse(n.iter) == "args.param":
                loops.append((ref, f, n))
    res.floor("C18.R4", "--param loops", len(loops), 2)
    inputs = [
        ([["a-b=1", "gap=0.1"]], ("fall", {"a_b": "1", "gap": "0.1"})),
        ([["x=y=z"]], ("fall", {"x": "y=z"})),
        ([["phase=false"], ["min-coverage=3"]], ("fall", {"phase": "false", "min_coverage": "3"})),
        ([["novalue"]], ("raise", None)),
        ([["k="]], ("fall", {"k": ""})),
    ]
    tables = []
    for ref, f, loop in loops:
        tab = []
        for inp, (ekind, eparams) in inputs:
            try:
                kind, val, params = fold_param_loop(loop, inp)
            except Unfoldable as e:
                res.err("C18.R4", f"--param loop in {ref} is outside the folding language: {e}")
                return
            ok = kind == ekind and (ekind == "raise" and val == "AldyException" or params == eparams)
            tab.append((kind, val if kind == "raise" else params))
            res.ob("C18.R4", f, f"--param {inp}", ok,
                   expected=f"{ekind} {eparams if eparams is not None else 'AldyException'}",
                   found=f"{kind} {val if kind == 'raise' else params}",
                   clause="split on the first '=', '-' -> '_' in names, error without '='",
                   key=f"{ref}|{inp}")
        tables.append(tab)
    if len(tables) >= 2:
        same = all(t == tables[0] for t in tables[1:])
        res.ob("C18.R4", loops[0][1], "sibling --param parsers", same, expected="identical tables", found="agree" if same else "differ",
               key="siblings-agree")


def r5(repo, res):
    f = repo.func("profile::Profile.get_sam_profile_data")
    res.analysed(f)
    ups = [x for x in find_calls(f, "update") if isinstance(x.func, ast.Attribute)
           and isinstance(x.func.value, ast.Call) and call_name(x.func.value) == "Profile"]
    ok = False
    found = "no Profile(...).update(params) call"
    store = None
    if ups:
        u = ups[0]
        # for k, v in <update result>.items(): d["options"][k] = v
        for n in walk_local(f):
            if isinstance(n, ast.For) and u in list(ast.walk(n.iter)):
                st = [s for s in n.body if isinstance(s, ast.Assign) and "options" in ast.unparse(s.targets[0])]
                if st and isinstance(n.target, ast.Tuple) and len(n.target.elts) == 2:
                    k, v = [e.id for e in n.target.elts]
                    s = st[0]
                    ok = (ast.unparse(s.value) == v and ast.unparse(s.targets[0]).endswith(f"[{k}]")
                          and ast.unparse(u.args[0]) == "params")
                    found = ast.unparse(s)
                    store = s
    res.ob("C18.R5", f, store if store is not None else f, ok,
           expected="d['options'][k] = v for k, v in Profile(...).update(params).items()  (typed values are written)",
           found=found, clause="a profile written by the profile command carries the same parameter values", key="options-written")
    # idempotence of the typed update on its own results
    uf, sn, an = lift_update(repo)
    for p, given in [("phase", "false"), ("phase", "TRUE"), ("male", "1"), ("gap", "0.3"), ("cn_max", "7"),
                     ("sam_mappy_preset", "map-ont")]:
        try:
            k1, v1, _ = call_update(uf, sn, an, {p: given})
            if k1 != "return":
                res.ob("C18.R5", uf, f"round trip {p}={given!r}", False, "typed value", f"{k1} {v1}", key=f"rt|{p}={given!r}")
                continue
            k2, v2, me2 = call_update(uf, sn, an, dict(v1))
        except Unfoldable as e:
            res.err("C18.R5", f"cannot fold Profile.update: {e}")
            return
        ok = k2 == "return" and v2 == v1 and all(type(v2[x]) is type(v1[x]) for x in v1)
        res.ob("C18.R5", uf, f"round trip {p}={given!r}", ok, expected=f"update(update(x)) == update(x) == {v1}",
               found=f"{k2} {v2}", key=f"rt|{p}={given!r}")
    # Profile.load hands prof['options'] to the constructor (checked in R3) -- make sure the key agrees
    lf = repo.func("profile::Profile.load")
    wkey = any(isinstance(n, ast.Constant) and n.value == "options" for n in ast.walk(lf))
    res.ob("C18.R5", lf, lf, wkey, expected="reader and writer use the same section key 'options'",
           found="ok" if wkey else "Profile.load does not read 'options'", key="options-key")


def run(repo, res):
    r1(repo, res)
    r2(repo, res)
    r3(repo, res)
    r4(repo, res)
    r5(repo, res)


MUTANTS = [
    dict(name="R2 original defect (two literal spellings)", module="profile", expect="C18.R2",
         old="""                            if isinstance(v, str):
                                if v.lower() in ["true", "1"]:
                                    self.__dict__[n] = True
                                elif v.lower() in ["false", "0"]:
                                    self.__dict__[n] = False
                                else:
                                    raise ValueError(v)
                            else:
                                self.__dict__[n] = bool(v)""",
         new="""                            self.__dict__[n] = not (v in ["False", "0"])"""),
    dict(name="R2 case-sensitive", module="profile", expect="C18.R2",
         old='if v.lower() in ["true", "1"]:', new='if v in ["true", "1"]:'),
    dict(name="R2 garbage accepted as False", module="profile", expect="C18.R2",
         old="""                                else:
                                    raise ValueError(v)""",
         new="""                                else:
                                    self.__dict__[n] = False"""),
    dict(name="R2 bool(str) for strings", module="profile", expect="C18.R2",
         old="if isinstance(v, str):\n                                if v.lower()", new="if False:\n                                if v.lower()"),
    dict(name="R2 numbers kept as strings", module="profile", expect="C18.R2",
         old="self.__dict__[n] = typ(v)", new="self.__dict__[n] = v"),
    dict(name="R2 conversion error not turned into AldyException", module="profile", expect="C18.R2",
         old="except (ValueError, TypeError):", new="except (KeyError,):"),
    dict(name="R2 returned mapping holds raw value", module="profile", expect=["C18.R2", "C18.R5"],
         old="params[n] = self.__dict__[n]", new="params[n] = v"),
    dict(name="R1 genotype drops **params for user structure", module="genotype", expect="C18.R1",
         old='profile = Profile("user_provided", cn_solution=cn_solution, **params)',
         new='profile = Profile("user_provided", cn_solution=cn_solution)'),
    dict(name="R1 dump route does not re-apply", module="genotype", expect="C18.R1",
         old='    if kind == "dump":\n        profile.update(params)', new='    if kind == "dumpx":\n        profile.update(params)'),
    dict(name="R1 default assigned after update", module="profile", expect="C18.R1",
         old="        self.update(kwargs)\n", new="        self.update(kwargs)\n        self.indelpost = True\n"),
    dict(name="R3 file options override explicit parameters", module="profile", expect="C18.R3",
         old='**dict(prof.get("options", {}), **params),', new='**dict(params, **prof.get("options", {})),'),
    dict(name="R3 options dropped", module="profile", expect="C18.R3",
         old='**dict(prof.get("options", {}), **params),', new='**params,'),
    dict(name="R4 split on every '='", module="__main__", expect="C18.R4", count=2,
         old='k, v = p.split("=", 1)', new='k, v = p.split("=")[:2]'),
    dict(name="R4 one parser stops normalising names", module="__main__", expect="C18.R4",
         old="""                        k, v = p.split("=", 1)
                        params[k.replace("-", "_")] = v
            try:""",
         new="""                        k, v = p.split("=", 1)
                        params[k] = v
            try:"""),
    dict(name="R5 profile command stores raw strings", module="profile", expect="C18.R5",
         old='for k, v in Profile("").update(params).items():', new="for k, v in params.items():"),
    # benign
    dict(name="benign: casefold", module="profile", kind="benign", count=2, old="v.lower()", new="v.casefold()"),
    dict(name="benign: merge with dict display", module="profile", kind="benign",
         old='**dict(prof.get("options", {}), **params),', new='**{**prof.get("options", {}), **params},'),
    dict(name="benign: tuple instead of list", module="profile", kind="benign",
         old='if v.lower() in ["true", "1"]:', new='if v.lower() in ("true", "1"):'),
]
