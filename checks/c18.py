"""
C18 -- model parameters take the values the user gave, through every route.

Decided: every route (command line, programming interface, profile file, profile command, dump
replay) reaches the one typed update `Profile.update`; the conversion branch of that update,
lifted and folded over the documented spelling table, yields the documented typed value or an
AldyException; explicit parameters override the profile file's options; the two `--param` parsers
are the same function on sample inputs; the update is idempotent on its own results (write/load
round trip).  Not decided: YAML serialisation by the yaml library.
"""

import ast
import collections
import copy
import os.path

from sa.cfg import cfg_of
from sa.fold import Evaluator, Lifted, Obj, Raised, Unfoldable
from sa.guards import decide_with, find_calls, kind_name
from sa.loader import AnalysisError, call_name, calls_in, kwarg, walk_local

PROPERTY = "C18"
EXPLANATION = (
    "The Profile class is lifted whole (constructor, update, load, get_sam_profile_data, module helpers; file system and "
    "YAML replaced by an in-memory table; class-level and module-level tables are state of the run): every parameter with a "
    "default x every documented spelling of its type through update and through the constructor, documented default = "
    "folded default; options section through load (every spelling, explicit beats file, unknown ignored, same file loaded "
    "twice); profile command -> document -> load round trip after a history of unrelated updates. genotype() folded whole "
    "on the routes (input kind x structure given): the profile handed to the loader and the one the stages see carry the "
    "typed values, the dump route re-applies them. main() folded whole on an argparse model (--param pairs of both "
    "sub-commands, repeated flags; a model of PyYAML's scalar resolver stands in for yaml.safe_load)."
)
ASSUMPTIONS = ["yaml.dump / yaml.safe_load round-trip native bool/int/float/str values (external library)"]

TRUE_SPELLINGS = ["true", "True", "TRUE", "1", True, 1]
FALSE_SPELLINGS = ["false", "False", "FALSE", "0", False, 0]
MALFORMED_BOOL = ["garbage", "maybe", "falsee", "truee", "nope!"]


def star_kwargs(call: ast.Call):
    return [k.value for k in call.keywords if k.arg is None]


def merge_sources(expr):
    """Ordered sources of a dict merge: dict(A, **B) -> [A, B]; {**A, **B} -> [A, B]; name -> [name]."""
    if isinstance(expr, ast.Call) and call_name(expr) == "dict":
        out = []
        for a in expr.args:
            out += merge_sources(a)
        for k in expr.keywords:
            if k.arg is None:
                out += merge_sources(k.value)
            else:
                out.append(k.value)
        return out
    if isinstance(expr, ast.Dict) and all(k is None for k in expr.keys):
        out = []
        for v in expr.values:
            out += merge_sources(v)
        return out
    if isinstance(expr, ast.DictComp):
        # {k: v for k, v in X.items() ...}
        g = expr.generators[0].iter
        if isinstance(g, ast.Call) and isinstance(g.func, ast.Attribute) and g.func.attr == "items":
            return merge_sources(g.func.value)
    return [expr]


def r1(repo, res):
    # (b) genotype() folded whole on every input route: the profile the stages see carries the typed values of the
    #     parameters given to genotype(), whatever built or restored that profile
    from checks._genotype import GenotypeModel, Scenario, events

    g = repo.func("genotype::genotype")
    res.analysed(g)
    gm = GenotypeModel(repo)
    given = {"gap": "0.3", "phase": "FALSE", "min_avg_coverage": "0.5", "max_minor_solutions": "3", "debug_novel": "true",
             "display_format": "TRUE", "cn_max": "7", "minor_add": 2, "no_such_parameter": "x"}
    typed = {"gap": 0.3, "phase": False, "min_avg_coverage": 0.5, "max_minor_solutions": 3, "debug_novel": True, "display_format": True,
             "cn_max": 7, "minor_add": 2.0}
    routes = [("sam", None), ("sam", ["1", "2"]), ("dump", None), ("dump", ["1", "2"]), ("vcf", None), ("pscan", None), ("", None)]
    for kind, user_cn in routes:
        label = f"kind={kind!r}" + (", structure given" if user_cn else "")
        try:
            k, v, trace, printed = gm.run(Scenario(kind=kind, avg_coverage=1.0, args=dict(output_file=None, cn_solution=user_cn), params=dict(given),
                                                   profile_options={"gap": "0.1", "minor_miss": "2.5"}))
        except Unfoldable as e:
            res.err("C18.R1", f"genotype() outside the folding language: {e}")
            return
        cn_ev = events(trace, "estimate_cn")
        mn_ev = events(trace, "estimate_minor")
        if k != "return" or len(cn_ev) != 1:
            res.ob("C18.R1", g, g, False, expected=f"{label}: the run completes with the given parameters (min_avg_coverage=0.5 admits depth 1.0)",
                   found=f"{k} {str(v)[:80]}", clause="every documented model parameter set through ... the programming interface ... takes exactly the given value",
                   key=f"route:{label}")
            continue
        seen = cn_ev[0][5]["profile"]
        wrong = {p_: seen.get(p_) for p_, t in typed.items() if not (seen.get(p_) == t and type(seen.get(p_)) is type(t))}
        ok = not wrong and len(mn_ev) == 1 and mn_ev[0][2] == 3
        res.ob("C18.R1", g, g, ok, expected=f"{label}: the stages see {typed} (typed), and the minor stage is asked for 3 solutions",
               found="ok" if ok else f"differs: {wrong}; max_solutions={mn_ev[0][2] if mn_ev else None}",
               clause="every documented model parameter set through the command line, the programming interface or the options section of a profile file "
                      "takes exactly the given value with the documented type", key=f"route:{label}")
        sm = events(trace, "Sample")
        at_load = sm[0][7] if sm else None
        if kind != "dump":
            wrong_l = {p_: (at_load or {}).get(p_) for p_, t in typed.items() if not ((at_load or {}).get(p_) == t and type((at_load or {}).get(p_)) is type(t))}
            res.ob("C18.R1", g, g, at_load is not None and not wrong_l,
                   expected=f"{label}: the profile handed to the sample loader already carries the given parameters (loading reads vcf_sample_idx, quality and mapping thresholds, ...)",
                   found="ok" if at_load is not None and not wrong_l else f"at load time: {wrong_l if at_load is not None else 'no profile'}", key=f"route-at-load:{label}")
        if kind in ("sam", "") and not user_cn:
            okf = seen.get("minor_miss") == 2.5 and seen.get("gap") == 0.3
            res.ob("C18.R1", g, g, okf, expected=f"{label}: options of the profile file apply (minor_miss 2.5) unless given explicitly (gap 0.3 over the file's 0.1)",
                   found=f"minor_miss={seen.get('minor_miss')!r}, gap={seen.get('gap')!r}", key=f"route-options:{label}")
        if user_cn and kind != "dump":
            res.ob("C18.R1", g, g, seen.get("cn_solution") == user_cn, expected=f"{label}: the given structure reaches the profile", found=str(seen.get("cn_solution")),
                   key=f"route-structure:{label}")


# documented type of every model parameter (docstrings of Profile.__init__); the reference for any later change
TYPES = dict(gap=float, neutral_value=float, threshold=float, min_coverage=float, min_quality=int, min_mapq=int, phase=bool,
             sam_long_reads=bool, sam_mappy_preset=str, cn_max=int, cn_pce_penalty=float, cn_diff=float, cn_fit=float,
             cn_parsimony=float, cn_fusion_left=float, cn_fusion_right=float, major_novel=float, minor_miss=float,
             minor_add=float, minor_phase=float, minor_phase_vars=int, male=bool, max_minor_solutions=int,
             display_format=bool, debug_probe=str, debug_novel=bool, min_avg_coverage=float, vcf_sample_idx=int, indelpost=bool)
NOT_PARAMETERS = {"name", "cn_region", "data", "cn_solution"}
from checks._profile import _GR, ProfileModel  # noqa: E402


GENE = Obj(name="G", genome="hg19", regions=[{"e1": _GR("22", 10, 20)}])


def profile_doc(options=None):
    d = {"neutral": {"value": 10, "hg19": ["22", 100, 110]}, "G": {"e1": [7]}}
    if options is not None:
        d["options"] = dict(options)
    return d


_SEQ = [0]


def put(model, doc):
    """Store a profile document under a path no earlier load has seen (a file keeps its content during a process)."""
    _SEQ[0] += 1
    path = f"profile{_SEQ[0]}.yml"
    model.files[path] = doc
    return path


def spellings(typ):
    """(given, expected value | 'raise') for a parameter of the documented type."""
    if typ is bool:
        return [(s_, True) for s_ in TRUE_SPELLINGS] + [(s_, False) for s_ in FALSE_SPELLINGS] + [(s_, "raise") for s_ in MALFORMED_BOOL]
    if typ is float:
        return [("0.75", 0.75), (0.75, 0.75), ("3", 3.0), (3, 3.0), ("1e-1", 0.1), ("abc", "raise")]
    if typ is int:
        return [("5", 5), (5, 5), ("0", 0), ("x", "raise"), ("5.5", "raise")]
    return [("map-ont", "map-ont"), ("Map-ONT", "Map-ONT"), ("I223M;rs5", "I223M;rs5"), ("", "")]


def attempt(fn):
    try:
        return "return", fn()
    except Raised as r:
        return "raise", r.kind


def same(v, exp):
    return v == exp and type(v) is type(exp)


def r2(repo, res):
    uf = repo.func("profile::Profile.update")
    res.analysed(uf, repo.func("profile::Profile.__init__"))
    try:
        model = ProfileModel(repo)
        base = model.new("sample")
    except (Unfoldable, Raised) as e:
        res.err("C18.R2", f"Profile constructor is outside the folding language: {e}")
        return None
    defaults = {k: v for k, v in base.__dict__.items() if k not in NOT_PARAMETERS}
    res.floor("C18.R2", "model parameters with a default in Profile.__init__", len(defaults), 25)
    for k in sorted(set(defaults) - set(TYPES)):
        res.note(f"C18.R2: parameter {k} (default {defaults[k]!r}) is not in the documented-type table; its default's type is taken as documented")
    # the default stated in a parameter's docstring is the default it gets
    init = repo.func("profile::Profile.__init__")
    import re as _re

    stated = {}
    body = init.body
    for i, st in enumerate(body[:-1]):
        nxt = body[i + 1]
        if isinstance(st, ast.Assign) and isinstance(st.targets[0], ast.Attribute) and isinstance(nxt, ast.Expr) and isinstance(nxt.value, ast.Constant) \
                and isinstance(nxt.value.value, str):
            m_ = _re.search(r"Default:\s*`?([^\s`(]+)", nxt.value.value)
            if m_:
                stated[st.targets[0].attr] = m_.group(1).rstrip(".,").replace(",", "")
    mism = []
    for prm, txt in sorted(stated.items()):
        if prm not in defaults:
            continue
        dv = defaults[prm]
        try:
            doc = {"True": True, "False": False}.get(txt, None)
            if doc is None:
                doc = float(txt) if isinstance(dv, (int, float)) and not isinstance(dv, bool) else txt
            if (isinstance(doc, float) and abs(doc - float(dv)) > 1e-12) or (not isinstance(doc, float) and doc != dv):
                mism.append(f"{prm}: default {dv!r}, docstring says {txt}")
        except ValueError:
            continue
    res.ob("C18.R2", uf, "documented defaults", not mism and len(stated) >= 20,
           expected="every parameter's default equals the default its docstring states", found="ok" if not mism else "; ".join(mism[:3]) + f" ({len(stated)} docstrings read)",
           clause="every documented model parameter ... takes exactly the given value (and the documented default otherwise)", key="documented-defaults")
    n = 0
    for prm, dflt in sorted(defaults.items()):
        typ = TYPES.get(prm, type(dflt))
        res.ob("C18.R2", uf, f"default of {prm}", type(dflt) is typ,
               expected=f"default of the documented type {typ.__name__} (the update converts to the type of the current value)",
               found=f"{dflt!r} ({type(dflt).__name__})", clause="takes exactly the given value with the documented type", key=f"default-type:{prm}")
        bad = None
        try:
            for given, exp in spellings(typ):
                me = model.new("sample")
                kind, val = attempt(lambda: model.update(me, {prm: given}))
                n += 1
                if exp == "raise":
                    ok = kind == "raise" and val == "AldyException"
                else:
                    got = me.__dict__.get(prm)
                    ok = kind == "return" and same(got, exp) and isinstance(val, dict) and set(val) == {prm} and same(val[prm], exp)
                    others = {k_: v_ for k_, v_ in me.__dict__.items() if k_ != prm and k_ in defaults and not same(v_, defaults[k_])}
                    ok = ok and not others
                if not ok:
                    bad = bad or f"update({{{prm!r}: {given!r}}}): {kind} {val!r}, attribute {me.__dict__.get(prm)!r}; documented: {exp!r}"
                # programming interface: the constructor applies the same conversion
                kind2, me2 = attempt(lambda: model.new("sample", **{prm: given}))
                n += 1
                ok2 = (kind2 == "raise" and me2 == "AldyException") if exp == "raise" else (kind2 == "return" and same(me2.__dict__.get(prm), exp))
                if not ok2:
                    bad = bad or f"Profile(..., {prm}={given!r}): {kind2} {me2 if kind2 == 'raise' else me2.__dict__.get(prm)!r}; documented: {exp!r}"
        except Unfoldable as e:
            res.err("C18.R2", f"Profile.update is outside the folding language: {e}")
            return None
        res.ob("C18.R2", uf, f"spellings of {prm}", bad is None,
               expected=f"every spelling of a {typ.__name__} parameter gives the typed value (set and returned, nothing else touched) or AldyException when malformed",
               found=f"{len(spellings(typ))} spellings x 2 routes agree" if bad is None else bad,
               clause="booleans accept true/false in any letter case, 1/0 and real booleans; numbers are parsed as numbers; "
                      "malformed values are rejected with an error", key=f"spellings:{prm}")
    # unknown names and None are ignored
    try:
        me = model.new("sample")
        val = model.update(me, {"no_such_parameter": "1", "phase": None, "gap": None})
        ok = val == {} and all(same(me.__dict__[k], v) for k, v in defaults.items())
        me3 = model.new("sample")
        cs = model.update(me3, {"cn_solution": ["1", "1"]})
        ok = ok and me3.cn_solution == ["1", "1"] and cs == {"cn_solution": ["1", "1"]}
    except (Unfoldable, Raised) as e:
        res.err("C18.R2", f"Profile.update is outside the folding language: {e}")
        return None
    res.ob("C18.R2", uf, "unknown names / None", ok, expected="ignored: nothing set, nothing returned; cn_solution is taken as given", found="ok" if ok else str(val),
           clause="unknown names are ignored", key="unknown-ignored")
    res.count("C18.R2:spellings folded", n)
    return model, defaults


def r3(repo, res, model, defaults):
    """Options section of a profile file, with and without explicit parameters, through the folded Profile.load."""
    f = repo.func("profile::Profile.load")
    res.analysed(f)
    n = 0
    try:
        for prm, dflt in sorted(defaults.items()):
            typ = TYPES.get(prm, type(dflt))
            bad = None
            sp = spellings(typ)
            good = [(g, e) for g, e in sp if e != "raise"]
            for given, exp in sp:
                pth = put(model, profile_doc({prm: given}))
                kind, me = attempt(lambda: model.load(GENE, pth))
                n += 1
                ok = (kind == "raise" and me == "AldyException") if exp == "raise" else (kind == "return" and same(me.__dict__.get(prm), exp))
                if not ok:
                    bad = bad or f"options {{{prm}: {given!r}}}: {kind} {me if kind == 'raise' else me.__dict__.get(prm)!r}; documented: {exp!r}"
            # explicit parameter wins over the file
            (ga, ea), (gb, eb) = good[0], good[-1] if not same(good[-1][1], good[0][1]) else good[1]
            if typ is bool:
                (ga, ea), (gb, eb) = ("TRUE", True), ("false", False)
            for (fo, fe), (po, pe) in (((ga, ea), (gb, eb)), ((gb, eb), (ga, ea))):
                pth = put(model, profile_doc({prm: fo}))
                kind, me = attempt(lambda: model.load(GENE, pth, **{prm: po}))
                n += 1
                if not (kind == "return" and same(me.__dict__.get(prm), pe)):
                    bad = bad or f"options {{{prm}: {fo!r}}} + explicit {prm}={po!r}: {kind} {me if kind == 'raise' else me.__dict__.get(prm)!r}; the explicit value {pe!r} wins"
            res.ob("C18.R3", f, f"options section: {prm}", bad is None,
                   expected="options of a profile file take the documented typed value (or AldyException); explicit parameters override them",
                   found="agrees" if bad is None else bad,
                   clause="set through ... the options section of a profile file takes exactly the given value with the documented type", key=f"options:{prm}")
        # the same profile file loaded twice: what the first load was given explicitly does not show in the second
        pth = put(model, profile_doc({"minor_miss": "2.5"}))
        first = model.load(GENE, pth, gap="0.3", minor_miss="4")
        second = model.load(GENE, pth)
        okh = first.gap == 0.3 and first.minor_miss == 4.0 and same(second.gap, defaults["gap"]) and second.minor_miss == 2.5
        res.ob("C18.R3", f, "same file loaded twice", okh,
               expected="second load of the same file without explicit parameters: the file's options and the defaults (gap default, minor_miss 2.5)",
               found=f"first: gap={first.gap!r}, minor_miss={first.minor_miss!r}; second: gap={second.gap!r}, minor_miss={second.minor_miss!r}",
               clause="takes exactly the given value ... (histories)", key="load-twice")
        # a file without options, unknown option names, the data and the neutral region reach the object
        pth = put(model, profile_doc({"no_such_option": 1}))
        me = model.load(GENE, pth)
        me2 = model.load(GENE, put(model, profile_doc()), gap="0.25")
        ok = all(same(me.__dict__[k], v) for k, v in defaults.items() if k != "neutral_value") and me2.gap == 0.25 \
            and tuple(me.cn_region) == ("22", 100, 110) and me.neutral_value == 10 and me.data == model.files[pth]
    except Raised as e:
        res.ob("C18.R3", f, f, False, expected="a well-formed profile file loads", found=f"raises {e}", key="load-plain")
        return
    except Unfoldable as e:
        res.err("C18.R3", f"Profile.load is outside the folding language: {e}")
        return
    res.ob("C18.R3", f, f, ok, expected="unknown options are ignored; a file without options loads with defaults plus the explicit parameters; the neutral value and region come from the file",
           found="ok" if ok else f"{me.__dict__}", key="load-plain")
    res.count("C18.R3:loads folded", n)


def r4(repo, res):
    """Command line, folded whole (`__main__.main` on an argparse model): what follows `--param` reaches genotype() /
    the profile writer as keyword arguments, for one or several `--param` flags with one or several items each."""
    from checks._cli import fold_main

    mn = repo.func("__main__::main")
    res.analysed(mn, repo.func("__main__::_get_args"), repo.func("__main__::_genotype"))
    cases = [
        (["--param", "a-b=1", "gap=0.1"], {"a_b": "1", "gap": "0.1"}),
        (["--param", "x=y=z"], {"x": "y=z"}),
        (["--param", "phase=false", "--param", "min-coverage=3"], {"phase": "false", "min_coverage": "3"}),
        (["--param", "gap=0.1", "min-coverage=3", "--param", "phase=false", "debug-probe=I223M"],
         {"gap": "0.1", "min_coverage": "3", "phase": "false", "debug_probe": "I223M"}),
        (["--param", "k="], {"k": ""}),
        (["--param", "novalue"], None),
        ([], {}),
    ]
    tables = {}
    for sub, prefix in (("genotype", ["genotype", "in.bam", "-g", "g", "-p", "wgs"]), ("profile", ["profile", "in.bam"])):
        tab = []
        for extra, want in cases:
            try:
                k, v, calls = fold_main(repo, prefix + extra)
            except Unfoldable as e:
                res.err("C18.R4", f"command-line entry point outside the folding language: {e}")
                return
            hit = [c for c in calls if c[0] == sub]
            if sub == "genotype":
                got = {k_: v_ for k_, v_ in hit[0][2].items() if k_ not in GENOTYPE_ARGS} if hit else None
            else:
                got = hit[0][2].get("params") if hit else None
            tab.append(got)
            ok = (got == want) if want is not None else (got is None and k in ("return", "exit", "raise"))
            res.ob("C18.R4", mn, f"aldy {sub} ... {' '.join(extra)}", ok,
                   expected=(f"parameters {want} reach the {'genotyping call' if sub == 'genotype' else 'profile writer'}" if want is not None
                             else "an item without '=' is rejected: nothing is genotyped / written"),
                   found=f"{k}; parameters {got}",
                   clause="every documented model parameter set through the command line ... takes exactly the given value (split on the first '=', '-' -> '_' in names)",
                   key=f"{sub}|{' '.join(extra)}")
        tables[sub] = tab
    res.ob("C18.R4", mn, "sibling sub-commands", tables.get("genotype") == tables.get("profile"), expected="genotype and profile read --param alike",
           found="agree" if tables.get("genotype") == tables.get("profile") else f"{tables}", key="siblings-agree")


GENOTYPE_ARGS = {"gene_db", "sam_path", "profile_name", "output_file", "cn_region", "cn_solution", "report", "is_simple", "debug", "solver", "reference",
                 "multiple_warn_level", "genome"}


def r5(repo, res, model, defaults):
    """Profile command: written options are the typed values; loading the written document gives the same parameter
    values; the result does not depend on what was applied to other profile objects before (history)."""
    f = repo.func("profile::Profile.get_sam_profile_data")
    lf = repo.func("profile::Profile.load")
    res.analysed(f, lf)
    regions = lambda: {("G", "e1", 0): _GR("22", 10, 20)}  # noqa
    given, want = {}, {}
    for prm, dflt in sorted(defaults.items()):
        typ = TYPES.get(prm, type(dflt))
        good = [(g, e) for g, e in spellings(typ) if e != "raise" and isinstance(g, str) and not same(e, dflt)]
        if good:
            given[prm], want[prm] = good[0]
    bad = None
    try:
        # history: other profile objects were given other parameters first
        model.new("earlier", gap="0.3", male="1")
        model.update(model.new("earlier2"), {"cn_max": "7"})
        for subset in (dict(list(given.items())[:3]), given, {"phase": "FALSE"}, {}):
            doc = model.write("<illumina>", None, regions(), None, "hg19", dict(subset))
            exp = {k: want.get(k, False) for k in subset}
            opts = doc.get("options")
            if subset and not (isinstance(opts, dict) and set(opts) == set(exp) and all(same(opts[k], exp[k]) for k in exp)):
                bad = bad or f"profile command with {subset}: options written {opts}; the typed values {exp} are expected, nothing else"
            if not subset and opts:
                bad = bad or f"profile command without parameters wrote options {opts}"
            if not (doc.get("G") == {"e1": [10]} and isinstance(doc.get("neutral"), dict) and "value" in doc["neutral"] and "hg19" in doc["neutral"]):
                bad = bad or f"profile document lacks gene or neutral data: {doc}"
            written = copy.deepcopy({k: (list(v) if isinstance(v, tuple) else v) for k, v in doc.items()})
            written["neutral"] = {k: (list(v) if isinstance(v, (tuple, list)) else v) for k, v in doc["neutral"].items()}
            me = model.load(GENE, put(model, written))
            for k, dv in defaults.items():
                ev_ = exp.get(k, dv)
                if k == "neutral_value":
                    continue
                if not same(me.__dict__.get(k), ev_):
                    bad = bad or f"written with {subset} and loaded again: {k} = {me.__dict__.get(k)!r}, expected {ev_!r}"
    except Raised as e:
        res.ob("C18.R5", f, f, False, expected="the profile command writes well-formed parameters and the loader reads them back", found=f"raises {e}", key="round-trip")
        return
    except Unfoldable as e:
        res.err("C18.R5", f"profile writer / loader outside the folding language: {e}")
        return
    res.ob("C18.R5", f, f, bad is None,
           expected="the profile command writes exactly the typed values of the given parameters under 'options'; the loader reads the same values back; "
                    "parameters applied to other profile objects earlier do not leak in",
           found=f"{len(given)} parameters round-trip" if bad is None else bad,
           clause="a profile written by the profile command with parameters and loaded again carries the same parameter values", key="round-trip")


def run(repo, res):
    r1(repo, res)
    m = r2(repo, res)
    if m is None:
        return
    r3(repo, res, *m)
    r4(repo, res)
    r5(repo, res, *m)


MUTANTS = [
    dict(name="R2 original defect (two literal spellings)", module="profile", expect="C18.R2",
         old="""                            if isinstance(v, str):
                                if v.lower() in ["true", "1"]:
                                    self.__dict__[n] = True
                                elif v.lower() in ["false", "0"]:
                                    self.__dict__[n] = False
                                else:
                                    raise ValueError(v)
                            else:
                                self.__dict__[n] = bool(v)""",
         new="""                            self.__dict__[n] = not (v in ["False", "0"])"""),
    dict(name="R2 case-sensitive", module="profile", expect="C18.R2",
         old='if v.lower() in ["true", "1"]:', new='if v in ["true", "1"]:'),
    dict(name="R2 garbage accepted as False", module="profile", expect="C18.R2",
         old="""                                else:
                                    raise ValueError(v)""",
         new="""                                else:
                                    self.__dict__[n] = False"""),
    dict(name="R2 bool(str) for strings", module="profile", expect="C18.R2",
         old="if isinstance(v, str):\n                                if v.lower()", new="if False:\n                                if v.lower()"),
    dict(name="R2 numbers kept as strings", module="profile", expect="C18.R2",
         old="self.__dict__[n] = typ(v)", new="self.__dict__[n] = v"),
    dict(name="R2 conversion error not turned into AldyException", module="profile", expect="C18.R2",
         old="except (ValueError, TypeError):", new="except (KeyError,):"),
    dict(name="R2 returned mapping holds raw value", module="profile", expect=["C18.R2", "C18.R5"],
         old="params[n] = self.__dict__[n]", new="params[n] = v"),
    dict(name="R1 genotype drops **params for user structure", module="genotype", expect="C18.R1",
         old='profile = Profile("user_provided", cn_solution=cn_solution, **params)',
         new='profile = Profile("user_provided", cn_solution=cn_solution)'),
    dict(name="R1 dump route does not re-apply", module="genotype", expect="C18.R1",
         old='    if kind == "dump":\n        profile.update(params)', new='    if kind == "dumpx":\n        profile.update(params)'),
    dict(name="R1 default assigned after update", module="profile", expect=["C18.R2", "C18.R1"],
         old="        self.update(kwargs)\n", new="        self.update(kwargs)\n        self.indelpost = True\n"),
    dict(name="R3 file options override explicit parameters", module="profile", expect="C18.R3",
         old='**dict(prof.get("options", {}), **params),', new='**dict(params, **prof.get("options", {})),'),
    dict(name="R3 options dropped", module="profile", expect="C18.R3",
         old='**dict(prof.get("options", {}), **params),', new='**params,'),
    dict(name="R4 split on every '='", module="__main__", expect="C18.R4", count=2,
         old='k, v = p.split("=", 1)', new='k, v = p.split("=")[:2]'),
    dict(name="R4 one parser stops normalising names", module="__main__", expect="C18.R4",
         old="""                        k, v = p.split("=", 1)
                        params[k.replace("-", "_")] = v
            try:""",
         new="""                        k, v = p.split("=", 1)
                        params[k] = v
            try:"""),
    dict(name="R5 profile command stores raw strings", module="profile", expect="C18.R5",
         old='for k, v in Profile("").update(params).items():', new="for k, v in params.items():"),
    # benign
    dict(name="benign: casefold", module="profile", kind="benign", count=2, old="v.lower()", new="v.casefold()"),
    dict(name="benign: merge with dict display", module="profile", kind="benign",
         old='**dict(prof.get("options", {}), **params),', new='**{**prof.get("options", {}), **params},'),
    dict(name="benign: tuple instead of list", module="profile", kind="benign",
         old='if v.lower() in ["true", "1"]:', new='if v.lower() in ("true", "1"):'),
]
