"""
C17 -- a debug dump replays to the same result.

Decided: (R1) the tuple pickled by the dump writer and the tuple unpacked by the dump reader agree
position by position on the state component they carry; (R2) the value codecs (Counter <-> repeat,
phase list <-> fresh keys) are multiset / order preserving (round-trip folding of the two lifted
expressions); (R3) every Sample attribute that a stage, a writer or genotype() reads is in the
dump or derived from the gene; (R4) archive member names written match what the readers test
for, the dump is written only for alignment input under debug, parameters are re-applied.
Not decided: equality of the replayed genotyping result (run-time).
"""

import ast
import collections

from sa.cfg import cfg_of
from sa.fold import Evaluator, Obj, Raised, Unfoldable
from sa.guards import decide_with, find_calls, kind_name
from sa.loader import AnalysisError, call_name, calls_in, kwarg, walk_local

PROPERTY = "C17"
EXPLANATION = (
    "Writer/reader agreement tables: positional comparison of the pickled tuple in Sample._dump_alignments with "
    "the unpacked tuple in Sample._load_dump by root state component; the two value codecs are lifted and folded "
    "as a round trip on sample tables (multiset equality); completeness = set comparison between attributes of "
    "the sample read outside sam.py (or by _make_coverage) and the dumped components plus an explicit exemption "
    "table; member-name templates of writer and reader folded on sample names; guard facts of the dump call."
)
ASSUMPTIONS = ["pickle round-trips Python values (stdlib)", "tar/gzip preserve member names (external tools)"]

# attributes that need not be dumped, one reason each
EXEMPT = {
    "coverage": "rebuilt by _make_coverage from the dumped tables",
    "gene": "constructor argument (the gene database is reloaded)",
    "profile": "dumped (component 'profile')",
    "name": "dumped (component 'name')",
    "is_long_read": "only selects a warning text in genotype(); long-read evidence is in the dumped indel/fusion tables",
    "path": "input path, not state",
    "kind": "input kind, recomputed from the file",
    "genome": "taken from the gene",
    "_multi_sites": "derived from the gene alone",
    "phaseable": "derived from the gene alone",
    "reads": "optional debugging store, never read by stages",
}


def root(expr):
    """Root state component of a tuple element: self.X -> X ; name -> name ; comprehension / call -> root of
    the innermost iterated / wrapped object."""
    if isinstance(expr, ast.Attribute) and isinstance(expr.value, ast.Name) and expr.value.id == "self":
        return expr.attr
    if isinstance(expr, ast.Name):
        return expr.id
    if isinstance(expr, (ast.DictComp, ast.ListComp, ast.SetComp, ast.GeneratorExp)):
        return root(expr.generators[0].iter)
    if isinstance(expr, ast.Call):
        if isinstance(expr.func, ast.Attribute) and expr.func.attr in ("items", "values", "keys", "copy"):
            return root(expr.func.value)
        if expr.args:
            return root(expr.args[0])
    if isinstance(expr, ast.Starred):
        return root(expr.value)
    return ast.unparse(expr)


def writer_tuple(repo):
    f = repo.func("sam::Sample._dump_alignments")
    for c in calls_in(f):
        if call_name(c) == "pickle.dump" and c.args and isinstance(c.args[0], ast.Tuple):
            return f, c, c.args[0].elts
    raise AnalysisError("pickle.dump((...), fd) not found in Sample._dump_alignments")


def reader_tuple(repo):
    f = repo.func("sam::Sample._load_dump")
    for n in walk_local(f):
        if isinstance(n, ast.Assign) and isinstance(n.targets[0], ast.Tuple) and isinstance(n.value, ast.Call) \
                and call_name(n.value) == "pickle.load":
            return f, n, n.targets[0].elts
    raise AnalysisError("(...) = pickle.load(fd) not found in Sample._load_dump")


def r1(repo, res):
    wf, wc, w = writer_tuple(repo)
    rf, rn, r = reader_tuple(repo)
    res.analysed(wf, rf)
    res.floor("C17.R1", "dump tuple components", len(w), 8)
    res.ob("C17.R1", wf, wc.args[0], len(w) == len(r), expected=f"writer and reader tuples have the same length",
           found=f"writer {len(w)}, reader {len(r)}", key="length")
    # roles instead of local names: a table handed to the writer as its k-th table parameter must come back as the
    # k-th element the reader returns; a local of the reader that is stored into self.X afterwards has role X
    wparams = [a_.arg for a_ in wf.args.args[2:]]
    rets = [n for n in walk_local(rf) if isinstance(n, ast.Return) and isinstance(n.value, ast.Tuple)]
    ret_names = [ast.unparse(e) for e in rets[-1].value.elts] if rets else []

    def wrole(x):
        return f"table{wparams.index(x)}" if x in wparams else x

    def rrole(x):
        if x in ret_names:
            return f"table{ret_names.index(x)}"
        for n in walk_local(rf):
            if isinstance(n, ast.Assign) and isinstance(n.targets[0], ast.Attribute) and isinstance(n.targets[0].value, ast.Name) \
                    and n.targets[0].value.id == "self" and any(isinstance(y, ast.Name) and y.id == x for y in ast.walk(n.value)):
                return n.targets[0].attr
        return x

    for i, (a, b) in enumerate(zip(w, r)):
        ra, rb = wrole(root(a)), rrole(root(b))
        res.ob("C17.R1", wf, a, ra == rb,
               expected=f"position {i}: reader binds the component the writer stored",
               found=f"writer stores `{ra}` ({ast.unparse(a)[:50]}), reader binds `{rb}`",
               clause="the same sample name, profile, depth tables, phases, fusion and indel support are restored",
               key=f"position:{i}:{ra}")
    # the tables handed to the writer are the loader's results, in the loader's order
    init = repo.func("sam::Sample.__init__")
    res.analysed(init)
    dc = find_calls(init, "_dump_alignments")
    if dc:
        params = [a.arg for a in wf.args.args[2:]]
        args = [ast.unparse(a) for a in dc[0].args[1:]]
        mk = find_calls(init, "_make_coverage")
        margs = [ast.unparse(a) for a in mk[0].args] if mk else []
        res.ob("C17.R1", init, dc[0], params == args == margs,
               expected="the writer receives the same (reference table, variant table) pair, in the same order, as _make_coverage",
               found=f"writer params {params}, dump call args {args}, _make_coverage args {margs}", key="table-argument-order")
    rets = [n for n in walk_local(rf) if isinstance(n, ast.Return) and isinstance(n.value, ast.Tuple)]
    if rets:
        got = [rrole(ast.unparse(e)) for e in rets[-1].value.elts]
        want = [wrole(root(e)) for e in w[3:5]]
        res.ob("C17.R1", rf, rets[-1], got == want, expected=f"reader returns the restored tables in the order the writer received them {want}",
               found=str(got), key="reader-return-order")


def _find_assign(f, name):
    out = [n for n in walk_local(f) if isinstance(n, ast.Assign) and len(n.targets) == 1
           and ast.unparse(n.targets[0]) == name]
    return out


def r2(repo, res):
    wf, wc, w = writer_tuple(repo)
    rf, rn, r = reader_tuple(repo)
    funcs = {"Counter": collections.Counter, "collections.Counter": collections.Counter}
    samples = {
        "norm": {5: [(40, 40), (40, 40), (25, 6)], 6: [(40, 40)], 7: []},
        "muts": {(5, "A>G"): [(40, 40), (40, 35), (40, 40)], (9, "insT"): [(10, 6)]},
    }
    for i in (3, 4):
        comp = root(w[i])
        data = samples.get(comp, samples["norm"])
        try:
            stored = Evaluator({comp: data}, funcs=funcs).ev(w[i])
            rdef = _find_assign(rf, root(r[i]))
            rdef = [d for d in rdef if d is not rn]
            if not rdef:
                res.ob("C17.R2", rf, rn, False, expected=f"reader decodes `{root(r[i])}`", found="no decoding assignment",
                       key=f"codec:{comp}")
                continue
            back = Evaluator({root(r[i]): stored}).ev(rdef[-1].value)
        except (Unfoldable, Raised) as e:
            res.err("C17.R2", f"codec for `{comp}` is outside the folding language: {e}")
            continue
        same = (set(back) >= {k for k, v in data.items() if v} and
                all(sorted(back.get(k, [])) == sorted(v) for k, v in data.items()))
        res.ob("C17.R2", rf, rdef[-1], same,
               expected="decode(encode(table)) == table as a multiset per key",
               found="round trip ok" if same else f"{data} -> {dict(stored)} -> {back}",
               clause="per-position counters are restored", key=f"codec:{comp}")
    # phases
    ph = {"a": {1: "_"}, "b": {1: "_", 2: "A>G"}, "c": {3: "T>C", 4: "_"}}
    try:
        stored = Evaluator({"self.phases": ph}).ev(w[5])
        pdef = _find_assign(rf, "self.phases")
        if not pdef:
            res.ob("C17.R2", rf, rn, False, expected="reader restores self.phases", found="no assignment", key="codec:phases")
        else:
            back = Evaluator({root(r[5]): stored}).ev(pdef[-1].value)
            want = [v for v in ph.values() if len(v) > 1]
            ok = list(back.values()) == want and len(set(back)) == len(back)
            res.ob("C17.R2", rf, pdef[-1], ok,
                   expected="every multi-site phase record is restored, in order, under distinct keys",
                   found="round trip ok" if ok else f"{ph} -> {stored} -> {back}", key="codec:phases")
    except (Unfoldable, Raised) as e:
        res.err("C17.R2", f"phase codec is outside the folding language: {e}")


def r3(repo, res):
    wf, wc, w = writer_tuple(repo)
    dumped = {root(e) for e in w}
    # attributes of the sample read outside sam.py
    read_outside = {}
    for mname, m in repo.modules.items():
        if mname == "sam":
            continue
        for n in ast.walk(m.tree):
            if isinstance(n, ast.Attribute) and isinstance(n.ctx, ast.Load):
                b = n.value
                is_sample = (isinstance(b, ast.Attribute) and b.attr == "sam") or \
                            (isinstance(b, ast.Name) and b.id in ("sample",))
                if is_sample:
                    read_outside.setdefault(n.attr, n)
    res.floor("C17.R3", "sample attributes read by stages / genotype()", len(read_outside), 5)
    for a, n in sorted(read_outside.items()):
        ok = a in dumped or a in EXEMPT
        res.ob("C17.R3", n, n, ok,
               expected="a sample attribute consumed outside sam.py is dumped, or exempt with a reason",
               found=("dumped" if a in dumped else EXEMPT.get(a, "neither dumped nor exempt")),
               clause="the archive reproduces the run", key=f"attr:{a}")
    # inputs of the coverage construction
    mk = repo.func("sam::Sample._make_coverage")
    res.analysed(mk)
    params = {a.arg for a in mk.args.args}
    for n in walk_local(mk):
        if isinstance(n, ast.Attribute) and isinstance(n.value, ast.Name) and n.value.id == "self" \
                and isinstance(n.ctx, ast.Load):
            a = n.attr
            ok = a in dumped or a in EXEMPT
            res.ob("C17.R3", mk, n, ok, expected="every input of the coverage construction is dumped or gene-derived",
                   found=("dumped" if a in dumped else EXEMPT.get(a, "neither dumped nor exempt")), key=f"make_coverage:{a}")
    # normalisation input: the neutral depth table and the profile are dumped
    for need in ("_dump_cn", "profile", "_indel_sites", "_fusion_counter", "phases"):
        res.ob("C17.R3", wf, wc, need in dumped, expected=f"component `{need}` is part of the dump",
               found="present" if need in dumped else "absent", key=f"component:{need}")


def r4(repo, res):
    wf, wc, w = writer_tuple(repo)
    init = repo.func("sam::Sample.__init__")
    dc = find_calls(init, "_dump_alignments")
    if not dc:
        res.err("C17.R4", "dump call not found in Sample.__init__")
        return
    c = cfg_of(init)
    # only for alignment input under debug
    for env, want in [({"self.kind": "sam", "debug": "/tmp/d/S"}, True), ({"self.kind": "sam", "debug": None}, False),
                      ({"self.kind": "dump", "debug": "/tmp/d/S"}, False), ({"self.kind": "vcf", "debug": "/tmp/d/S"}, False)]:
        removed = c.prune(decide_with(env))
        got = c.is_reachable(c.node_of(dc[0]), removed)
        res.ob("C17.R4", init, dc[0], got == want,
               expected=f"dump written iff alignment input and debug set ({env} -> {want})", found=str(got),
               key=f"dump-guard:{env['self.kind']}:{bool(env['debug'])}")
    # member templates
    prefix_param = wf.args.args[1].arg
    try:
        pref = Evaluator({"debug": "/tmp/d/S", "gene.name": "G", "self.gene.name": "G"}).ev(dc[0].args[0])
    except (Unfoldable, Raised) as e:
        res.err("C17.R4", f"dump prefix expression is outside the folding language: {e}")
        return
    names = []
    for call in calls_in(wf):
        if call_name(call) in ("open", "gzip.open") and call.args:
            try:
                names.append(Evaluator({prefix_param: pref}).ev(call.args[0]))
            except (Unfoldable, Raised) as e:
                res.err("C17.R4", f"member name expression is outside the folding language: {e}")
    res.floor("C17.R4", "files written by the dump writer", len(names), 2)
    members = ["./" + n.split("/")[-1] for n in names]
    # reader tests
    rf = repo.func("sam::Sample._load_dump")
    dg = repo.func("sam::detect_genome")
    res.analysed(dg)

    def member_tests(f):
        out = []
        for n in ast.walk(f):
            if isinstance(n, ast.ListComp) and isinstance(n.generators[0].iter, ast.Call) \
                    and call_name(n.generators[0].iter).endswith("getnames") and n.generators[0].ifs:
                out.append((n.generators[0].target.id, n.generators[0].ifs[0]))
        return out

    for f, label, gene_specific in ((rf, "dump member", True), (dg, "genome marker", False)):
        tests = member_tests(f)
        if not tests:
            res.err("C17.R4", f"{label} test not found in {f.name}")
            continue
        var, test = tests[0]
        hits = [m for m in members if Evaluator({var: m, "self.gene.name": "G"}).ev(test)]
        other = [m for m in members if Evaluator({var: m, "self.gene.name": "H"}).ev(test)] if gene_specific else []
        ok = len(hits) == 1 and not other
        if gene_specific:
            # an archive of several genes, one name being a prefix of another (CYP3A4 / CYP3A43)
            dump_members = [m for m in members if m.endswith(".dump")]
            multi = dump_members + [m.replace(".G.", ".G3.") for m in dump_members] + [m.replace(".G.", ".XG.") for m in dump_members]
            for gname in ("G", "G3", "XG"):
                hs = [m for m in multi if Evaluator({var: m, "self.gene.name": gname}).ev(test)]
                if hs != [m.replace(".G.", f".{gname}.") for m in dump_members]:
                    ok = False
                    other = other + [f"gene {gname} matches {hs}"]
        res.ob("C17.R4", f, test, ok,
               expected=f"exactly one written member matches the reader's {label} test (and none for another gene)",
               found=f"written {members}; matches {hits}; matches for other gene {other}",
               clause="for every gene contained in the archive", key=f"member:{label}")
    # archive suffix
    mn = repo.func("__main__::_genotype")
    res.analysed(mn)
    tar = [c_ for c_ in ast.walk(mn) if isinstance(c_, ast.Call) and call_name(c_) == "os.system"]
    suffix_w = None
    if tar and isinstance(tar[0].args[0], ast.JoinedStr):
        txt = "".join(v.value if isinstance(v, ast.Constant) else "{}" for v in tar[0].args[0].values)
        if ".tar.gz" in txt:
            suffix_w = ".tar.gz"
    readers_ok = all(any(isinstance(n, ast.Call) and isinstance(n.func, ast.Attribute) and n.func.attr == "endswith"
                         and n.args and isinstance(n.args[0], ast.Constant) and n.args[0].value == ".tar.gz"
                         for n in ast.walk(f)) for f in (rf, dg))
    res.ob("C17.R4", mn, tar[0] if tar else mn, suffix_w == ".tar.gz" and readers_ok,
           expected="archive written as <debug>.tar.gz and recognised by that suffix in detect_genome and _load_dump",
           found=f"writer suffix {suffix_w}; readers test '.tar.gz': {readers_ok}", key="archive-suffix")
    # genome marker content: writer prints gene.genome, reader returns it as the genome
    wr = [c_ for c_ in calls_in(wf) if call_name(c_) == "print" and c_.args]
    res.ob("C17.R4", wf, wr[0] if wr else wf, bool(wr) and ast.unparse(wr[0].args[0]).endswith(".genome"),
           expected="the marker file holds the gene's genome build", found=ast.unparse(wr[0]) if wr else "no print",
           key="genome-marker-content")
    # parameters re-applied for dumps in genotype()
    g = repo.func("genotype::genotype")
    res.analysed(g)
    cg = cfg_of(g)
    pk = g.args.kwarg.arg if g.args.kwarg else "params"
    reapply = [x for x in find_calls(g, "update") if x.args and ast.unparse(x.args[0]) == pk]
    removed = cg.prune(decide_with({kind_name(g): "dump", "cn_solution": None}))
    stage = find_calls(g, "estimate_cn")
    ok = bool(reapply) and bool(stage) and any(cg.is_reachable(cg.node_of(r), removed) and
                                               cg.dominates(cg.node_of(r), cg.node_of(stage[0]), removed) for r in reapply)
    res.ob("C17.R4", g, reapply[0] if reapply else g, ok,
           expected="for a dump the user's parameters are re-applied to the restored profile before the first stage",
           found="ok" if ok else "missing", clause="with the same parameters", key="params-reapplied")


def r5(repo, res):
    """The replay goes through the same parameter/alias handling as the original run, and the restored neutral-depth
    table supports the consumer's access pattern."""
    g = repo.func("genotype::genotype")
    cg = cfg_of(g)
    stage = find_calls(g, "estimate_cn")
    st = [n for n in walk_local(g) if isinstance(n, ast.Assign) and ast.unparse(n.targets[0]).endswith(".do_copy_number")
          and isinstance(n.value, ast.Constant) and n.value.value is False]
    mc = [n for n in walk_local(g) if isinstance(n, ast.Assign) and ast.unparse(n.targets[0]).replace('"', "'") == "params['min_coverage']"]
    up = [x for x in find_calls(g, "update") if x.args and ast.unparse(x.args[0]) == (g.args.kwarg.arg if g.args.kwarg else "params")]
    for prof in ("exome", "wxs", "wes"):
        removed = cg.prune(decide_with({kind_name(g): "dump", "profile_name": prof, "cn_solution": None}))
        ok = bool(st) and bool(stage) and cg.is_reachable(cg.node_of(st[0]), removed) and cg.dominates(cg.node_of(st[0]), cg.node_of(stage[0]), removed)
        ok2 = bool(mc) and bool(up) and cg.is_reachable(cg.node_of(mc[0]), removed) and any(
            cg.dominates(cg.node_of(mc[0]), cg.node_of(u), removed) for u in up if cg.is_reachable(cg.node_of(u), removed))
        res.ob("C17.R5", g, st[0] if st else g, ok and ok2,
               expected=f"replaying an archive with profile {prof!r} applies the same alias handling as the original run "
                        "(copy-number calling off, min_coverage preset) before the parameters are re-applied and the first stage runs",
               found=f"copy-number switch applied: {ok}; min_coverage preset before the re-application: {ok2}",
               clause="as genotyping the original alignment file with the same parameters", key=f"alias-on-replay:{prof}")
    # neutral-depth table: writer -> reader -> consumer
    wf, wc, w = writer_tuple(repo)
    rf, rn, r = reader_tuple(repo)
    nf = repo.func("coverage::Coverage._normalize_coverage")
    idx = [i for i, e in enumerate(w) if root(e) == "_dump_cn"]
    cons = [n for n in walk_local(nf) if isinstance(n, ast.Assign) and "_cnv_coverage" in ast.unparse(n.value)
            and isinstance(n.value, ast.Call) and call_name(n.value) == "sum"]
    if not idx or not cons:
        res.err("C17.R5", "neutral-depth component or its consumer not found")
        return
    try:
        table = collections.defaultdict(int, {100: 4, 101: 5, 103: 2})  # position 102 has no read
        stored = Evaluator({"self._dump_cn": table, "self": Obj(_dump_cn=table)}, funcs={"Counter": collections.Counter}).ev(w[idx[0]])
        import pickle

        restored = pickle.loads(pickle.dumps(stored))
        me = Obj(_cnv_coverage=restored, profile=Obj(cn_region=Obj(start=100, end=105)))
        from sa.fold import single_defs

        v = Evaluator({"self": me}, defs=single_defs(nf)).ev(cons[0].value)
        ok, found = (v == 11), f"neutral depth over a region with an uncovered position: {v}"
    except Raised as e:
        ok, found = False, f"consumer raises {e.kind} on a restored table with an uncovered position"
    except Unfoldable as e:
        res.err("C17.R5", f"neutral table round trip outside folding language: {e}")
        return
    res.ob("C17.R5", wf, w[idx[0]], ok,
           expected="the restored neutral-depth table answers every position of the neutral region (uncovered positions read as 0)",
           found=found, clause="the same ... gene structures ... as genotyping the original alignment file", key="neutral-table-roundtrip")


def run(repo, res):
    r5(repo, res)
    r1(repo, res)
    r2(repo, res)
    r3(repo, res)
    r4(repo, res)


MUTANTS = [
    dict(name="R1 writer swaps fusion and indel tables", module="sam", expect="C17.R1",
         old="                    self._fusion_counter,\n                    self._indel_sites,  # TODO: remove",
         new="                    self._indel_sites,\n                    self._fusion_counter,"),
    dict(name="R1 reader swaps norm and muts", module="sam", expect="C17.R1",
         old="            self._dump_cn,\n            norm,\n            muts,\n            phases,",
         new="            self._dump_cn,\n            muts,\n            norm,\n            phases,"),
    dict(name="R1 writer drops fusion counters", module="sam", expect=["C17.R1", "C17.R3"],
         old="                    self._fusion_counter,\n                    self._indel_sites,  # TODO: remove",
         new="                    self._indel_sites,"),
    dict(name="R1+R3 fusion counters dropped on both sides", module="sam", expect="C17.R3",
         old="self._fusion_counter,\n", new="", count=2),
    dict(name="R2 writer stores set (loses multiplicity)", module="sam", expect="C17.R2",
         old="{p: Counter(q) for p, q in norm.items()},", new="{p: Counter(set(q)) for p, q in norm.items()},"),
    dict(name="R2 reader ignores counts", module="sam", expect="C17.R2",
         old="muts = {p: [q for q, n in c.items() for _ in range(n)] for p, c in muts.items()}",
         new="muts = {p: [q for q, n in c.items()] for p, c in muts.items()}"),
    dict(name="R2 phases keyed by constant (collide)", module="sam", expect="C17.R2",
         old='self.phases = {f"r{i}": v for i, v in enumerate(phases)}', new='self.phases = {"r": v for i, v in enumerate(phases)}'),
    dict(name="R3 stage reads an undumped attribute", module="cn", expect="C17.R3",
         old="        if coverage.sam._fusion_counter:", new="        if coverage.sam._fusion_counter and coverage.sam._dump_reads:"),
    dict(name="R4 reader looks for another suffix", module="sam", expect="C17.R4",
         old='if i.endswith(f".{self.gene.name}.dump")]', new='if i.endswith(f".{self.gene.name}.dmp")]'),
    dict(name="R4 writer drops gene from member name", module="sam", expect="C17.R4",
         old='self._dump_alignments(f"{debug}.{gene.name}", norm, muts)', new='self._dump_alignments(f"{debug}", norm, muts)'),
    dict(name="R4 reader matches any gene's dump", module="sam", expect="C17.R4",
         old='if i.endswith(f".{self.gene.name}.dump")]', new='if i.endswith(".dump")]'),
    dict(name="R4 params not re-applied for dumps", module="genotype", expect="C17.R4",
         old='    if kind == "dump":\n        profile.update(params)', new='    if kind == "dump":\n        pass'),
    dict(name="R4 dump also written when replaying a dump", module="sam", expect="C17.R4",
         old='            if self.kind == "sam" and debug:', new='            if debug:'),
    dict(name="R4 member matched by substring (seeded C17_2 shape)", module="sam", expect="C17.R4",
         old='if i.endswith(f".{self.gene.name}.dump")]', new='if i.endswith(".dump") and f".{self.gene.name}" in i]'),
    dict(name="R5 alias handling skipped for archives (seeded C17_1 shape)", module="genotype", expect=["C17.R5"],
         old='    if profile_name in ["exome", "wxs", "wes"]:', new='    if kind != "dump" and profile_name in ["exome", "wxs", "wes"]:'),
    dict(name="R5 neutral table pickled as a plain dict (seeded C17_3 shape)", module="sam", expect="C17.R5",
         old="                    self._dump_cn,\n                    {p: Counter(q) for p, q in norm.items()},", new="                    dict(self._dump_cn),\n                    {p: Counter(q) for p, q in norm.items()},"),
    # benign
    dict(name="benign: Counter via collections", module="sam", kind="benign", count=2,
         old="Counter(q)", new="Counter(list(q))"),
    dict(name="benign: reader uses repeat via multiplication", module="sam", kind="benign",
         old="norm = {p: [q for q, n in c.items() for _ in range(n)] for p, c in norm.items()}",
         new="norm = {p: [x for q, n in c.items() for x in [q] * n] for p, c in norm.items()}"),
]
