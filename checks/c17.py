"""
C17 -- a debug dump replays to the same result.

Decided: (R3) every Sample attribute that a stage, a writer or genotype() reads is in the dump or derived from the gene -- what the
archive holds is read off the payload the dump writer, folded whole on marker-valued state, hands to pickle; (R4) the constructor folded
whole: the dump is written once, on the loader's tables, for alignment input under debug only; (R5) original run vs replay through
genotype(), neutral-depth table through pickle and the normalisation routine; (R6) what runs between loader and dump writer leaves the
dumped state unchanged; (R7) writer -> reader -> coverage construction round trip; (R8) the archive route end to end on a file-system
model. The former syntactic rules R1 (positional agreement of the two tuples), R2 (codec pairs) and the member-template half of R4 are
retired: every armed edit of them is caught by R7 / R8.  Not decided: equality of the replayed genotyping result (run-time).
"""

import ast
import collections

from sa.cfg import cfg_of
from sa.fold import Evaluator, Obj, Raised, Unfoldable
from sa.guards import decide_with, find_calls, kind_name
from sa.loader import AnalysisError, call_name, calls_in, kwarg, walk_local

PROPERTY = "C17"
EXPLANATION = (
    "Completeness = set comparison between attributes of the sample read outside sam.py (or by _make_coverage) and the state the archive holds "
    "(read off the payload the dump writer, folded whole on marker-valued state, hands to pickle) plus an explicit exemption table. Whole folds: Sample.__init__ (the dump writer runs "
    "once, on the loader's tables, for alignment input under debug only); genotype() original run vs replay (alias presets, re-applied and "
    "default parameters); what runs between loader and dump writer leaves the dumped state unchanged; writer -> reader -> coverage "
    "construction round trip; the archive route on a file-system model (main --debug on an argparse model, archive members of three genes "
    "read back by detect_genome and _load_dump)."
)
ASSUMPTIONS = ["pickle round-trips Python values (stdlib)", "tar/gzip preserve member names (external tools)"]

# attributes that need not be dumped, one reason each
EXEMPT = {
    "coverage": "rebuilt by _make_coverage from the dumped tables",
    "gene": "constructor argument (the gene database is reloaded)",
    "profile": "dumped (component 'profile')",
    "name": "dumped (component 'name')",
    "is_long_read": "only selects a warning text in genotype(); long-read evidence is in the dumped indel/fusion tables",
    "path": "input path, not state",
    "kind": "input kind, recomputed from the file",
    "genome": "taken from the gene",
    "_multi_sites": "derived from the gene alone",
    "phaseable": "derived from the gene alone",
    "reads": "optional debugging store, never read by stages",
}


def full_profile(repo, **over):
    """A profile as the constructor of /repo makes it (every documented parameter with its default), with `over` on top."""
    from checks._profile import ProfileModel

    pm = getattr(repo, "_c17_pm", None)
    if pm is None:
        pm = ProfileModel(repo)
        repo.__dict__["_c17_pm"] = pm
    p_ = pm.new("stub", None, {})
    for k_, v_ in over.items():
        setattr(p_, k_, v_)
    return p_


def dumped_payload(repo, overrides=None):
    """The dump writer folded whole on a sample whose every data attribute (and both table arguments) carries a marker of its own:
    -> (writer function, payload handed to pickle.dump, {attribute / argument name: marker}). Which state the archive holds is read
    off the payload, not off the shape of the writer's source."""
    from sa.fold import Lifted, lift_module_helpers

    wf = repo.func("sam::Sample._dump_alignments")
    init = repo.func("sam::Sample.__init__")
    attrs = sorted({t.attr for n in walk_local(init) if isinstance(n, (ast.Assign, ast.AnnAssign))
                    for t in (n.targets if isinstance(n, ast.Assign) else [n.target])
                    if isinstance(t, ast.Attribute) and isinstance(t.value, ast.Name) and t.value.id == "self"} | {"coverage", "name", "profile"})
    mark = {a: f"@{a}@" for a in attrs}
    me = Obj(gene=Obj(name="G", genome="hg38"))
    for a in attrs:
        if a == "gene":
            continue
        if a == "name":
            me.name = mark[a]
        elif a == "profile":
            me.profile = full_profile(repo, marker=mark[a], cn_region=None)
        elif a == "phases":
            me.phases = {"r1": {1: mark[a], 2: "_"}, "single": {1: "_"}}   # (the writer may keep the records without their fragment names)
        else:
            setattr(me, a, collections.defaultdict(int, {mark[a]: 1}))
    for a, v_ in (overrides or {}).items():
        setattr(me, a, v_)
    params = [a_.arg for a_ in wf.args.args[2:]]
    tables = {p_: collections.defaultdict(list, {f"@{p_}@": [(1, 2), (1, 2)]}) for p_ in params}
    mark.update({p_: f"@{p_}@" for p_ in params})
    got = []
    io = {"open": lambda *a, **k: Obj(kind="text", name=a[0], write=lambda t: None), "gzip.open": lambda *a, **k: Obj(kind="gz", name=a[0], write=lambda t: None),
          "print": lambda *a, **k: None,
          "pickle.dump": lambda o, fd, *a, **k: got.append(o), "Counter": collections.Counter, "collections.Counter": collections.Counter}
    lift_module_helpers(repo.mod("sam").tree, io, None, {}, {})
    Lifted(wf, funcs=io)(me, "dbg.G", *[tables[p_] for p_ in params])
    if len(got) != 1:
        raise AnalysisError(f"the dump writer pickles {len(got)} objects (expected one)")
    return wf, got[0], mark


def dumped_names(repo):
    """Names of the sample attributes / table arguments whose content reaches the archive."""
    wf, payload, mark = dumped_payload(repo)
    text = repr(payload)
    return wf, {a for a, m_ in mark.items() if m_ in text}


def r1_retired():
    """R1 (positional agreement of the pickled and the unpickled tuple, read off the two tuple expressions) and R2 (codec pairs) were syntactic;
    every armed edit of them is caught by R7 (writer -> reader -> coverage construction folded whole) and R8 (archive route), which decide the
    same facts whatever shape the writer and the reader have."""


def _find_assign(f, name):
    out = [n for n in walk_local(f) if isinstance(n, ast.Assign) and len(n.targets) == 1
           and ast.unparse(n.targets[0]) == name]
    return out


def r3(repo, res):
    try:
        wf, dumped = dumped_names(repo)
    except (Unfoldable, Raised) as e:
        res.err("C17.R3", f"dump writer outside the folding language: {e}")
        return
    wc = wf
    # attributes of the sample read outside sam.py
    read_outside = {}
    # locals bound to a Sample(...) construction hold the sample, whatever they are called
    sample_names = {"sample"}
    for mname, m in repo.modules.items():
        for n in ast.walk(m.tree):
            if isinstance(n, ast.Assign) and len(n.targets) == 1 and isinstance(n.targets[0], ast.Name) and isinstance(n.value, ast.Call) \
                    and call_name(n.value).split(".")[-1] == "Sample":
                sample_names.add(n.targets[0].id)
    for mname, m in repo.modules.items():
        if mname == "sam":
            continue
        for n in ast.walk(m.tree):
            if isinstance(n, ast.Attribute) and isinstance(n.ctx, ast.Load):
                b = n.value
                is_sample = (isinstance(b, ast.Attribute) and b.attr == "sam") or \
                            (isinstance(b, ast.Name) and b.id in sample_names)
                if is_sample:
                    read_outside.setdefault(n.attr, n)
    res.floor("C17.R3", "sample attributes read by stages / genotype()", len(read_outside), 5)
    for a, n in sorted(read_outside.items()):
        ok = a in dumped or a in EXEMPT
        res.ob("C17.R3", n, n, ok,
               expected="a sample attribute consumed outside sam.py is dumped, or exempt with a reason",
               found=("dumped" if a in dumped else EXEMPT.get(a, "neither dumped nor exempt")),
               clause="the archive reproduces the run", key=f"attr:{a}")
    # inputs of the coverage construction
    mk = repo.func("sam::Sample._make_coverage")
    res.analysed(mk)
    params = {a.arg for a in mk.args.args}
    for n in walk_local(mk):
        if isinstance(n, ast.Attribute) and isinstance(n.value, ast.Name) and n.value.id == "self" \
                and isinstance(n.ctx, ast.Load):
            a = n.attr
            ok = a in dumped or a in EXEMPT
            res.ob("C17.R3", mk, n, ok, expected="every input of the coverage construction is dumped or gene-derived",
                   found=("dumped" if a in dumped else EXEMPT.get(a, "neither dumped nor exempt")), key=f"make_coverage:{a}")
    # normalisation input: the neutral depth table and the profile are dumped
    for need in ("_dump_cn", "profile", "_indel_sites", "_fusion_counter", "phases"):
        res.ob("C17.R3", wf, wc, need in dumped, expected=f"component `{need}` is part of the dump",
               found="present" if need in dumped else "absent", key=f"component:{need}")


def r4(repo, res):
    from checks._sampleinit import fold_sample_init

    init = repo.func("sam::Sample.__init__")
    res.analysed(init)
    # the constructor folded whole: the dump writer runs exactly once for alignment input under debug, on the loader's tables
    pref = None
    for kind, debug, long_reads in [("sam", "/scratch/d/S", False), ("sam", "/scratch/d/S", True), ("sam", None, False), ("dump", "/scratch/d/S", False),
                                    ("vcf", "/scratch/d/S", False), ("pscan", "/scratch/d/S", False)]:
        try:
            k, v, calls, me, tables = fold_sample_init(repo, kind, debug, long_reads=long_reads)
        except Unfoldable as e:
            res.err("C17.R4", f"Sample.__init__ outside the folding language: {e}")
            return
        dumps = [c_ for c_ in calls if c_[0] == "_dump_alignments"]
        want = 1 if (kind == "sam" and debug) else 0
        built = [c_ for c_ in calls if c_[0] == "_make_coverage"]
        ok = k == "return" and len(dumps) == want and len(built) == 1 and built[0][1] == (tables["norm"], tables["muts"])   # the evidence is built once, from what was loaded
        if ok and want:
            a_ = dumps[0][1]
            ok = len(a_) == 3 and isinstance(a_[0], str) and a_[1] == tables["norm"] and a_[2] == tables["muts"]
            if ok and pref is None:
                pref = a_[0]
        res.ob("C17.R4", init, init, ok,
               expected=f"input kind {kind!r}{', long reads' if long_reads else ''}, debug {debug!r}: the dump writer runs {'once, on the tables the loader returned' if want else 'not at all'}",
               found=f"{k} {v or ''}; calls {[c_[0] for c_ in calls]}", clause="the debug archive written for a run",
               key=f"dump-guard:{kind}:{bool(debug)}" + (":long" if long_reads else ""))
    # (member names written by the dump writer and tested by the two readers are decided end to end by R8, on the files the folded writer creates)


def r5(repo, res):
    """The replay goes through the same parameter/alias handling as the original run, and the restored neutral-depth
    table supports the consumer's access pattern."""
    from checks._genotype import GenotypeModel, Scenario, events

    g = repo.func("genotype::genotype")
    res.analysed(g)
    gm = GenotypeModel(repo)
    given = {"gap": "0.2", "min_avg_coverage": "0.5", "display_format": "true", "debug_novel": "1", "debug_probe": "X"}
    typed = {"gap": 0.2, "min_avg_coverage": 0.5, "display_format": True, "debug_novel": True, "debug_probe": "X"}
    for prof, user_cn, params in [(p_, c_, given) for p_ in ("exome", "wxs", "wes", "illumina", "pgrnseq-v2") for c_ in (None, ["1", "1"])] + [
            ("illumina", None, {}), ("exome", None, {}), ("pgrnseq-v2", ["1", "1"], {"gap": "0.2"})]:
        seen = {}
        try:
            for kind in ("sam", "dump"):
                k, v, trace, _ = gm.run(Scenario(kind=kind, avg_coverage=1.0 if "min_avg_coverage" in params else 40.0,
                                                 args=dict(output_file=None, profile_name=prof, cn_solution=user_cn), params=dict(params)))
                ev_ = events(trace, "estimate_cn")
                seen[kind] = (k, ev_[0][5] if ev_ else None)
        except Unfoldable as e:
            res.err("C17.R5", f"genotype() outside the folding language: {e}")
            return
        (k1, a1), (k2, a2) = seen["sam"], seen["dump"]
        keys = sorted(set(typed) | {"min_coverage"})
        mine = {x: t for x, t in typed.items() if x in params}
        same = a1 is not None and a2 is not None and a1["do_copy_number"] == a2["do_copy_number"] and all(
            a1["profile"].get(x) == a2["profile"].get(x) for x in keys) and all(a2["profile"].get(x) == t for x, t in mine.items())
        res.ob("C17.R5", g, g, k1 == k2 == "return" and same,
               expected=f"profile {prof!r}{', structure given' if user_cn else ''}, parameters {params or 'none'}: the replay runs the stages with the same "
                        "copy-number switch, the same alias presets and the same (re-applied) parameters as the original run, although the reader restores "
                        "the pickled profile and resets four parameters",
               found="same" if k1 == k2 == "return" and same else
                     f"original: {k1} {None if a1 is None else dict(cn=a1['do_copy_number'], **{x: a1['profile'].get(x) for x in keys})}; "
                     f"replay: {k2} {None if a2 is None else dict(cn=a2['do_copy_number'], **{x: a2['profile'].get(x) for x in keys})}",
               clause="as genotyping the original alignment file with the same parameters",
               key=f"alias-on-replay:{prof}{'|cn' if user_cn else ''}" + ("" if params is given else f"|{'+'.join(sorted(params)) or 'no-params'}"))
    # neutral-depth table: writer -> pickle -> consumer (the normalisation routine folded whole on the restored table)
    import checks.c07 as c07

    nf = repo.func("coverage::Coverage._normalize_coverage")
    wf = repo.func("sam::Sample._dump_alignments")
    try:
        table = collections.defaultdict(int, {100: 4, 101: 5, 103: 2, 105: 3})  # position 102 and 104 have no read
        # the component of the pickled payload that carries the neutral-depth table: found by a marker run, then taken from a run on this table
        wf, marked, mark = dumped_payload(repo)
        idx = [i for i, e in enumerate(marked) if mark["_dump_cn"] in repr(e)] if isinstance(marked, (tuple, list)) else []
        if len(idx) != 1:
            res.err("C17.R5", "the neutral-depth table is not one component of the pickled payload")
            return
        _, payload, _ = dumped_payload(repo, overrides={"_dump_cn": table})
        stored = payload[idx[0]]
        import pickle

        restored = pickle.loads(pickle.dumps(stored))
        depth, _ = c07.depth_table()
        data = {"G": {"e1": [40.0, 30.0], "i1": [0, 0], "e2": [55.0, 70.0]}}
        k0, v0, o0 = c07.fold_normalize(repo, depth, table, data, 30.0)
        k1, v1, o1 = c07.fold_normalize(repo, depth, restored, data, 30.0)
        ok, found = (k0 == k1 and k1 != "raise" and o0 == o1 and len(o1) == 6), f"original: {k0}, {len(o0)} cells; from the restored table: {k1} {v1 if k1 == 'raise' else ''}, equal: {o0 == o1}"
    except Raised as e:
        ok, found = False, f"consumer raises {e.kind} on a restored table with an uncovered position"
    except Unfoldable as e:
        res.err("C17.R5", f"neutral table round trip outside folding language: {e}")
        return
    res.ob("C17.R5", wf, wf, ok,
           expected="normalising against the restored neutral-depth table gives the same depths as against the original one (uncovered positions read as 0)",
           found=found, clause="the same ... gene structures ... as genotyping the original alignment file", key="neutral-table-roundtrip")


def r6(repo, res):
    """The archive holds the tables as the loader produced them: whatever runs between the loader and the dump writer
    (and receives the tables or the sample) leaves the dumped state unchanged. Decided by folding each such routine on
    sample tables (variants inside and outside the reference bounds, insertions, positions without reference reads) and
    comparing the dumped components with copies taken before."""
    import copy

    from sa.fold import Lifted

    init = repo.func("sam::Sample.__init__")
    try:
        wf, dumped = dumped_names(repo)
    except (Unfoldable, Raised) as e:
        res.err("C17.R6", f"dump writer outside the folding language: {e}")
        return
    res.analysed(init)
    c = cfg_of(init)
    dc = find_calls(init, "_dump_alignments")
    if not dc:
        res.err("C17.R6", "dump call not found in Sample.__init__")
        return
    tables = [a.id for a in dc[0].args[1:] if isinstance(a, ast.Name)]
    if len(tables) != 2:
        res.err("C17.R6", "the dump writer is not handed the two tables as local names (whether it gets the loader's tables is decided by R4)")
        return
    dn = c.node_of(dc[0])
    between = []
    for x in calls_in(init):
        if x is dc[0] or not (isinstance(x.func, ast.Attribute) and isinstance(x.func.value, ast.Name) and x.func.value.id == "self"):
            continue
        if not any(isinstance(a, ast.Name) and a.id in tables for a in x.args):
            continue
        xn = c.node_of(x)
        if xn != dn and c.path_exists(xn, dn):
            between.append(x)
    res.count("C17.R6:routines between loader and dump writer", len(between))
    dumped_attrs = sorted(dumped - set(a_.arg for a_ in wf.args.args))
    cov_init = repo.func("coverage::Coverage.__init__")

    def sample_state():
        norm = collections.defaultdict(list, {p: [(40, 30)] * (3 + p % 3) for p in range(96, 114)})
        muts = collections.defaultdict(list, {
            (103, "A>C"): [(40, 31)] * 2, (97, "G>T"): [(40, 32)] * 3,      # 97: outside the reference bounds, reference reads present
            (118, "C>A"): [(40, 33)] * 2,                                   # outside the bounds, no reference reads at all
            (105, "insTT"): [(40, 34)] * 2, (98, "insA"): [(40, 35)], (106, "delG"): [(40, 36)] * 2})
        me = Obj(gene=Obj(chr_to_ref={p: p - 100 for p in range(100, 111)}, name="G"), profile=full_profile(repo, cn_region=None), _multi_sites={103: "AC>CT"},
                 _indel_sites={(105, "insTT"): [1, 2], (106, "delG"): [0, 0]}, _dump_cn=collections.defaultdict(int, {200: 3}),
                 _fusion_counter={}, _insertion_reads={}, _insertion_counts={}, phases={"r1": {103: "A>C"}}, name="S", coverage=None)
        return norm, muts, me

    for x in between:
        tgt = repo.func_or_none("sam::Sample." + x.func.attr) if hasattr(repo, "func_or_none") else None
        if tgt is None:
            try:
                tgt = repo.func("sam::Sample." + x.func.attr)
            except Exception:
                res.err("C17.R6", f"routine {x.func.attr} between loader and dump writer cannot be resolved")
                continue
        res.analysed(tgt, cov_init)
        norm, muts, me = sample_state()
        for a_ in dumped_attrs:
            if a_ not in me.__dict__:
                me.__dict__[a_] = {}
        def plain(v):
            if isinstance(v, Obj):
                return {k_: plain(x_) for k_, x_ in v.__dict__.items()}
            if isinstance(v, dict):
                return {k_: plain(x_) for k_, x_ in v.items()}
            if isinstance(v, (list, tuple)):
                return [plain(x_) for x_ in v]
            return v

        before = copy.deepcopy((dict(norm), dict(muts), {a_: plain(me.__dict__[a_]) for a_ in dumped_attrs if a_ != "coverage"}))
        try:
            cinit = Lifted(cov_init)

            def make_cov(*a, **k):
                o = Obj()
                cinit(o, *a, **k)
                return o

            fn = Lifted(tgt, funcs={"Coverage": make_cov})
            args = [{tables[0]: norm, tables[1]: muts}.get(a.id) if isinstance(a, ast.Name) else None for a in x.args]
            fn(me, *args)
        except Unfoldable as e:
            res.err("C17.R6", f"{x.func.attr} outside the folding language: {e}")
            continue
        except Raised as e:
            res.ob("C17.R6", tgt, tgt, False, expected="runs on the sample tables", found=f"raises {e}", key=f"tables-unchanged:{x.func.attr}")
            continue
        after = (dict(norm), dict(muts), {a_: plain(me.__dict__[a_]) for a_ in dumped_attrs if a_ != "coverage"})
        diff = []
        for label, b, a in (("reference table", before[0], after[0]), ("variant table", before[1], after[1])):
            for k in sorted(set(b) | set(a), key=str):
                if b.get(k) != a.get(k) and (b.get(k) or a.get(k)):
                    diff.append(f"{label}[{k}]: {len(b.get(k) or [])} -> {len(a.get(k) or [])} observations")
        for a_ in before[2]:
            if before[2][a_] != after[2][a_]:
                diff.append(f"self.{a_} changed")
        res.ob("C17.R6", tgt, tgt, not diff,
               expected=f"{x.func.attr} runs before the dump writer: the tables and sample state the writer pickles afterwards are still what the loader produced "
                        "(the replay feeds them to the same routine again)",
               found="unchanged" if not diff else "; ".join(diff[:4]),
               clause="genotyping the debug archive ... reproduces that run: the same ... gene structures ... scores", key=f"tables-unchanged:{x.func.attr}")


def r7(repo, res):
    """Writer -> reader -> coverage construction, folded whole on sample states: the Coverage object built from the
    restored tables equals the one built from the loader's tables (observation multisets, indel table, neutral depth),
    and name, fusion counters and multi-variant read phases come back."""
    import copy

    from sa.fold import Lifted

    wf = repo.func("sam::Sample._dump_alignments")
    rf = repo.func("sam::Sample._load_dump")
    mk = repo.func("sam::Sample._make_coverage")
    cov_init = repo.func("coverage::Coverage.__init__")
    res.analysed(wf, rf, mk, cov_init)

    def state(indel_support):
        norm = collections.defaultdict(list, {p: [(40, 30)] * (2 + p % 3) + [(20, 10)] for p in range(98, 112)})
        norm[99] = []
        muts = collections.defaultdict(list, {(103, "A>C"): [(40, 31), (40, 31), (35, 12)], (105, "insTT"): [(40, 34)] * 2,
                                              (106, "delG"): [(40, 36)] * 2, (98, "G>T"): [(40, 32)]})
        prof = full_profile(repo, cn_region=None, display_format=False, debug_probe="", debug_novel=False, min_avg_coverage=2.0, gap=0.0, minor_phase_vars=1)  # a small phasing budget: the archive still holds every fragment
        gene = Obj(chr_to_ref={p: p - 100 for p in range(100, 111)}, name="G", genome="hg38")
        me = Obj(gene=gene, profile=prof, name="SAMPLE", _multi_sites={}, _prefix="",
                 _indel_sites={(105, "insTT"): [3, indel_support], (106, "delG"): [4, 0]},
                 _dump_cn=collections.defaultdict(int, {200: 3, 201: 4}), _fusion_counter={"f": [1, 2]},
                 phases={"a": {103: "A>C", 108: "_"}, "b": {103: "A>C"}, "c": {106: "delG", 103: "_"}, "d": {103: "_", 108: "_"}},   # d: a fragment showing the reference at two sites
                 coverage=None)
        return norm, muts, me

    def cov_of(me, norm, muts):
        cinit = Lifted(cov_init)

        def make_cov(*a, **k):
            o = Obj()
            cinit(o, *a, **k)
            return o

        Lifted(mk, funcs={"Coverage": make_cov})(me, norm, muts)
        c = me.coverage
        return ({p: {o: sorted(q) for o, q in ops.items()} for p, ops in c._coverage.items()}, c._indels, dict(c._cnv_coverage))

    for support in (2, 0):
        label = "some indel supported" if support else "no indel supported"
        store = {}
        marker = []

        def pr(*a, sep=" ", end="\n", file=None):
            marker.append(sep.join(str(x) for x in a))

        # the genome marker may be written with print(..., file=) or with write()
        io = {"open": lambda *a, **k: Obj(kind="text", write=lambda t: marker.append(str(t))), "gzip.open": lambda *a, **k: Obj(kind="gz", write=lambda t: None), "print": pr,
              "pickle.dump": lambda o, fd: store.__setitem__("o", copy.deepcopy(o)), "pickle.load": lambda fd: copy.deepcopy(store["o"]),
              "Counter": collections.Counter, "collections.Counter": collections.Counter, "os.path.abspath": lambda q: q}
        from sa.fold import lift_module_helpers

        lift_module_helpers(repo.mod("sam").tree, io, None, {}, {})   # module-level helpers of sam.py the writer / reader may call
        try:
            norm, muts, me = state(support)
            # sample attributes the constructor derives from the input file: an undetectable genome build is (kind, None)
            init = repo.func("sam::Sample.__init__")
            for st_ in walk_local(init):
                if isinstance(st_, ast.Assign) and any(isinstance(t_, ast.Attribute) and isinstance(t_.value, ast.Name) and t_.value.id == "self"
                                                       and t_.attr == "genome" for tt in st_.targets for t_ in ast.walk(tt)):
                    Evaluator({"self": me, "gene": me.gene, "path": "x.bam"}, funcs={"detect_genome": lambda q: ("sam", None)}).run([st_])
            want = cov_of(me, copy.deepcopy(norm), copy.deepcopy(muts))
            Lifted(wf, funcs=io)(me, "dbg.G", norm, muts)
            me2 = Obj(gene=me.gene, profile=None, name=None, _multi_sites={}, _prefix="", _indel_sites=None, _dump_cn=None, _fusion_counter=None,
                      phases=None, coverage=None)
            back = Lifted(rf, funcs=io)(me2, "dbg.G.dump")
            if not (isinstance(back, tuple) and len(back) == 2):
                res.ob("C17.R7", rf, rf, False, expected="reader returns the two tables", found=str(type(back)), key=f"round-trip:{label}")
                continue
            got = cov_of(me2, back[0], back[1])
        except Unfoldable as e:
            res.err("C17.R7", f"dump writer/reader outside the folding language: {e}")
            return
        except Raised as e:
            res.ob("C17.R7", rf, rf, False, expected="archive written and read back", found=f"raises {e}", key=f"round-trip:{label}")
            continue
        diff = []
        if got[0] != want[0]:
            ks = [p for p in sorted(set(got[0]) | set(want[0])) if got[0].get(p) != want[0].get(p)]
            diff.append(f"observations differ at {ks[:4]}: original { {k: {o: len(q) for o, q in want[0].get(k, {}).items()} for k in ks[:2]} } "
                        f"replay { {k: {o: len(q) for o, q in got[0].get(k, {}).items()} for k in ks[:2]} }")
        if got[1] != want[1]:
            diff.append(f"indel table: original {want[1]}, replay {got[1]}")
        if got[2] != want[2]:
            diff.append(f"neutral depth: original {want[2]}, replay {got[2]}")
        if me2.name != me.name:
            diff.append(f"sample name {me2.name!r}")
        if me2._fusion_counter != me._fusion_counter:
            diff.append(f"fusion counters {me2._fusion_counter}")
        if sorted(map(str, (me2.phases or {}).values())) != sorted(str(v) for v in me.phases.values() if len(v) > 1):
            diff.append(f"phases {me2.phases}")
        if [m_.strip() for m_ in marker] != ["hg38"]:
            diff.append(f"genome marker holds {marker}, the gene was loaded for hg38")
        res.ob("C17.R7", wf, wf, not diff,
               expected=f"{label}: coverage built from the restored tables = coverage built from the loader's tables; name, fusion counters, phases and genome marker restored",
               found="equal" if not diff else "; ".join(diff),
               clause="genotyping the debug archive written for a run reproduces that run", key=f"round-trip:{label}")


def r8(repo, res):
    """The archive route end to end on a file-system model: main() with --debug runs the genotyping with a dump prefix inside a
    scratch directory, then writes the run record and packs that directory as <debug>.tar.gz -- also when the run fails; the
    files the dump writer creates under that prefix are, as archive members, found again by the genome detection and by the
    dump reader of each gene in the archive (and of no other gene)."""
    import copy

    from checks._cli import fold_main
    from sa.fold import Lifted, lift_module_helpers

    mn = repo.func("__main__::_genotype")
    argv = ["genotype", "-g", "G", "-p", "illumina", "--debug", "out/DBG", "/data/S1.x.bam"]
    prefix = None
    for label, raises, want_end in (("run succeeds", None, ("return", None)), ("gene fails with a program error", "AldyException", ("return", None)),
                                    ("run crashes", "ValueError", None)):
        try:
            kind, val, calls = fold_main(repo, argv, genotype_raises=raises)
        except Unfoldable as e:
            res.err("C17.R8", f"main() with --debug outside the folding language: {e}")
            return
        gen = [c for c in calls if c[0] == "genotype"]
        sysc = [c[1] for c in calls if c[0] == "system"]
        dbg = gen[0][2].get("debug") if gen else None
        order = [c[0] for c in calls if c[0] in ("genotype", "system")]
        ok = (len(gen) == 1 and isinstance(dbg, str) and dbg.startswith("/scratch/T/") and dbg.rsplit("/", 1)[-1] == "S1.x"
              and len(sysc) == 1 and "out/DBG.tar.gz" in sysc[0].split() and "/scratch/T" in sysc[0].split() and sysc[0].split()[:2] == ["tar", "czf"]
              and order == ["genotype", "system"] and ("yaml", f"{dbg}.yml") in calls and (want_end is None or (kind, val) == want_end))
        if want_end is None and not sysc and len(gen) == 1 and not [c for c in calls if c[0] == "yaml"]:
            ok = True   # a run that crashes may leave no archive at all (the statement is about archives that were written)
        prefix = prefix or (dbg if ok else None)
        res.ob("C17.R8", mn, mn, ok,
               expected=f"--debug out/DBG, {label}: genotype() runs once with a dump prefix <scratch>/S1.x, then the run record is written next to it and the "
                        f"scratch directory is packed as out/DBG.tar.gz",
               found=f"{kind} {val}; genotype(debug={dbg!r}); record {[c[1] for c in calls if c[0] == 'yaml']}; commands {sysc}",
               clause="the debug archive written for a run", key=f"archive-written:{label}")
    try:
        kind, val, calls = fold_main(repo, [a for a in argv if a not in ("--debug", "out/DBG")])
    except Unfoldable as e:
        res.err("C17.R8", f"main() outside the folding language: {e}")
        return
    gen = [c for c in calls if c[0] == "genotype"]
    res.ob("C17.R8", mn, mn, len(gen) == 1 and gen[0][2].get("debug") is None and not [c for c in calls if c[0] == "system"],
           expected="without --debug: one genotype() call without dump prefix, no archive", found=f"{[(c[0], c[2].get('debug')) for c in gen]}",
           clause="the debug archive written for a run", key="archive-written:no-debug")
    if prefix is None:
        return
    # the dump writer's files for three genes of one run (one name a prefix / suffix of another), as members of the archive
    wf = repo.func("sam::Sample._dump_alignments")
    rf = repo.func("sam::Sample._load_dump")
    dg = repo.func("sam::detect_genome")
    from checks._sampleinit import fold_sample_init

    res.analysed(wf, rf, dg)
    files = {}

    class Handle:
        _fold_ok = True
        _fold_enter = True

        def __init__(self, name):
            self.name, self.text, self.obj = name, [], None

        def __enter__(self):
            return self

        def read(self):
            return "".join(self.text).encode("utf-8")

        def write(self, t):
            self.text.append(str(t))

    def opn(name, mode="r", *a, **k):
        if isinstance(name, Handle):
            return name
        if "w" in mode:
            files[name] = Handle(name)
        if name not in files:
            raise Raised("FileNotFoundError")
        return files[name]

    def pr(*a, sep=" ", end="\n", file=None):
        file.text.append(sep.join(str(x) for x in a) + end)

    def dump(o, fd):
        fd.obj = copy.deepcopy(o)

    class Tar:
        _fold_ok = True

        def __init__(self, members):
            self.members = members

        def getnames(self):
            return list(self.members)

        def extractfile(self, name):
            if name not in self.members:
                raise Raised("KeyError")
            return self.members[name]

    io = {"open": opn, "gzip.open": opn, "print": pr, "pickle.dump": dump, "pickle.load": lambda fd: copy.deepcopy(fd.obj),
          "Counter": collections.Counter, "collections.Counter": collections.Counter, "os.path.abspath": lambda q: q, "os.path.exists": lambda q: False}
    lift_module_helpers(repo.mod("sam").tree, io, None, {}, {})
    genes = ["G", "G3", "XG"]
    try:
        for g in genes:
            me = Obj(gene=Obj(name=g, genome="hg38"), profile=full_profile(repo, cn_region=None), name=f"S-{g}", _dump_cn={1: 1}, _fusion_counter={}, _indel_sites={},
                     phases={})
            k_, v_, calls_, _, _ = fold_sample_init(repo, "sam", prefix, gene_name=g)
            prefs = [c_[1][0] for c_ in calls_ if c_[0] == "_dump_alignments"]
            if len(prefs) != 1:
                return   # reported by R4 (dump-guard)
            Lifted(wf, funcs=io)(me, prefs[0], {1: [(g, 1)]}, {})
    except (Unfoldable, Raised) as e:
        res.err("C17.R8", f"dump writer outside the folding language: {e}")
        return
    scratch = prefix.rsplit("/", 1)[0]
    members = {"./" + n[len(scratch) + 1:]: h for n, h in files.items() if n.startswith(scratch + "/")}
    members["./S1.x.log"] = Handle("log")
    members["./S1.x.yml"] = Handle("yml")
    members["."] = Handle("dir")
    io["tarfile.open"] = lambda path, mode="r": Tar(members) if path == "out/DBG.tar.gz" else (_ for _ in ()).throw(Raised("FileNotFoundError"))
    io["pysam.AlignmentFile"] = lambda *a, **k: (_ for _ in ()).throw(Raised("ValueError"))
    io["pysam.VariantFile"] = lambda *a, **k: (_ for _ in ()).throw(Raised("ValueError"))
    io["pysam.set_verbosity"] = lambda *a: None
    try:
        got = Lifted(dg, funcs=io)("out/DBG.tar.gz")
    except Unfoldable as e:
        res.err("C17.R8", f"detect_genome outside the folding language: {e}")
        return
    except Raised as e:
        got = f"raises {e.kind}"
    res.ob("C17.R8", dg, dg, got == ("dump", "hg38"),
           expected="the archive packed from the writer's files is recognised as a dump of a run on hg38", found=f"{got}; members {sorted(members)}",
           clause="genotyping the debug archive", key="archive-read:genome")
    members_no = {k: v for k, v in members.items() if not k.endswith(".genome")}
    io2 = dict(io, **{"tarfile.open": lambda path, mode="r": Tar(members_no)})
    try:
        got = Lifted(dg, funcs=io2)("out/DBG.tar.gz")
    except Unfoldable as e:
        res.err("C17.R8", f"detect_genome outside the folding language: {e}")
        return
    except Raised as e:
        got = f"raises {e.kind}"
    res.ob("C17.R8", dg, dg, got == "raises AldyException",
           expected="an archive without genome marker is rejected as an invalid dump (not silently taken for another input kind)", found=str(got),
           clause="genotyping the debug archive", key="archive-read:no-marker")
    for g in genes + ["ABSENT"]:
        me2 = Obj(gene=Obj(name=g), profile=None, name=None, _dump_cn=None, _fusion_counter=None, _indel_sites=None, phases=None)
        try:
            back = Lifted(rf, funcs=io)(me2, "out/DBG.tar.gz")
            got = (me2.name, back[0] if isinstance(back, tuple) else back)
        except Unfoldable as e:
            res.err("C17.R8", f"dump reader outside the folding language: {e}")
            return
        except Raised as e:
            got = f"raises {e.kind}"
        want = "raises AldyException" if g == "ABSENT" else (f"S-{g}", {1: [(g, 1)]})
        res.ob("C17.R8", rf, rf, got == want,
               expected=f"gene {g}: " + ("not in the archive: rejected as invalid dump" if g == "ABSENT" else "the reader restores that gene's dump, not a sibling's"),
               found=str(got), clause="for every gene contained in the archive", key=f"archive-read:{g}")
    # an input file whose name holds a gene name as a dot-delimited part (S1.G.bam), members listed with the other genes' dumps first
    prefix2 = scratch + "/S1.G"
    files.clear()
    try:
        for g in ("G", "G3"):
            me = Obj(gene=Obj(name=g, genome="hg38"), profile=full_profile(repo, cn_region=None), name=f"S-{g}", _dump_cn={1: 1}, _fusion_counter={}, _indel_sites={}, phases={})
            k_, v_, calls_, _, _ = fold_sample_init(repo, "sam", prefix2, gene_name=g)
            prefs = [c_[1][0] for c_ in calls_ if c_[0] == "_dump_alignments"]
            if len(prefs) != 1:
                return
            Lifted(wf, funcs=io)(me, prefs[0], {1: [(g, 1)]}, {})
    except (Unfoldable, Raised) as e:
        res.err("C17.R8", f"dump writer outside the folding language: {e}")
        return
    members2 = {"./" + n[len(scratch) + 1:]: h for n, h in files.items() if n.startswith(scratch + "/")}
    for g in ("G", "G3"):
        own = [m_ for m_ in members2 if m_.endswith(f".{g}.dump")]
        ordered = {m_: members2[m_] for m_ in sorted(members2, key=lambda m_: (m_ in own, m_))}   # this gene's own dump comes last
        io["tarfile.open"] = lambda path, mode="r", o_=ordered: Tar(o_)
        me2 = Obj(gene=Obj(name=g), profile=None, name=None, _dump_cn=None, _fusion_counter=None, _indel_sites=None, phases=None)
        try:
            back = Lifted(rf, funcs=io)(me2, "out/DBG.tar.gz")
            got = (me2.name, back[0] if isinstance(back, tuple) else back)
        except Unfoldable as e:
            res.err("C17.R8", f"dump reader outside the folding language: {e}")
            return
        except Raised as e:
            got = f"raises {e.kind}"
        res.ob("C17.R8", rf, rf, got == (f"S-{g}", {1: [(g, 1)]}),
               expected=f"input named S1.G.bam, gene {g}, members {list(ordered)}: the reader restores that gene's own dump",
               found=str(got), clause="for every gene contained in the archive", key=f"archive-read:gene-in-file-name:{g}")


def run(repo, res):
    r8(repo, res)
    r5(repo, res)
    r6(repo, res)
    r7(repo, res)
    r3(repo, res)
    r4(repo, res)


MUTANTS = [
    dict(name="R6 original defect (reference lists aliased and extended before the dump)", module="sam", expect="C17.R6",
         old='coverage.setdefault(pos, {})["_"] = list(cov)', new='coverage.setdefault(pos, {})["_"] = cov'),
    dict(name="R6 coverage construction drains the variant table", module="sam", expect="C17.R6",
         old="            coverage.setdefault(pos, {}).setdefault(mut, []).extend(cov)", new="            coverage.setdefault(pos, {}).setdefault(mut, []).extend(cov)\n            cov.clear()"),
    dict(name="R7 writer keeps supported indels only (seeded C17_b2 shape)", module="sam", expect="C17.R7",
         old="                    self._indel_sites,  # TODO: remove", new="                    {k: v for k, v in self._indel_sites.items() if v[1]},"),
    dict(name="R7 reader restores qualities without multiplicity", module="sam", expect="C17.R7",
         old="        norm = {p: [q for q, n in c.items() for _ in range(n)] for p, c in norm.items()}", new="        norm = {p: [q for q, n in c.items()] for p, c in norm.items()}"),
    dict(name="R7 genome marker from the detected build (seeded C17_b1 shape)", module="sam", expect="C17.R7",
         edits=[("self.kind, _ = detect_genome(path)\n            self.genome = gene.genome", "self.kind, self.genome = detect_genome(path)"),
                ("print(self.gene.genome, file=fd)", "print(self.genome, file=fd)")]),
    dict(name="R4 re-application skipped for a user-given structure (seeded C17_b3 shape)", module="genotype", expect=["C17.R5", "C18.R1"],
         old='    if kind == "dump":\n        profile.update(params)', new='    if kind == "dump" and not cn_solution:\n        profile.update(params)'),
    dict(name="benign: dump written before the coverage is built", module="sam", kind="benign",
         old="""            self._make_coverage(norm, muts)
            if self.kind == "sam" and debug:
                self._dump_alignments(f"{debug}.{gene.name}", norm, muts)""",
         new="""            if self.kind == "sam" and debug:
                self._dump_alignments(f"{debug}.{gene.name}", norm, muts)
            self._make_coverage(norm, muts)"""),
    dict(name="R1 writer swaps fusion and indel tables", module="sam", expect=["C17.R7", "C17.R8"],
         old="                    self._fusion_counter,\n                    self._indel_sites,  # TODO: remove",
         new="                    self._indel_sites,\n                    self._fusion_counter,"),
    dict(name="R1 reader swaps norm and muts", module="sam", expect=["C17.R7", "C17.R8"],
         old="            self._dump_cn,\n            norm,\n            muts,\n            phases,",
         new="            self._dump_cn,\n            muts,\n            norm,\n            phases,"),
    dict(name="R1 writer drops fusion counters", module="sam", expect=["C17.R7", "C17.R3"],
         old="                    self._fusion_counter,\n                    self._indel_sites,  # TODO: remove",
         new="                    self._indel_sites,"),
    dict(name="R1+R3 fusion counters dropped on both sides", module="sam", expect="C17.R3",
         old="self._fusion_counter,\n", new="", count=2),
    dict(name="R2 writer stores set (loses multiplicity)", module="sam", expect="C17.R7",
         old="{p: Counter(q) for p, q in norm.items()},", new="{p: Counter(set(q)) for p, q in norm.items()},"),
    dict(name="R2 reader ignores counts", module="sam", expect="C17.R7",
         old="muts = {p: [q for q, n in c.items() for _ in range(n)] for p, c in muts.items()}",
         new="muts = {p: [q for q, n in c.items()] for p, c in muts.items()}"),
    dict(name="R2 phases keyed by constant (collide)", module="sam", expect="C17.R7",
         old='self.phases = {f"r{i}": v for i, v in enumerate(phases)}', new='self.phases = {"r": v for i, v in enumerate(phases)}'),
    dict(name="R3 stage reads an undumped attribute", module="cn", expect="C17.R3",
         old="        if coverage.sam._fusion_counter:", new="        if coverage.sam._fusion_counter and coverage.sam._dump_reads:"),
    dict(name="R4 reader looks for another suffix", module="sam", expect=["C17.R8"],
         old='if i.endswith(f".{self.gene.name}.dump")]', new='if i.endswith(f".{self.gene.name}.dmp")]'),
    dict(name="R4 writer drops gene from member name", module="sam", expect=["C17.R8"],
         old='self._dump_alignments(f"{debug}.{gene.name}", norm, muts)', new='self._dump_alignments(f"{debug}", norm, muts)'),
    dict(name="R4 reader matches any gene's dump", module="sam", expect=["C17.R8"],
         old='if i.endswith(f".{self.gene.name}.dump")]', new='if i.endswith(".dump")]'),
    dict(name="R4 params not re-applied for dumps", module="genotype", expect="C17.R5",
         old='    if kind == "dump":\n        profile.update(params)', new='    if kind == "dump":\n        pass'),
    dict(name="R4 dump also written when replaying a dump", module="sam", expect="C17.R4",
         old='            if self.kind == "sam" and debug:', new='            if debug:'),
    dict(name="R4 member matched by substring (seeded C17_2 shape)", module="sam", expect=["C17.R8"],
         old='if i.endswith(f".{self.gene.name}.dump")]', new='if i.endswith(".dump") and f".{self.gene.name}" in i]'),
    dict(name="R5 alias handling skipped for archives (seeded C17_1 shape)", module="genotype", expect=["C17.R5"],
         old='    if profile_name in ["exome", "wxs", "wes"]:', new='    if kind != "dump" and profile_name in ["exome", "wxs", "wes"]:'),
    dict(name="R5 neutral table pickled as a plain dict (seeded C17_3 shape)", module="sam", expect="C17.R5",
         old="                    self._dump_cn,\n                    {p: Counter(q) for p, q in norm.items()},", new="                    dict(self._dump_cn),\n                    {p: Counter(q) for p, q in norm.items()},"),
    dict(name="R4 dump call lost", module="sam", expect="C17.R4",
         old='            if self.kind == "sam" and debug:\n                self._dump_alignments(f"{debug}.{gene.name}", norm, muts)\n', new='            pass\n'),
    dict(name="R4 dump written for short reads only", module="sam", expect="C17.R4",
         old='            if self.kind == "sam" and debug:', new='            if self.kind == "sam" and debug and not self.is_long_read:'),
    dict(name="R4 dump receives a fresh variant table", module="sam", expect="C17.R4",
         old='self._dump_alignments(f"{debug}.{gene.name}", norm, muts)', new='self._dump_alignments(f"{debug}.{gene.name}", norm, {})'),
    dict(name="R4 evidence never built from the loaded tables", module="sam", expect=["C17.R4", "C16.R6"],
         old="            self._make_coverage(norm, muts)\n            if self.kind", new="            if self.kind"),
    dict(name="R8 member matched by a dot-delimited gene name anywhere in it (seeded X4_4 shape)", module="sam", expect=["C17.R8", "C17.R4"],
         old='if i.endswith(f".{self.gene.name}.dump")]', new='if i.endswith(".dump") and f".{self.gene.name}." in i]'),
    dict(name="R7 fragments showing only reference alleles left out of the archive (seeded X7_2 shape)", module="sam", expect="C17.R7",
         old="                    [v for v in self.phases.values() if len(v) > 1],", new="                    [v for v in self.phases.values() if len(v) > 1 and any(a != \"_\" for a in v.values())],"),
    dict(name="R8 debug run skipped", module="__main__", expect="C17.R8",
         old="                run(prefix)\n", new="                pass\n"),
    dict(name="benign: archive only when the run did not crash", module="__main__", kind="benign",
         edits=[("            prefix = None\n            try:", "            prefix = None\n            done_ = False\n            try:"),
                ("                run(prefix)\n", "                run(prefix)\n                done_ = True\n"),
                ("                if prefix:\n", "                if prefix and done_:\n")]),
    dict(name="R8 archive packed from the working directory", module="__main__", expect="C17.R8",
         old='os.system(f"tar czf {args.debug}.tar.gz -C {tmp} .")', new='os.system(f"tar czf {args.debug}.tar.gz .")'),
    dict(name="R8 archive named without suffix", module="__main__", expect=["C17.R8"],
         old='os.system(f"tar czf {args.debug}.tar.gz -C {tmp} .")', new='os.system(f"tar czf {args.debug}.tgz -C {tmp} .")'),
    dict(name="R8 dump prefix outside the packed directory", module="__main__", expect="C17.R8",
         old='prefix = f"{tmp}/{os.path.splitext(os.path.basename(args.file))[0]}"', new='prefix = f"{os.path.splitext(args.file)[0]}"'),
    dict(name="R8 run record not written", module="__main__", expect="C17.R8",
         old="                        yaml.dump(common.json, f, default_flow_style=None)\n", new="                        pass\n"),
    dict(name="R8 reader takes the last matching member's neighbour", module="sam", expect="C17.R8",
         old="            data = tar.extractfile(f[0])\n            assert data", new="            data = tar.extractfile(tar.getnames()[0])\n            assert data"),
    dict(name="R8 missing gene falls through to a sibling's dump", module="sam", expect="C17.R8",
         old='            if not f:\n                raise AldyException("Invalid dump file")\n            log.debug("Found', new='            if not f:\n                f = [i for i in tar.getnames() if i.endswith(".dump")]\n            log.debug("Found'),
    dict(name="R8 archive without marker taken as hg19", module="sam", expect="C17.R8",
         old='                if not f:\n                    raise AldyException("Invalid dump file")\n                data = tar.extractfile(f[0])\n                if data:',
         new='                if not f:\n                    return "dump", "hg19"\n                data = tar.extractfile(f[0])\n                if data:'),
    dict(name="R8 marker compared without stripping the newline", module="sam", expect="C17.R8",
         old='genome = data.read().decode("utf-8").strip()', new='genome = data.read().decode("utf-8")'),
    dict(name="benign: archive command assembled separately", module="__main__", kind="benign",
         old='os.system(f"tar czf {args.debug}.tar.gz -C {tmp} .")', new='cmd_ = f"tar czf {args.debug}.tar.gz -C {tmp} ."\n                    os.system(cmd_)'),
    # benign
    dict(name="benign: Counter via collections", module="sam", kind="benign", count=2,
         old="Counter(q)", new="Counter(list(q))"),
    dict(name="benign: reader uses repeat via multiplication", module="sam", kind="benign",
         old="norm = {p: [q for q, n in c.items() for _ in range(n)] for p, c in norm.items()}",
         new="norm = {p: [x for q, n in c.items() for x in [q] * n] for p, c in norm.items()}"),
]
