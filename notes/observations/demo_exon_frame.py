"""Observation outside the 19 statements: the inferred amino-acid effect of an uncatalogued substitution is computed in a
reading frame shifted by one base for every shipped gene (the exon table of the shipped databases starts one base before ATG
under the loader's `(s - 1, e - 1)` convention, which the toy gene's test pins). Run: cd /repo && /venv/bin/python <this file>"""
import re

from aldy.common import script_path
from aldy.gene import Gene

for gn in ("cyp2d6", "cyp2c19", "cyp2c9", "tpmt"):
    g = Gene(script_path(f"aldy.resources.genes/{gn}.yml"), genome="hg38")
    ok = bad = 0
    for (pos, op), t in list(g.mutations.items()):
        if t[0] and re.fullmatch(r"[A-Z]\d+[A-Z]", t[0]) and len(op) == 3:
            del g.mutations[pos, op]          # force the inference path for a variant whose effect the database states
            inferred = g.get_functional((pos, op))
            g.mutations[pos, op] = t
            ok += inferred == t[0]
            bad += inferred != t[0]
    s = g.exons[0][0]
    print(f"{gn}: first exon starts at RefSeq 0-based {s}: {g.seq[s:s + 7]} ; protein starts {g.aminoacid[:6]} ; inferred effect equals the catalogued one for {ok} of {ok + bad} substitutions")
