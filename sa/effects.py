"""
Mutation-effect / alias analysis (C14.R1): "only the loader writes the catalogue, only sample
construction writes the evidence".

Abstract value of an expression
  P(fam, ctype)   alias of protected storage of family fam ('G' gene catalogue, 'E' evidence);
                  ctype = 'set' | 'list' | 'dict' | None (container kind when known from annotations)
  CONT(elem)      a fresh container whose elements have abstract value `elem`
  SHALLOW(fam, fields)  copy.copy() of protected object: fresh top, every field aliases the
                  original until it is re-bound in this function (fields: name -> value)
  FRESH           deep-fresh / unprotected object
  U               unknown, not protected

A *write* is an attribute store, a subscript store / delete, a mutator method call, or an in-place
operator on a container.  It is a violation when the written object is P and the enclosing function
is not an owner of that family.  Interprocedural: per function `mutates` (parameter indices written
through) and `returns` (abstract value of the result as a function of the parameters), computed to a
fixpoint; unannotated parameters become P when some resolved call site passes a P argument.
"""

import ast
from typing import Dict, List, Optional, Set, Tuple

from .loader import FuncNode, Repo, call_name, loc, qual_of, walk_local

GENE_TYPES = {"Gene", "MajorAllele", "MinorAllele", "CNConfig"}
EVID_TYPES = {"Coverage", "Sample"}
ROOT_ATTRS = {"gene": "G", "sam": "E"}  # attribute names that always hold a protected root
MUTATORS = {
    "add", "update", "clear", "pop", "popitem", "remove", "discard", "append", "extend", "insert", "sort",
    "reverse", "setdefault", "difference_update", "intersection_update", "symmetric_difference_update",
    "__setitem__", "__delitem__", "appendleft", "subtract",
}
FRESH_CONTAINER_CALLS = {
    "set", "list", "dict", "sorted", "tuple", "frozenset", "reversed", "natsorted", "Counter",
    "collections.Counter", "defaultdict", "collections.defaultdict", "enumerate", "zip", "filter", "map",
    "sorted_tuple", "iter", "next",
}
VIEW_METHODS = {"items", "values", "keys", "copy", "get", "union", "intersection", "difference",
                "symmetric_difference", "most_common", "elements"}


class V:
    __slots__ = ("k", "fam", "ctype", "elem", "fields", "param")

    def __init__(self, k, fam=None, ctype=None, elem=None, fields=None, param=None):
        self.k, self.fam, self.ctype, self.elem, self.fields, self.param = k, fam, ctype, elem, fields, param

    def __repr__(self):
        if self.k == "P":
            return f"P({self.fam}{',' + self.ctype if self.ctype else ''}{',param' + str(self.param) if self.param is not None else ''})"
        if self.k == "CONT":
            return f"CONT({self.elem})"
        if self.k == "SHALLOW":
            return f"SHALLOW({self.fam},{sorted(self.fields)})"
        return self.k


U = V("U")
FRESH = V("FRESH")


def P(fam, ctype=None, param=None):
    return V("P", fam=fam, ctype=ctype, param=param)


def CONT(elem):
    return V("CONT", elem=elem or U)


def PAR(i):
    """An (unprotected) parameter: tracked so that writes through it show up in `mutates`."""
    return V("PAR", param=i)


def join(a: V, b: V) -> V:
    if a is None:
        return b
    if b is None:
        return a
    if a.k == "P":
        return a
    if b.k == "P":
        return b
    if a.k == "PAR":
        return a
    if b.k == "PAR":
        return b
    if a.k == "SHALLOW" or b.k == "SHALLOW":
        if a.k == b.k:
            f = {k: join(a.fields.get(k), b.fields.get(k)) for k in set(a.fields) & set(b.fields)}
            return V("SHALLOW", fam=a.fam, fields=f)
        s = a if a.k == "SHALLOW" else b
        return s
    if a.k == "CONT" and b.k == "CONT":
        return CONT(join(a.elem, b.elem))
    if a.k == "CONT":
        return a
    if b.k == "CONT":
        return b
    if a.k == "U" or b.k == "U":
        return U
    return FRESH


def elem_of(v: V) -> V:
    if v.k == "P":
        return P(v.fam, None, v.param)
    if v.k == "PAR":
        return v
    if v.k == "CONT":
        return v.elem
    if v.k == "SHALLOW":
        return P(v.fam)
    return v


def ann_family(ann) -> Optional[str]:
    if ann is None:
        return None
    t = ast.unparse(ann)
    import re

    names = set(re.findall(r"[A-Za-z_]+", t))
    if names & GENE_TYPES:
        return "G"
    if names & EVID_TYPES:
        return "E"
    return None


def ann_ctype(ann) -> Optional[str]:
    if ann is None:
        return None
    t = ast.unparse(ann)
    for pre, c in (("Set[", "set"), ("List[", "list"), ("Dict[", "dict"), ("set", "set"), ("list", "list"),
                   ("dict", "dict")):
        if t.startswith(pre) or t.startswith("Optional[" + pre):
            return c
    return None


class Program:
    """Whole-package facts: field container kinds, function table, summaries."""

    def __init__(self, repo: Repo, owners: Dict[str, Set[str]]):
        self.repo = repo
        self.owners = owners  # family -> set of 'module::qual' prefixes that may write it
        self.field_ctype: Dict[str, str] = {}
        self.class_family: Dict[str, str] = {}
        self.funcs: Dict[str, ast.AST] = dict(repo.all_functions())
        self.by_name: Dict[str, List[str]] = {}
        for q in self.funcs:
            self.by_name.setdefault(q.split("::")[1].split(".")[-1], []).append(q)
        for mn, m in repo.modules.items():
            for cq, c in m.classes.items():
                if c.name in GENE_TYPES:
                    self.class_family[f"{mn}::{cq}"] = "G"
                elif c.name in EVID_TYPES:
                    self.class_family[f"{mn}::{cq}"] = "E"
                for st in c.body:
                    if isinstance(st, ast.AnnAssign) and isinstance(st.target, ast.Name):
                        ct = ann_ctype(st.annotation)
                        if ct:
                            self.field_ctype.setdefault(st.target.id, ct)
        for a in ("_coverage", "_indels", "_cnv_coverage", "_region_coverage", "phases", "_indel_sites",
                  "_fusion_counter", "_dump_cn", "_multi_sites", "phaseable", "_indel_sites_eqs"):
            self.field_ctype.setdefault(a, "dict")
        self.param_fam: Dict[str, Dict[int, str]] = {q: {} for q in self.funcs}
        self.mutates: Dict[str, Set[int]] = {q: set() for q in self.funcs}
        self.returns: Dict[str, V] = {}
        self.unresolved = 0
        self.resolved = 0

    # ------------------------------------------------------------------------------------
    def self_family(self, qual: str) -> Optional[str]:
        mod, q = qual.split("::")
        parts = q.split(".")
        for i in range(len(parts) - 1, 0, -1):
            cq = f"{mod}::{'.'.join(parts[:i])}"
            if cq in self.class_family:
                return self.class_family[cq]
        return None

    def is_owner(self, qual: str, fam: str) -> bool:
        return any(qual == o or qual.startswith(o + ".") for o in self.owners.get(fam, ()))

    def resolve(self, call: ast.Call, caller_qual: str) -> Optional[str]:
        """Qualified name of the repo function a call targets (None = external / unknown)."""
        mod = caller_qual.split("::")[0]
        m = self.repo.modules[mod]
        f = call.func
        if isinstance(f, ast.Name):
            # nested function of an enclosing function
            parts = caller_qual.split("::")[1].split(".")
            for i in range(len(parts), 0, -1):
                q = f"{mod}::{'.'.join(parts[:i])}.{f.id}"
                if q in self.funcs:
                    return q
            if f"{mod}::{f.id}" in self.funcs:
                return f"{mod}::{f.id}"
            if f"{mod}::{f.id}" in {f"{mod}::{c}" for c in m.classes}:
                q = f"{mod}::{f.id}.__init__"
                return q if q in self.funcs else None
            if f.id in m.imports:
                src, attr = m.imports[f.id]
                sm = src.lstrip(".")
                if src.startswith(".") and sm in self.repo.modules and attr:
                    if f"{sm}::{attr}" in self.funcs:
                        return f"{sm}::{attr}"
                    if attr in self.repo.modules[sm].classes:
                        q = f"{sm}::{attr}.__init__"
                        return q if q in self.funcs else None
            return None
        if isinstance(f, ast.Attribute):
            base = f.value
            if isinstance(base, ast.Name):
                if base.id in m.imports:
                    src, attr = m.imports[base.id]
                    target_mod = attr if (src == "." and attr in self.repo.modules) else None
                    if target_mod and f"{target_mod}::{f.attr}" in self.funcs:
                        return f"{target_mod}::{f.attr}"
                    # imported class: Class.method
                    sm = src.lstrip(".")
                    if src.startswith(".") and sm in self.repo.modules and attr in self.repo.modules[sm].classes:
                        q = f"{sm}::{attr}.{f.attr}"
                        if q in self.funcs:
                            return q
                if base.id in m.classes and f"{mod}::{base.id}.{f.attr}" in self.funcs:
                    return f"{mod}::{base.id}.{f.attr}"
                if base.id == "self":
                    parts = caller_qual.split("::")[1].split(".")
                    for i in range(len(parts) - 1, 0, -1):
                        q = f"{mod}::{'.'.join(parts[:i])}.{f.attr}"
                        if q in self.funcs:
                            return q
            cands = [q for q in self.by_name.get(f.attr, []) if "." in q.split("::")[1]]
            if len(cands) == 1:
                return cands[0]
        return None


class FuncAnalysis:
    """Abstract interpretation of one function body."""

    def __init__(self, prog: Program, qual: str, func, record=True):
        self.prog, self.qual, self.func = prog, qual, func
        self.env: Dict[str, V] = {}
        self.writes: List[Tuple[ast.AST, V, str]] = []  # (node, written value, description)
        self.mut_params: Set[int] = set()
        self.ret: Optional[V] = None
        self.call_args: List[Tuple[str, int, V, ast.Call]] = []
        self.refined: Dict[str, V] = {}
        self.record = record
        self.params: List[str] = []
        self._init_params()

    def _init_params(self):
        if isinstance(self.func, ast.Lambda):
            args = self.func.args
        else:
            args = self.func.args
        allp = args.posonlyargs + args.args + args.kwonlyargs
        self.params = [a.arg for a in allp]
        sf = self.prog.self_family(self.qual)
        for i, a in enumerate(allp):
            fam = ann_family(a.annotation)
            if i == 0 and a.arg == "self":
                fam = sf
                self.env[a.arg] = P(fam, None, 0) if fam else PAR(0)
                continue
            fam = fam or self.prog.param_fam[self.qual].get(i)
            if fam:
                self.env[a.arg] = P(fam, ann_ctype(a.annotation), i)
            else:
                self.env[a.arg] = PAR(i)
        # closures see the enclosing function's protected names conservatively
        outer = getattr(self.func, "_func", None)
        while outer is not None:
            oq = qual_of(outer)
            oa = outer.args
            for i, a in enumerate(oa.posonlyargs + oa.args + oa.kwonlyargs):
                if a.arg not in self.env:
                    fam = ann_family(a.annotation) or self.prog.param_fam.get(oq, {}).get(i)
                    if i == 0 and a.arg == "self":
                        fam = self.prog.self_family(oq)
                    if fam:
                        self.env[a.arg] = P(fam, ann_ctype(a.annotation))
            outer = getattr(outer, "_func", None)

    # -- expression values ------------------------------------------------------------------
    def val(self, e) -> V:
        if e is None:
            return U
        if isinstance(e, ast.Name):
            return self.env.get(e.id, U)
        if isinstance(e, ast.Attribute):
            key = ast.unparse(e)
            if key in self.refined:
                return self.refined[key]
            b = self.val(e.value)
            if e.attr in ROOT_ATTRS:
                return P(ROOT_ATTRS[e.attr], None, b.param if b.k in ("P", "PAR") else None)
            if e.attr == "coverage" and b.k == "P" and b.fam == "E":
                return P("E", None, b.param)
            ct = self.prog.field_ctype.get(e.attr)
            if b.k == "P":
                return P(b.fam, ct, b.param)
            if b.k == "PAR":
                return V("PAR", param=b.param, ctype=ct)
            if b.k == "SHALLOW":
                return b.fields.get(e.attr, P(b.fam, ct))
            if b.k == "FRESH":
                return FRESH
            return U
        if isinstance(e, ast.Subscript):
            key = ast.unparse(e)
            if key in self.refined:
                return self.refined[key]
            b = self.val(e.value)
            if isinstance(e.slice, ast.Slice):
                return CONT(elem_of(b)) if b.k in ("P", "CONT", "PAR") else b
            return elem_of(b)
        if isinstance(e, ast.Call):
            return self.call_val(e)
        if isinstance(e, (ast.List, ast.Tuple, ast.Set)):
            v = None
            for x in e.elts:
                v = join(v, self.val(x.value if isinstance(x, ast.Starred) else x))
            return CONT(v or FRESH)
        if isinstance(e, ast.Dict):
            v = None
            for x in e.values:
                v = join(v, self.val(x))
            return CONT(v or FRESH)
        if isinstance(e, (ast.ListComp, ast.SetComp, ast.GeneratorExp, ast.DictComp)):
            saved = dict(self.env)
            for g in e.generators:
                self.bind(g.target, elem_of(self.val(g.iter)))
            v = self.val(e.value if isinstance(e, ast.DictComp) else e.elt)
            self.env = saved
            return CONT(v)
        if isinstance(e, ast.BinOp):
            l, r = self.val(e.left), self.val(e.right)
            if l.k in ("P", "CONT", "PAR", "SHALLOW") or r.k in ("P", "CONT", "PAR", "SHALLOW"):
                if isinstance(e.op, (ast.BitOr, ast.BitAnd, ast.Sub, ast.Add, ast.BitXor, ast.Mult)):
                    return CONT(join(elem_of(l) if l.k in ("P", "CONT", "PAR") else None,
                                     elem_of(r) if r.k in ("P", "CONT", "PAR") else None))
            return U
        if isinstance(e, ast.IfExp):
            return join(self.val(e.body), self.val(e.orelse))
        if isinstance(e, ast.BoolOp):
            v = None
            for x in e.values:
                v = join(v, self.val(x))
            return v or U
        if isinstance(e, ast.Starred):
            return self.val(e.value)
        if isinstance(e, ast.NamedExpr):
            v = self.val(e.value)
            self.bind(e.target, v)
            return v
        if isinstance(e, ast.Await):
            return self.val(e.value)
        return U

    def call_val(self, c: ast.Call) -> V:
        nm = call_name(c)
        if nm in ("copy.deepcopy", "deepcopy"):
            return FRESH
        if nm in ("copy.copy",):
            v = self.val(c.args[0]) if c.args else U
            if v.k == "P":
                return V("SHALLOW", fam=v.fam, fields={})
            return v
        if nm in FRESH_CONTAINER_CALLS:
            v = None
            for a in c.args:
                av = self.val(a)
                v = join(v, elem_of(av) if av.k in ("P", "CONT", "PAR", "SHALLOW") else None)
            if nm in ("next",):
                return v or U
            return CONT(v or FRESH)
        if isinstance(c.func, ast.Attribute):
            recv = self.val(c.func.value)
            a = c.func.attr
            if a in VIEW_METHODS and recv.k in ("P", "CONT", "PAR", "SHALLOW"):
                if a == "get":
                    d = self.val(c.args[1]) if len(c.args) > 1 else None
                    return join(elem_of(recv), d)
                return CONT(elem_of(recv))
            if a in ("pop", "setdefault", "popitem") and recv.k in ("P", "CONT", "PAR"):
                return elem_of(recv)
        target = self.prog.resolve(c, self.qual)
        if target is not None:
            self.prog.resolved += 1
            f = self.prog.funcs[target]
            if target.endswith(".__init__"):
                # constructor: fresh object; protected only if an argument aliases protected storage
                v = None
                for a in list(c.args) + [k.value for k in c.keywords]:
                    av = self.val(a)
                    if av.k in ("P", "SHALLOW") or (av.k == "CONT" and av.elem.k == "P"):
                        v = join(v, av)
                if v is None:
                    return FRESH
                fam = v.fam if v.k in ("P", "SHALLOW") else v.elem.fam
                return V("SHALLOW", fam=fam, fields={})
            r = self.prog.returns.get(target)
            if r is None:
                return U
            return self.instantiate(r, c, target)
        else:
            self.prog.unresolved += 1
        # external / unknown call: a method on a protected receiver may hand out a sub-object
        if isinstance(c.func, ast.Attribute):
            recv = self.val(c.func.value)
            if recv.k == "P" and c.func.attr not in ("lower", "upper", "split", "strip", "replace", "startswith",
                                                     "endswith", "join", "format", "samtools", "index", "count"):
                return U
        return U

    def instantiate(self, r: V, c: ast.Call, target: str) -> V:
        """Map a callee return summary (expressed over its parameters) to this call site."""
        if r.k in ("P", "PAR") and r.param is not None:
            arg = self.arg_for(c, target, r.param)
            if arg is None:
                return P(r.fam, r.ctype) if r.k == "P" else U
            av = self.val(arg)
            if av.k in ("P",):
                return P(av.fam, r.ctype, av.param)
            if av.k == "PAR":
                return V("PAR", param=av.param)
            if av.k in ("SHALLOW",):
                return P(av.fam, r.ctype)
            if r.k == "P":
                return av if av.k in ("FRESH", "CONT") else P(r.fam, r.ctype)
            return av
        if r.k == "P":
            return P(r.fam, r.ctype)
        if r.k == "CONT":
            return CONT(self.instantiate(r.elem, c, target))
        if r.k == "SHALLOW":
            return V("SHALLOW", fam=r.fam, fields=dict(r.fields))
        return r

    def arg_for(self, c: ast.Call, target: str, idx: int):
        f = self.prog.funcs[target]
        allp = f.args.posonlyargs + f.args.args + f.args.kwonlyargs
        names = [a.arg for a in allp]
        is_method = bool(names) and names[0] in ("self", "cls") and not any(
            isinstance(d, ast.Name) and d.id == "staticmethod" for d in getattr(f, "decorator_list", []))
        bound = target.endswith(".__init__") or (is_method and isinstance(c.func, ast.Attribute)
                                                 and not (isinstance(c.func.value, ast.Name)
                                                          and c.func.value.id in self.prog.repo.modules[target.split("::")[0]].classes
                                                          ))
        # Class.method(obj, ...) style (e.g. Coverage.basic_filter via partial) is not bound
        if bound:
            if idx == 0:
                return c.func.value if isinstance(c.func, ast.Attribute) else None
            pos = idx - 1
        else:
            pos = idx
        if pos < len(c.args) and not any(isinstance(a, ast.Starred) for a in c.args[: pos + 1]):
            return c.args[pos]
        if idx < len(names):
            for k in c.keywords:
                if k.arg == names[idx]:
                    return k.value
        return None

    # -- binding -----------------------------------------------------------------------------
    def bind(self, target, v: V):
        if isinstance(target, ast.Name):
            self.env[target.id] = v
            for k in [k for k in self.refined if _mentions(k, target.id)]:
                del self.refined[k]
        elif isinstance(target, (ast.Tuple, ast.List)):
            ev = elem_of(v) if v.k in ("P", "CONT", "PAR", "SHALLOW") else v
            for t in target.elts:
                self.bind(t.value if isinstance(t, ast.Starred) else t, ev)

    # -- writes ------------------------------------------------------------------------------
    def note_write(self, node, v: V, what: str):
        if v.k == "P":
            self.writes.append((node, v, what))
            if v.param is not None:
                self.mut_params.add(v.param)
        elif v.k == "PAR" and v.param is not None:
            self.mut_params.add(v.param)
        elif v.k == "SHALLOW":
            pass

    def store(self, target, value_v: Optional[V], node, aug=False, delete=False):
        if isinstance(target, ast.Name):
            if aug:
                cur = self.env.get(target.id, U)
                op = node.op if isinstance(node, ast.AugAssign) else None
                setop = isinstance(op, (ast.BitOr, ast.BitAnd, ast.BitXor))
                arith = isinstance(op, (ast.Add, ast.Sub, ast.Mult))
                if cur.k in ("P", "PAR") and ((setop and cur.ctype in ("set", "dict", None) and cur.ctype != "scalar"
                                               and (cur.ctype is not None or cur.k == "P" and False or cur.ctype))
                                              or (arith and cur.ctype in ("set", "list"))):
                    self.note_write(node, cur, f"in-place `{ast.unparse(node)}` on an alias of protected storage")
                elif cur.k == "P" and setop and cur.ctype is None:
                    # unknown kind: a set operator on a protected alias is almost surely a container
                    self.note_write(node, cur, f"in-place `{ast.unparse(node)}` on an alias of protected storage")
                elif cur.k == "CONT" and value_v is not None:
                    self.env[target.id] = CONT(join(cur.elem, elem_of(value_v) if value_v.k in ("P", "CONT", "PAR") else None))
            elif delete:
                self.env.pop(target.id, None)
            else:
                self.bind(target, value_v or U)
            return
        if isinstance(target, (ast.Tuple, ast.List)):
            for t in target.elts:
                self.store(t, elem_of(value_v) if value_v and value_v.k in ("P", "CONT", "PAR") else value_v, node,
                           aug, delete)
            return
        if isinstance(target, ast.Attribute):
            b = self.val(target.value)
            if b.k in ("P", "PAR"):
                self.note_write(node, b, f"attribute store `{ast.unparse(target)}`")
            elif b.k == "SHALLOW":
                if aug:
                    cur = b.fields.get(target.attr)
                    if cur is None or cur.k == "P":
                        self.note_write(node, P(b.fam), f"in-place update of un-copied field `{ast.unparse(target)}`")
                elif isinstance(target.value, ast.Name):
                    nf = dict(b.fields)
                    nf[target.attr] = value_v or U
                    self.env[target.value.id] = V("SHALLOW", fam=b.fam, fields=nf)
            return
        if isinstance(target, ast.Subscript):
            b = self.val(target.value)
            if b.k in ("P", "PAR"):
                self.note_write(node, b, f"{'delete' if delete else 'store'} into `{ast.unparse(target.value)}[...]`")
            elif b.k == "SHALLOW":
                self.note_write(node, P(b.fam), f"store into shallow copy `{ast.unparse(target)}`")
            else:
                if not delete and not aug and value_v is not None and value_v.k in ("FRESH",):
                    self.refined[ast.unparse(target)] = FRESH
                elif not delete and not aug and value_v is not None:
                    self.refined.pop(ast.unparse(target), None)
                    if isinstance(target.value, ast.Name) and b.k == "CONT":
                        self.env[target.value.id] = CONT(join(b.elem, value_v))
            return

    def handle_call(self, c: ast.Call):
        # reflective attribute writes count as attribute stores
        if isinstance(c.func, ast.Name) and c.func.id in ("setattr", "delattr") and c.args:
            b = self.val(c.args[0])
            if b.k in ("P", "PAR"):
                self.note_write(c, b, f"reflective `{ast.unparse(c)[:60]}`")
        # mutator method on protected receiver
        if isinstance(c.func, ast.Attribute) and c.func.attr in MUTATORS:
            recv = self.val(c.func.value)
            target = self.prog.resolve(c, self.qual)
            if target is None or not target.split("::")[1].endswith("." + c.func.attr):
                if recv.k in ("P", "PAR"):
                    self.note_write(c, recv, f"mutator call `{ast.unparse(c.func)}(...)`")
                elif recv.k == "SHALLOW":
                    pass
        target = self.prog.resolve(c, self.qual)
        if target is not None:
            f = self.prog.funcs[target]
            allp = f.args.posonlyargs + f.args.args + f.args.kwonlyargs
            for i, a in enumerate(allp):
                arg = self.arg_for(c, target, i)
                if arg is None:
                    continue
                av = self.val(arg)
                self.call_args.append((target, i, av, c))
                if i in self.prog.mutates.get(target, ()):  # callee writes through this parameter
                    if av.k in ("P", "PAR"):
                        self.note_write(c, av, f"passes `{ast.unparse(arg)}` to {target}, which writes through parameter `{a.arg}`")
                    elif av.k == "SHALLOW":
                        self.note_write(c, P(av.fam), f"passes shallow copy `{ast.unparse(arg)}` to {target}, which writes through `{a.arg}`")
                    elif av.k == "CONT" and av.elem.k == "P":
                        pass

    # -- statements --------------------------------------------------------------------------
    def run(self):
        body = self.func.body if not isinstance(self.func, ast.Lambda) else [ast.Return(value=self.func.body)]
        self.block(body)
        return self

    def block(self, stmts):
        for st in stmts:
            self.stmt(st)

    def scan_calls(self, node):
        for n in walk_local(node) if not isinstance(node, FuncNode) else []:
            if isinstance(n, ast.Call):
                self.handle_call(n)

    def stmt(self, st):
        if isinstance(st, (ast.FunctionDef, ast.AsyncFunctionDef, ast.ClassDef)):
            return
        if isinstance(st, ast.Assign):
            self.scan_calls(st.value)
            v = self.val(st.value)
            for t in st.targets:
                self.scan_calls_in_target(t)
                self.store(t, v, st)
        elif isinstance(st, ast.AnnAssign):
            if st.value is not None:
                self.scan_calls(st.value)
                v = self.val(st.value)
                if v.k in ("P", "PAR") and v.ctype is None:
                    v = V(v.k, fam=v.fam, ctype=ann_ctype(st.annotation), param=v.param)
                self.store(st.target, v, st)
        elif isinstance(st, ast.AugAssign):
            self.scan_calls(st.value)
            self.scan_calls_in_target(st.target)
            self.store(st.target, self.val(st.value), st, aug=True)
        elif isinstance(st, ast.Delete):
            for t in st.targets:
                self.store(t, None, st, delete=True)
        elif isinstance(st, ast.Expr):
            self.scan_calls(st.value)
            if isinstance(st.value, (ast.Yield, ast.YieldFrom)) and st.value.value is not None:
                self.ret = join(self.ret, CONT(self.val(st.value.value)))
        elif isinstance(st, ast.Return):
            if st.value is not None:
                self.scan_calls(st.value)
                self.ret = join(self.ret, self.val(st.value))
        elif isinstance(st, ast.If):
            self.scan_calls(st.test)
            e0, r0 = dict(self.env), dict(self.refined)
            self.block(st.body)
            e1, r1 = self.env, self.refined
            self.env, self.refined = dict(e0), dict(r0)
            self.block(st.orelse)
            self.env = _join_env(e1, self.env)
            self.refined = {k: v for k, v in r1.items() if k in self.refined}
        elif isinstance(st, (ast.For, ast.AsyncFor)):
            self.scan_calls(st.iter)
            for _ in range(2):
                e0 = dict(self.env)
                self.bind(st.target, elem_of(self.val(st.iter)))
                self.block(st.body)
                self.env = _join_env(e0, self.env)
            self.block(st.orelse)
        elif isinstance(st, ast.While):
            self.scan_calls(st.test)
            for _ in range(2):
                e0 = dict(self.env)
                self.block(st.body)
                self.env = _join_env(e0, self.env)
            self.block(st.orelse)
        elif isinstance(st, (ast.With, ast.AsyncWith)):
            for it in st.items:
                self.scan_calls(it.context_expr)
                if it.optional_vars is not None:
                    self.bind(it.optional_vars, U)
            self.block(st.body)
        elif isinstance(st, ast.Try):
            self.block(st.body)
            for h in st.handlers:
                self.block(h.body)
            self.block(st.orelse)
            self.block(st.finalbody)
        elif isinstance(st, (ast.Raise, ast.Assert)):
            for ch in ast.iter_child_nodes(st):
                self.scan_calls(ch)
        else:
            for ch in ast.iter_child_nodes(st):
                if isinstance(ch, ast.expr):
                    self.scan_calls(ch)

    def scan_calls_in_target(self, t):
        for n in ast.walk(t):
            if isinstance(n, ast.Call):
                self.handle_call(n)


def _join_env(a, b):
    out = {}
    for k in set(a) | set(b):
        if k in a and k in b:
            out[k] = join(a[k], b[k])
        else:
            out[k] = a.get(k) or b.get(k)
    return out


def _mentions(text: str, name: str) -> bool:
    import re

    return re.search(rf"\b{re.escape(name)}\b", text) is not None


def analyse(repo: Repo, owners: Dict[str, Set[str]], rounds: int = 6):
    """Fixpoint over the package. Returns (program, {qual: FuncAnalysis})."""
    prog = Program(repo, owners)
    results: Dict[str, FuncAnalysis] = {}
    for _ in range(rounds):
        changed = False
        prog.resolved = prog.unresolved = 0
        for q, f in prog.funcs.items():
            if isinstance(f, ast.Lambda):
                continue
            fa = FuncAnalysis(prog, q, f).run()
            results[q] = fa
            if fa.mut_params - prog.mutates[q]:
                prog.mutates[q] |= fa.mut_params
                changed = True
            r = fa.ret or FRESH
            old = prog.returns.get(q)
            if old is None or repr(old) != repr(r):
                prog.returns[q] = r
                changed = True
            for target, i, av, c in fa.call_args:
                if av.k == "P" and i not in prog.param_fam[target]:
                    tf = prog.funcs[target]
                    allp = tf.args.posonlyargs + tf.args.args + tf.args.kwonlyargs
                    if i < len(allp) and allp[i].annotation is None and not (i == 0 and allp[i].arg == "self"):
                        prog.param_fam[target][i] = av.fam
                        changed = True
        if not changed:
            break
    return prog, results
