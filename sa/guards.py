"""
Guard-dominance helpers (idiom B of DESIGN.md): which exiting guards protect a sink, under which
assumption about the route, and what predicate they implement on an enumerated grid.
"""

import ast
import itertools
from typing import Any, Callable, Dict, Iterable, List, Optional, Tuple

from .cfg import CFG, cfg_of
from .fold import Evaluator, Raised, Unfoldable
from .loader import AnalysisError, call_name, calls_in, walk_local


def decide_with(env: Dict[str, Any], consts=None, defs=None, hook=None) -> Callable:
    """A `decide` function for CFG.prune: fold a test under `env`; None if it mentions anything else."""

    def decide(test):
        try:
            return bool(Evaluator(env, consts=consts, defs=defs, hook=hook).ev(test))
        except (Unfoldable, Raised):
            return None

    return decide


def exiting_guards(cfg: CFG, sink: int, removed=frozenset(), kinds=("raise",)) -> List[Tuple[ast.AST, bool]]:
    """[(test, polarity_that_exits)] for every `if` such that
       * one of its edges leads to a region that can only leave the function by `kinds`
         (raise / return), and
       * the *other* edge dominates `sink` (so reaching the sink means the test had the other value).
    """
    out = []
    d = cfg.dominators(removed)
    if sink not in d:
        return out
    for x in d[sink]:
        n = cfg.nodes[x]
        if n.kind != "branch" or n.label not in (True, False):
            continue
        t, f = cfg.branch_nodes(n.ast)
        other = f if n.label is True else t
        if other is None or other in removed:
            # the exiting edge is infeasible under the assumption: not a guard on this route
            continue
        ex = cfg.body_exits(other, removed)
        if ex and ex <= set(kinds):
            out.append((n.ast, not n.label))
    return out


def find_calls(func, suffix: str) -> List[ast.Call]:
    """Calls in `func` (not in nested defs) whose dotted callee ends with `suffix`."""
    out = []
    for c in calls_in(func):
        nm = call_name(c)
        if nm == suffix or nm.endswith("." + suffix):
            out.append(c)
    return out


def names_assigned_from(func, pred: Callable[[ast.AST], bool]) -> List[str]:
    """Local names bound by `name = <expr>` where pred(expr)."""
    out = []
    for n in walk_local(func):
        if isinstance(n, ast.Assign) and len(n.targets) == 1 and isinstance(n.targets[0], ast.Name):
            if pred(n.value):
                out.append(n.targets[0].id)
    return out


def grid(**axes: Iterable) -> List[Dict[str, Any]]:
    keys = list(axes)
    return [dict(zip(keys, vals)) for vals in itertools.product(*[list(axes[k]) for k in keys])]


def guard_table(tests: List[Tuple[ast.AST, bool]], points: List[Dict[str, Any]], bind: Callable,
                consts=None, defs=None, hook_of: Optional[Callable] = None) -> List[Optional[bool]]:
    """For each grid point: does at least one guard exit?  Guards that mention atoms outside the
    bound language are ignored (they cannot be credited), which is conservative."""
    res = []
    for p in points:
        env = bind(p)
        fired = False
        for t, pol in tests:
            try:
                v = bool(Evaluator(env, consts=consts, defs=defs, hook=hook_of(p) if hook_of else None).ev(t))
            except (Unfoldable, Raised):
                continue
            if v == pol:
                fired = True
                break
        res.append(fired)
    return res


def fmt_tests(tests) -> str:
    return "; ".join(("" if pol else "not ") + "(" + ast.unparse(t) + ")" for t, pol in tests) or "<none>"


def kind_name(func) -> str:
    """Local name bound to the input kind: first element of `<a>, <b> = <x>.detect_genome(...)` (falls back to 'kind')."""
    for n in walk_local(func):
        if isinstance(n, ast.Assign) and isinstance(n.targets[0], ast.Tuple) and isinstance(n.value, ast.Call) \
                and call_name(n.value).endswith("detect_genome") and isinstance(n.targets[0].elts[0], ast.Name):
            return n.targets[0].elts[0].id
    return "kind"


def attr_hook(values: Dict[str, Any]):
    """Evaluator hook binding attribute reads by their *attribute name* whatever the receiver is called
    (profile.min_avg_coverage == prof.min_avg_coverage): {attr: value}."""

    def hook(node, ev):
        if isinstance(node, ast.Attribute) and node.attr in values and isinstance(node.ctx, ast.Load):
            return values[node.attr]
        return NotImplemented

    return hook
